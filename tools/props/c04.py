"""C04 — buffers and builders keep objects intact across growth, commit, rollback, purge
(DESIGN.md §3 C04).

1. proof stage: lean/Osmium/Props/C04.lean built + axiom audit (buf_inv both halves for all scripts,
   capacity_independent, built_content via the bridge to HostileLayout.build, purge_spec, laws).
2. correspondence: op scripts interpreted by harness/c04.cpp on the REAL Buffer + builders (ASan +
   UBSan) and by the compiled Lean model (lean/Driver/C04.lean); for every script EVERY capacity
   that is a multiple of 8 from 64 to (total size + 64) x 3 grow modes; after every op
   (cap, written, committed, nested?) and after every commit the item tree + hex are compared.
   Scripts: hand-written per mechanism, corpus/C04/*.ops, random.
3. property monitors on the implementation alone:
   * every `dump` must equal an independent Python statement of the expected view (what was passed
     to the builders; commit/rollback/clear/add_buffer/push_back/setrm/purge on a list of trees),
     for every capacity and mode — content exactness and capacity independence at once;
   * final `dumpall` must equal the one of the same script at a huge capacity;
   * mode `no`: buffer_is_full exactly at the first op whose size does not fit, committed prefix intact;
   * byte-level walks of every dump: top-level items end exactly at `committed`; every OSM object's
     size is a multiple of 8 and its sub-item walk ends exactly at its end;
   * purge: callbacks / resulting bytes vs an independent Python oracle working on the hex dump;
   * regression probe `discussion-pending-comment-unfinished`: a ChangesetDiscussionBuilder destroyed
     with a pending comment must leave a well-formed discussion (/repo 5690f83);
   * an ASan/UBSan report is a failing input.
Finding F4 (ChangesetDiscussionBuilder::m_comment dangling across a reallocation; fixed in /repo
d30efa2) is re-detected with the stable key `discussion-comment-stale-pointer` if it comes back; the
check determines on every run which builder variant the source has (`fix`) and runs the model in it.
"""
import concurrent.futures
import os
import re

FILL = 190
HUGE = 1 << 20
AUX = 4096
ASAN_ENV = {'ASAN_OPTIONS': 'malloc_fill_byte=190:max_malloc_fill_size=1073741824:detect_leaks=0:abort_on_error=0',
            'UBSAN_OPTIONS': 'print_stacktrace=0'}
F4_KEY = 'discussion-comment-stale-pointer'
CHUNK_TIMEOUT = 600      # wall-clock last resort only; hangs are cut by the harness' own 4 s CPU-time watchdog per op
MAX_CRASHES = 4
UNDEF = 2147483647


def hx(b):
    return b.hex() if b else '-'


# ------------------------------------------------------------------------------------------
# script generation: every recipe yields (ops, tree) where tree = [prefix, removed, suffix]
# ------------------------------------------------------------------------------------------
class T:
    """top-level item of the expected view"""

    def __init__(self, pre, post, entity=True):
        self.pre, self.rm, self.post, self.entity = pre, 0, post, entity

    def copy(self):
        t = T(self.pre, self.post, self.entity)
        t.rm = self.rm
        return t

    def __str__(self):
        return '%s%d%s' % (self.pre, self.rm, self.post)


def rstr(rng, n, alphabet=b'abcdefghijklmnopqrstuvwxyz0123456789 _:'):
    return bytes(rng.choice(alphabet) for _ in range(n))


USER_LENS = [0, 1, 4, 5, 6, 7, 8, 12, 13, 14, 15, 21, 22, 60, 200]
STR_LENS = [0, 1, 2, 3, 6, 7, 8, 9, 15, 16, 40]


def gen_taglist(rng, ntags=None, long=False):
    n = rng.below(4) if ntags is None else ntags
    ops, parts = ['taglist'], []
    for _ in range(n):
        k = rstr(rng, rng.choice(STR_LENS))
        v = rstr(rng, 100 if long and rng.chance(1, 3) else rng.choice(STR_LENS))
        ops.append('%s %s %s' % (rng.choice(['tag', 'tags']), hx(k), hx(v)))
        parts.append('%s=%s' % (hx(k), hx(v)))
    ops.append('end')
    return ops, 'T{0}(%s)' % ','.join(parts)


def gen_nodelist(rng, kind, letter):
    n = rng.below(5)
    ops, parts = [kind], []
    for _ in range(n):
        ref = rng.choice([1, -1, 2 ** 40, rng.below(1000)])
        x, y = rng.below(2000) - 1000, rng.choice([0, UNDEF, -2 ** 31, rng.below(100)])
        ops.append('nr %d %d %d' % (ref, x, y))
        parts.append('%d:%d:%d' % (ref, x, y))
    ops.append('end')
    return ops, '%s{0}(%s)' % (letter, ','.join(parts))


AUX_PRELUDE = ['swap', 'node', 'set id 101', 'user 6178', 'end', 'commit',
               'way', 'set id 102', 'wnl', 'nr 1 2 3', 'end', 'end', 'commit',
               'taglist', 'tag 61 62', 'end', 'commit', 'swap']
AUX_TREES = ['n{101,0,0,0,0,0,%d,%d,6178,0}[]' % (UNDEF, UNDEF), 'w{102,0,0,0,0,0,-,0}[W{0}(1:2:3)]', 'T{0}(61=62)']
AUX_ENTITY = [True, True, False]


def gen_object(rng, kind=None, f4=True):
    """one top-level object through the primitive builder calls"""
    kind = kind or rng.choice(['node', 'way', 'relation', 'area', 'changeset', 'node', 'way', 'relation'])
    ops = [kind]
    user = rstr(rng, rng.choice(USER_LENS)) if rng.chance(3, 4) else None
    subs = []
    rm = 0
    if kind == 'changeset':
        f = {'id': 0, 'uid': 0, 'created': 0, 'closed': 0, 'nchanges': 0, 'ncomments': 0}
        bounds = [UNDEF] * 4
        for name in f:
            if rng.chance(1, 2):
                f[name] = rng.choice([1, 2 ** 32 - 1, rng.below(10 ** 6)])
                ops.append('set %s %d' % (name, f[name]))
        if rng.chance(1, 3):
            bounds = [rng.below(1000) - 500 for _ in range(4)]
            ops.append('set bounds %d %d %d %d' % tuple(bounds))
        if user is not None:
            ops.append('user ' + hx(user))
        if rng.chance(1, 2):
            o, t = gen_taglist(rng)
            ops += o
            subs.append(t)
        if f4 and rng.chance(2, 3):
            ops.append('disc')
            parts = []
            for _ in range(1 + rng.below(3)):
                cu = rstr(rng, rng.choice([0, 1, 3, 7, 8, 30, 200]))
                ct = rstr(rng, rng.choice([0, 1, 7, 8, 9, 50]))
                d, u = rng.below(2 ** 32), rng.below(2 ** 32)
                ops.append('comment %d %d %s' % (d, u, hx(cu)))
                ops.append('ctext ' + hx(ct))
                parts.append('%d:%d:%s:%s' % (d, u, hx(cu), hx(ct)))
            ops.append('end')
            subs.append('D{0}(%s)' % ','.join(parts))
        ops.append('end')
        pre = 'c{%d,%d,%d,%d,%d,%d,%d,%d,%d,%d,%s,' % (f['id'], f['uid'], f['created'], f['closed'], f['nchanges'],
                                                       f['ncomments'], bounds[0], bounds[1], bounds[2], bounds[3],
                                                       hx(user or b''))
        return ops, T(pre, '}[%s]' % ' '.join(subs))
    f = {'id': 0, 'version': 0, 'deleted': 0, 'ts': 0, 'uid': 0, 'cs': 0}
    for name in f:
        if rng.chance(1, 2):
            if name == 'id':
                v = rng.choice([1, -1, 2 ** 63 - 1, -(2 ** 63) + 1, rng.below(10 ** 9)])
            elif name == 'version':
                v = rng.choice([1, 2 ** 31 - 1, rng.below(1000)])
            elif name == 'deleted':
                v = 1
            else:
                v = rng.choice([1, 2 ** 32 - 1, rng.below(10 ** 6)])
            f[name] = v
            ops.append('set %s %d' % (name, v))
    loc = [UNDEF, UNDEF]
    if kind == 'node' and rng.chance(1, 2):
        loc = [rng.below(2 ** 31), -rng.below(2 ** 31)]
        ops.append('set loc %d %d' % tuple(loc))
    if rng.chance(1, 8):
        rm = 1
        ops.append('set removed 1')
    if user is not None:
        ops.append('user ' + hx(user))
    if rng.chance(2, 3):
        o, t = gen_taglist(rng, long=rng.chance(1, 6))
        ops += o
        subs.append(t)
    if kind == 'way' and rng.chance(3, 4):
        o, t = gen_nodelist(rng, 'wnl', 'W')
        ops += o
        subs.append(t)
    if kind == 'area':
        for _ in range(rng.below(3)):
            o, t = gen_nodelist(rng, 'outer', 'O')
            ops += o
            subs.append(t)
            for _ in range(rng.below(2)):
                o, t = gen_nodelist(rng, 'inner', 'I')
                ops += o
                subs.append(t)
    if kind == 'relation' and rng.chance(3, 4):
        ops.append('rml')
        parts = []
        for _ in range(rng.below(4)):
            ty, ref = rng.choice([1, 2, 3]), rng.choice([1, -7, 2 ** 50, rng.below(1000)])
            role = rstr(rng, rng.choice(STR_LENS))
            if rng.chance(1, 3):
                k = rng.below(2)
                ops.append('memberf %d %d %s %d' % (ty, ref, hx(role), k))
                parts.append('%d:%d:%s:%s' % (ty, ref, hx(role), AUX_TREES[k]))
            else:
                ops.append('member %d %d %s' % (ty, ref, hx(role)))
                parts.append('%d:%d:%s:-' % (ty, ref, hx(role)))
        ops.append('end')
        subs.append('M{0}(%s)' % ','.join(parts))
    ops.append('end')
    letter = kind[0]
    pre = '%s{%d,%d,%d,%d,%d,%d,' % (letter, f['id'], f['version'], f['deleted'], f['ts'], f['uid'], f['cs'])
    if kind == 'node':
        pre += '%d,%d,' % tuple(loc)
    pre += hx(user or b'') + ','
    t = T(pre, '}[%s]' % ' '.join(subs))
    t.rm = rm
    return ops, t


def gen_attr(rng, f4=True):
    kind = rng.choice(['attr_node', 'attr_way', 'attr_relation'] + (['attr_changeset'] if f4 else []))
    user = rstr(rng, rng.choice([0, 3, 5, 6, 20]), alphabet=b'abcxyz')
    if kind == 'attr_node':
        i, v = rng.below(10 ** 6), rng.below(100)
        tags = [(rstr(rng, 1 + rng.below(5), b'abc'), rstr(rng, rng.below(9), b'abc')) for _ in range(rng.below(3))]
        op = 'attr_node %d %d %s %d' % (i, v, hx(user), len(tags)) + ''.join(' %s %s' % (hx(k), hx(x)) for k, x in tags)
        t = T('n{%d,%d,0,0,0,0,%d,%d,%s,' % (i, v, UNDEF, UNDEF, hx(user)),
              '}[T{0}(%s)]' % ','.join('%s=%s' % (hx(k), hx(x)) for k, x in tags))
    elif kind == 'attr_way':
        i = rng.below(10 ** 6)
        refs = [rng.below(1000) for _ in range(rng.below(4))]
        op = 'attr_way %d %s %d' % (i, hx(user), len(refs)) + ''.join(' %d' % r for r in refs)
        t = T('w{%d,0,0,0,0,0,%s,' % (i, hx(user)), '}[W{0}(%s)]' % ','.join('%d:%d:%d' % (r, UNDEF, UNDEF) for r in refs))
    elif kind == 'attr_relation':
        i = rng.below(10 ** 6)
        ms = [(rng.choice([1, 2, 3]), rng.below(1000), rstr(rng, rng.below(9), b'abc')) for _ in range(rng.below(3))]
        op = 'attr_relation %d %s %d' % (i, hx(user), len(ms)) + ''.join(' %d %d %s' % (a, b, hx(c)) for a, b, c in ms)
        t = T('r{%d,0,0,0,0,0,%s,' % (i, hx(user)), '}[M{0}(%s)]' % ','.join('%d:%d:%s:-' % (a, b, hx(c)) for a, b, c in ms))
    else:
        i = rng.below(10 ** 6)
        cs = [(rng.below(1000), rng.below(1000), rstr(rng, rng.choice([0, 3, 40]), b'abc'), rstr(rng, rng.below(12), b'abc'))
              for _ in range(rng.below(3))]
        op = 'attr_changeset %d %s %d' % (i, hx(user), len(cs)) + ''.join(' %d %d %s %s' % (a, b, hx(c), hx(d)) for a, b, c, d in cs)
        t = T('c{%d,0,0,0,0,0,%d,%d,%d,%d,%s,' % (i, UNDEF, UNDEF, UNDEF, UNDEF, hx(user)),
              '}[D{0}(%s)]' % ','.join('%d:%d:%s:%s' % (a, b, hx(c), hx(d)) for a, b, c, d in cs))
    return [op], t


class Script:
    """ops + the expected committed view after every op (Python statement of the property)"""

    def __init__(self, name, grow_only):
        self.name = name
        self.grow_only = grow_only      # only builders/commit/rollback/add_buffer/push_back: comparable in mode internal
        self.ops = list(AUX_PRELUDE)
        self.committed = []
        self.pending = []
        self.expect = [None] * len(self.ops)      # expected dump tree after op i (None = not a dump)
        self.view_before = [''] * len(self.ops)    # committed view before op i
        self.has_comment = False
        self.artificial = False                    # nested list builders: hexdump only

    def view(self):
        return ' '.join(str(t) for t in self.committed) or '-'

    def add(self, op, expect=None):
        self.view_before.append(self.view())
        self.ops.append(op)
        self.expect.append(expect)

    def build(self, ops, tree):
        for o in ops:
            self.add(o)
            if o.startswith('comment') or (o.startswith('attr_changeset') and not o.endswith(' 0')):
                self.has_comment = True
        self.pending.append(tree)

    def dump(self):
        self.add('dump', self.view())

    def commit(self):
        self.add('commit')
        self.committed += self.pending
        self.pending = []
        self.dump()

    def attr(self, ops, tree):
        self.has_comment = self.has_comment or (ops[0].startswith('attr_changeset') and not ops[0].endswith(' 0'))
        self.add(ops[0])
        self.committed += self.pending + [tree]
        self.pending = []
        self.dump()

    def rollback(self):
        self.add('rollback')
        self.pending = []
        self.dump()

    def clear(self):
        self.add('clear')
        self.pending, self.committed = [], []
        self.dump()

    def add_buffer(self):
        self.add('add_buffer')
        self.pending += [T(*_split(t), entity=e) for t, e in zip(AUX_TREES, AUX_ENTITY)]

    def push_back(self, k):
        self.add('push_back %d' % k)
        self.committed += self.pending + [T(*_split(AUX_TREES[k]), entity=AUX_ENTITY[k])]
        self.pending = []
        self.dump()

    def setrm(self, k, v):
        self.add('setrm %d %d' % (k, v))
        self.committed[k].rm = v
        self.dump()

    def purge(self, cb=True):
        assert all(t.entity for t in self.committed)
        self.dump()          # the oracle needs the bytes before
        self.add('purge' if cb else 'purge0')
        if self.committed:
            self.committed = [t for t in self.committed if not t.rm]
            self.pending = []
        self.dump()


def _split(s):
    """'n{...,0}[...]' -> (prefix up to the removed flag, suffix)"""
    i = s.index('}')
    return s[:i - 1], s[i:]


def fixed_scripts():
    """hand-written scripts: one per builder / buffer mechanism"""
    out = []

    def mk(name, grow_only, fn):
        s = Script(name, grow_only)
        fn(s)
        out.append(s)

    def node_tags(s):
        s.build(['node', 'set id 17', 'set version 3', 'set loc 5 -6', 'user 616263', 'taglist', 'tag 6b 76', 'tags 6b6579 76616c7565', 'end', 'end'],
                T('n{17,3,0,0,0,0,5,-6,616263,', '}[T{0}(6b=76,6b6579=76616c7565)]'))
        s.commit()
    mk('node-tags', True, node_tags)

    def users(s):
        for n in [0, 5, 6, 13, 14, 15, 64]:
            u = bytes(97 + (i % 26) for i in range(n))
            s.build(['way', 'set id %d' % n, 'user ' + hx(u), 'end'], T('w{%d,0,0,0,0,0,%s,' % (n, hx(u)), '}[]'))
            s.commit()
        for n in [0, 7, 8, 15, 16, 33]:
            u = bytes(97 + (i % 26) for i in range(n))
            s.build(['changeset', 'set id %d' % n, 'user ' + hx(u), 'end'],
                    T('c{%d,0,0,0,0,0,%d,%d,%d,%d,%s,' % (n, UNDEF, UNDEF, UNDEF, UNDEF, hx(u)), '}[]'))
            s.commit()
    mk('set-user-lengths', True, users)

    def way_nodes(s):
        s.build(['way', 'set id -9', 'set deleted 1', 'user 7a', 'taglist', 'tag 68 77', 'end', 'wnl', 'nr 1 10 20', 'nr -2 30 40', 'nr 3 %d %d' % (UNDEF, UNDEF), 'end', 'end'],
                T('w{-9,0,1,0,0,0,7a,', '}[T{0}(68=77) W{0}(1:10:20,-2:30:40,3:%d:%d)]' % (UNDEF, UNDEF)))
        s.commit()
    mk('way-nodes', True, way_nodes)

    def relation_members(s):
        s.build(['relation', 'set id 5', 'rml', 'member 1 11 -', 'member 2 -22 6f75746572', 'memberf 1 101 66756c6c 0', 'member 3 33 61626364656667', 'memberf 2 102 - 1', 'end', 'taglist', 'tag 74 6d', 'end', 'end'],
                T('r{5,0,0,0,0,0,-,', '}[M{0}(1:11:-:-,2:-22:6f75746572:-,1:101:66756c6c:%s,3:33:61626364656667:-,2:102:-:%s) T{0}(74=6d)]' % (AUX_TREES[0], AUX_TREES[1])))
        s.commit()
    mk('relation-members', True, relation_members)

    def area_rings(s):
        s.build(['area', 'set id 8', 'user 6162636465', 'outer', 'nr 1 0 0', 'nr 2 0 1', 'nr 1 0 0', 'end', 'inner', 'nr 5 1 1', 'end', 'outer', 'end', 'end'],
                T('a{8,0,0,0,0,0,6162636465,', '}[O{0}(1:0:0,2:0:1,1:0:0) I{0}(5:1:1) O{0}()]'))
        s.commit()
    mk('area-rings', True, area_rings)

    def discussion(s):
        # F4 witness family: a comment whose user name forces a reallocation between add_comment and add_comment_text
        u = b'u' * 200
        s.build(['changeset', 'set id 3', 'user 626f62', 'disc', 'comment 7 8 ' + hx(u), 'ctext 68656c6c6f', 'comment 9 10 -', 'ctext -', 'end', 'end'],
                T('c{3,0,0,0,0,0,%d,%d,%d,%d,626f62,' % (UNDEF, UNDEF, UNDEF, UNDEF), '}[D{0}(7:8:%s:68656c6c6f,9:10:-:-)]' % hx(u)))
        s.commit()
    mk('discussion', True, discussion)

    def small_discussion(s):
        s.build(['changeset', 'disc', 'comment 1 2 6162', 'ctext 63', 'end', 'end'],
                T('c{0,0,0,0,0,0,%d,%d,%d,%d,-,' % (UNDEF, UNDEF, UNDEF, UNDEF), '}[D{0}(1:2:6162:63)]'))
        s.commit()
        s.build(['changeset', 'set id 1', 'end'], T('c{1,0,0,0,0,0,%d,%d,%d,%d,-,' % (UNDEF, UNDEF, UNDEF, UNDEF), '}[]'))
        s.commit()
    mk('small-discussion', True, small_discussion)

    def standalone_lists(s):
        s.build(['taglist', 'tag 61 62', 'end'], T('T{', '}(61=62)', entity=False))
        s.build(['wnl', 'nr 4 5 6', 'end'], T('W{', '}(4:5:6)', entity=False))
        s.commit()
        s.build(['rml', 'member 1 2 726f6c65', 'end'], T('M{', '}(1:2:726f6c65:-)', entity=False))
        s.build(['disc', 'end'], T('D{', '}()', entity=False))
        s.commit()
    mk('standalone-lists', True, standalone_lists)

    def rollback(s):
        s.build(['node', 'set id 1', 'end'], T('n{1,0,0,0,0,0,%d,%d,-,' % (UNDEF, UNDEF), '}[]'))
        s.commit()
        s.build(['way', 'set id 2', 'user ' + hx(b'x' * 40), 'taglist', 'tag 61 62', 'end', 'end'], T('w{2,0,0,0,0,0,%s,' % hx(b'x' * 40), '}[T{0}(61=62)]'))
        s.rollback()
        s.build(['relation', 'set id 3', 'rml', 'member 1 1 72', 'end', 'end'], T('r{3,0,0,0,0,0,-,', '}[M{0}(1:1:72:-)]'))
        s.commit()
        s.rollback()
    mk('rollback', True, rollback)

    def copy_ops(s):
        s.build(['node', 'set id 1', 'end'], T('n{1,0,0,0,0,0,%d,%d,-,' % (UNDEF, UNDEF), '}[]'))
        s.add_buffer()
        s.commit()
        s.push_back(1)
        s.build(['node', 'set id 2', 'end'], T('n{2,0,0,0,0,0,%d,%d,-,' % (UNDEF, UNDEF), '}[]'))
        s.push_back(0)
        s.add_buffer()
        s.rollback()
    mk('add-buffer-push-back', True, copy_ops)

    def purge(s):
        for i in range(6):
            s.build(['node', 'set id %d' % i, 'user ' + hx(b'u' * i), 'end'], T('n{%d,0,0,0,0,0,%d,%d,%s,' % (i, UNDEF, UNDEF, hx(b'u' * i)), '}[]'))
            s.commit()
        s.purge()                 # nothing removed: no callbacks
        s.setrm(0, 1)
        s.setrm(3, 1)
        s.setrm(4, 1)
        s.setrm(4, 0)
        s.build(['way', 'set id 77', 'end'], T('w{77,0,0,0,0,0,-,', '}[]'))   # uncommitted: purge drops it
        s.purge()
        s.setrm(0, 1)
        s.purge(cb=False)
        s.setrm(0, 1), s.setrm(1, 1), s.setrm(2, 1)
        s.purge()
        s.purge()                 # empty buffer: early return
    mk('purge', False, purge)

    def clear_swap_move(s):
        s.build(['node', 'set id 1', 'end'], T('n{1,0,0,0,0,0,%d,%d,-,' % (UNDEF, UNDEF), '}[]'))
        s.commit()
        s.add('move')
        s.dump()
        s.clear()
        s.build(['way', 'set id 2', 'end'], T('w{2,0,0,0,0,0,-,', '}[]'))
        s.commit()
        # swap: buf0 <-> aux
        keep = list(s.committed)
        s.committed = [T(*_split(t), entity=e) for t, e in zip(AUX_TREES, AUX_ENTITY)]
        s.add('swap')
        s.dump()
        s.committed = keep
        s.add('swap')
        s.dump()
    mk('clear-swap-move', False, clear_swap_move)

    def attr(s):
        s.attr(['attr_node 5 2 616263646566 2 6b 76 6b32 7632'], T('n{5,2,0,0,0,0,%d,%d,616263646566,' % (UNDEF, UNDEF), '}[T{0}(6b=76,6b32=7632)]'))
        s.attr(['attr_way 6 - 3 10 11 12'], T('w{6,0,0,0,0,0,-,', '}[W{0}(10:%d:%d,11:%d:%d,12:%d:%d)]' % ((UNDEF,) * 6)))
        s.attr(['attr_relation 7 61 2 1 5 72 2 6 -'], T('r{7,0,0,0,0,0,61,', '}[M{0}(1:5:72:-,2:6:-:-)]'))
        s.attr(['attr_changeset 8 6162 0'], T('c{8,0,0,0,0,0,%d,%d,%d,%d,6162,' % ((UNDEF,) * 4), '}[D{0}()]'))
    mk('attr-helpers', True, attr)

    def attr_comments(s):
        u = b'n' * 90
        s.attr(['attr_changeset 8 6162 2 1 2 %s 7478 3 4 61 -' % hx(u)], T('c{8,0,0,0,0,0,%d,%d,%d,%d,6162,' % ((UNDEF,) * 4), '}[D{0}(1:2:%s:7478,3:4:61:-)]' % hx(u)))
    mk('attr-changeset-comments', True, attr_comments)

    def grandparent(s):
        # artificial three-level nesting (legal API use: any Builder can be a parent): sizes must reach
        # every ancestor.  The content is not a sensible OSM object, so only the bytes are compared.
        s.artificial = True
        for o in ['relation', 'set id 1', 'rml', 'taglist', 'tag 6162 63', 'end', 'end', 'taglist', 'tag 64 65', 'end', 'end', 'commit', 'hexdump',
                  'way', 'wnl', 'nr 1 2 3', 'taglist', 'tag 61 -', 'end', 'nr 4 5 6', 'end', 'end', 'commit', 'hexdump']:
            s.add(o)
    mk('grandparent-sizes', True, grandparent)
    return out


def sized_entity(rng, i, size_class):
    """an entity whose size is controlled: 0 = smallest node (48 bytes), 1 = medium, 2 = large"""
    if size_class == 0:
        kind = rng.choice(['node', 'way', 'relation'])
        ops = [kind, 'set id %d' % i, 'end']
        pre = '%s{%d,0,0,0,0,0,' % (kind[0], i) + ('%d,%d,' % (UNDEF, UNDEF) if kind == 'node' else '') + '-,'
        return ops, T(pre, '}[]')
    ulen = rng.choice([6, 13, 14, 30]) if size_class == 1 else rng.choice([60, 100, 200])
    user = rstr(rng, ulen)
    kind = rng.choice(['node', 'way', 'relation'])
    ops = [kind, 'set id %d' % i, 'user ' + hx(user)]
    subs = []
    if size_class == 2 or rng.chance(1, 2):
        o, t = gen_taglist(rng, ntags=1 + rng.below(3), long=(size_class == 2))
        ops += o
        subs.append(t)
    if kind == 'way' and rng.chance(1, 2):
        o, t = gen_nodelist(rng, 'wnl', 'W')
        ops += o
        subs.append(t)
    ops.append('end')
    pre = '%s{%d,0,0,0,0,0,' % (kind[0], i) + ('%d,%d,' % (UNDEF, UNDEF) if kind == 'node' else '') + hx(user) + ','
    return ops, T(pre, '}[%s]' % ' '.join(subs))


def purge_pattern_scripts(rng):
    """purge_removed with MIXED item sizes: removed small items directly before larger survivors (the
    memmove source and destination overlap), runs of removed items of varying total size before
    survivors of varying size; both overloads."""
    out = []
    patterns = [
        # (size class, removed) per item
        ('small-removed-then-large', [(0, 1), (2, 0), (0, 0)]),
        ('two-small-removed-then-large-then-medium', [(0, 1), (0, 1), (2, 0), (1, 0), (0, 1), (2, 0)]),
        ('medium-removed-then-large', [(1, 1), (2, 0), (2, 0), (0, 1), (1, 0)]),
        ('large-removed-then-small', [(2, 1), (0, 0), (1, 0), (0, 0)]),
        ('kept-small-removed-small-large-large', [(0, 0), (0, 1), (2, 0), (2, 0)]),
        ('alternating', [(0, 1), (1, 0), (0, 1), (2, 0), (1, 1), (2, 0), (0, 1)]),
        ('all-removed-but-last-large', [(0, 1), (1, 1), (0, 1), (2, 0)]),
        ('trailing-removed', [(2, 0), (0, 1), (1, 1)]),
    ]
    for name, pat in patterns:
        for cb in (True, False):
            s = Script('purge-%s-%s' % (name, 'cb' if cb else 'nocb'), False)
            for i, (cls, _) in enumerate(pat):
                s.build(*sized_entity(rng, i + 1, cls))
            s.commit()
            for i, (_, rm) in enumerate(pat):
                if rm:
                    s.setrm(i, 1)
            s.purge(cb=cb)
            # second round on the compacted buffer with the other overload
            if len(s.committed) >= 2:
                s.build(*sized_entity(rng, 90, 2))
                s.commit()
                s.setrm(0, 1)
                s.purge(cb=not cb)
            out.append(s)
    return out


def random_purge_script(rng, idx):
    s = Script('prnd%d' % idx, False)
    n = 3 + rng.below(5)
    for i in range(n):
        s.build(*sized_entity(rng, i + 1, rng.choice([0, 0, 1, 2, 2])))
        if rng.chance(1, 2):
            s.commit()
    if s.pending:
        s.commit()
    for rnd in range(1 + rng.below(2)):
        if not s.committed:
            break
        m = len(s.committed)
        mode = rng.below(3)
        if mode == 0:
            k = 1 + rng.below(max(1, m - 1))
            rm = [i < k for i in range(m)]                       # a run of removed items, then survivors
        elif mode == 1:
            rm = [rng.chance(1, 2) for _ in range(m)]
        else:
            rm = [i % 2 == 0 for i in range(m)]
        for i, r in enumerate(rm):
            if r:
                s.setrm(i, 1)
        s.purge(cb=rng.chance(1, 2))
        for i in range(rng.below(3)):
            s.build(*sized_entity(rng, 50 + 10 * rnd + i, rng.choice([0, 1, 2])))
            s.commit()
    return s


def random_script(rng, idx, f4):
    grow_only = rng.chance(1, 2)
    s = Script('rnd%d' % idx, grow_only)
    n = 2 + rng.below(4)
    for _ in range(n):
        c = rng.below(10)
        if c < 6:
            s.build(*gen_object(rng, f4=f4))
            r = rng.below(8)
            if r == 0:
                s.rollback()
            elif r == 1:
                pass                      # stays pending: next commit takes both
            else:
                s.commit()
        elif c == 6:
            s.attr(*gen_attr(rng, f4=f4))
        elif c == 7:
            s.add_buffer()
            if rng.chance(1, 2):
                s.commit()
        elif c == 8:
            s.push_back(rng.below(3))
        elif not grow_only:
            if s.committed and rng.chance(2, 3):
                for _ in range(1 + rng.below(3)):
                    s.setrm(rng.below(len(s.committed)), rng.below(2) if rng.chance(1, 4) else 1)
                if all(t.entity for t in s.committed):
                    s.purge(cb=rng.chance(3, 4))
            elif rng.chance(1, 2):
                s.clear()
            else:
                s.add('move')
    if s.pending and rng.chance(1, 2):
        s.commit()
    return s


# ------------------------------------------------------------------------------------------
# independent purge oracle on the bytes
# ------------------------------------------------------------------------------------------
def purge_oracle(hexs):
    b = bytes.fromhex(hexs) if hexs != '-' else b''
    items, pos = [], 0
    while pos < len(b):
        size = int.from_bytes(b[pos:pos + 4], 'little')
        ps = (size + 7) // 8 * 8
        items.append((pos, ps, b[pos + 6] & 1))
        pos += ps
    out, cbs, w = b'', [], 0
    for off, ps, rm in items:
        if not rm:
            if off != w:
                cbs.append('%d>%d' % (off, w))
            out += b[off:off + ps]
            w += ps
    return (','.join(cbs) or '-'), (out.hex() or '-')


# ------------------------------------------------------------------------------------------
def run_chunks(cmd, chunks, env=None):
    """run every chunk (text) through cmd in parallel; returns list of (rc, lines, stderr)"""
    import vlib

    import subprocess

    def one(text):
        try:
            rc, so, se = vlib.sh(cmd, input=text, env=env, timeout=CHUNK_TIMEOUT)
        except subprocess.TimeoutExpired as e:
            # watchdog: a hang (e.g. an item of size 0 is iterated forever) counts like a crash of that run
            so = e.stdout or ''
            if isinstance(so, bytes):
                so = so.decode('utf-8', 'replace')
            rc, se = -999, 'timeout after %d s (hang)' % CHUNK_TIMEOUT
        lines = so.split('\n')
        if lines and lines[-1] == '':
            lines.pop()
        return rc, lines, se
    with concurrent.futures.ThreadPoolExecutor(max_workers=min(12, os.cpu_count() or 4)) as ex:
        return list(ex.map(one, chunks))


def _alone(cmd, text, env):
    import subprocess
    import vlib
    try:
        rc, so, se = vlib.sh(cmd, input=text, env=env, timeout=120)
    except subprocess.TimeoutExpired as e:
        so = e.stdout or ''
        if isinstance(so, bytes):
            so = so.decode('utf-8', 'replace')
        rc, se = -999, 'timeout (hang)'
    lines = so.split('\n')
    if lines and lines[-1] == '':
        lines.pop()
    return rc, lines, se



# ------------------------------------------------------------------------------------------
# corpus scripts (corpus/C04/*.ops) and the pending-comment analysis
# ------------------------------------------------------------------------------------------
class CorpusScript(Script):
    """ops from a file; `dump => <tree>` lines carry the expected committed view"""

    def __init__(self, name, grow_only):
        Script.__init__(self, name, grow_only)
        self.cur_view = '-'

    def view(self):
        return self.cur_view


def load_corpus(corpus_dir):
    """corpus/C04/*.ops: `# name: x` starts a script (`# grow_only: 0|1` optional, default 1); every other
    line is one op of harness/c04.cpp; `dump => <tree>` = dump with the expected view."""
    out = []
    if not os.path.isdir(corpus_dir):
        return out
    for fn in sorted(os.listdir(corpus_dir)):
        if not fn.endswith('.ops'):
            continue
        cur = None
        with open(os.path.join(corpus_dir, fn)) as f:
            for line in f:
                line = line.strip()
                if not line:
                    continue
                m = re.match(r'#\s*name:\s*(\S+)', line)
                if m:
                    cur = CorpusScript('corpus-' + m.group(1), True)
                    out.append(cur)
                    continue
                m = re.match(r'#\s*grow_only:\s*([01])', line)
                if m and cur is not None:
                    cur.grow_only = m.group(1) == '1'
                    continue
                if line.startswith('#') or cur is None:
                    continue
                if line.startswith('dump =>'):
                    cur.cur_view = line[len('dump =>'):].strip()
                    cur.add('dump', cur.cur_view)
                else:
                    if line.startswith('comment'):
                        cur.has_comment = True
                    cur.add(line)
    return out


OPENERS = ('node', 'way', 'relation', 'area', 'changeset', 'taglist', 'wnl', 'outer', 'inner', 'rml', 'disc')


def pending_close_ops(ops):
    """indexes of the `end` ops that destroy a discussion builder with a pending comment (add_comment()
    without add_comment_text()): the destructor finishes the comment inside try/catch(...) — in mode
    `no` a buffer_is_full of that repair is swallowed, the op answers ok"""
    out, stack = set(), []
    for i, o in enumerate(ops):
        w = o.split(' ')[0]
        if w in OPENERS:
            stack.append([w, False])
        elif w == 'comment' and stack and stack[-1][0] == 'disc':
            stack[-1][1] = True
        elif w == 'ctext' and stack and stack[-1][0] == 'disc':
            stack[-1][1] = False
        elif w == 'end' and stack:
            k, pend = stack.pop()
            if k == 'disc' and pend:
                out.add(i)
    return out


def _u(raw, off, n):
    return int.from_bytes(raw[off:off + n], 'little')


def discussions_wellformed(raw):
    """independent byte-level walk: every changeset_discussion item (top level or inside a changeset) must
    be a sequence of comments {date, uid, text_size, user_size, user\\0, text\\0, padding} that ends exactly at
    the item's end, every comment with user_size >= 1 and text_size >= 1 and NUL-terminated strings.
    Returns (number of comments seen, None) or (n, reason)."""
    ncomments = [0]

    def disc(off, size):
        pos, end = off + 8, off + size
        while pos != end:
            if pos + 16 > end:
                return 'comment header at %d crosses the end %d of the discussion' % (pos, end)
            ts, us = _u(raw, pos + 8, 4), _u(raw, pos + 12, 2)
            nxt = pos + (16 + us + ts + 7) // 8 * 8
            if us < 1 or ts < 1:
                return 'comment at %d has user_size %d / text_size %d (unfinished)' % (pos, us, ts)
            if nxt > end:
                return 'comment at %d (user_size %d, text_size %d) ends at %d beyond the discussion end %d (unpadded / unfinished)' % (pos, us, ts, nxt, end)
            if raw[pos + 16 + us - 1] != 0 or raw[pos + 16 + us + ts - 1] != 0:
                return 'comment at %d: user/text not NUL-terminated inside the comment' % pos
            ncomments[0] += 1
            pos = nxt
        return None

    pos = 0
    while pos + 8 <= len(raw):
        size, ty = _u(raw, pos, 4), _u(raw, pos + 4, 2)
        if size < 8 or pos + size > len(raw):
            return ncomments[0], 'top-level item at %d has size %d' % (pos, size)
        if ty == 0x80:
            why = disc(pos, size)
            if why:
                return ncomments[0], why
        elif ty == 5:
            sub = pos + (56 + _u(raw, pos + 48, 2) + 7) // 8 * 8
            end = pos + size
            while sub < end:
                ssize, sty = _u(raw, sub, 4), _u(raw, sub + 4, 2)
                if ssize < 8 or sub + ssize > end:
                    return ncomments[0], 'sub-item at %d has size %d' % (sub, ssize)
                if sty == 0x80:
                    why = disc(sub, ssize)
                    if why:
                        return ncomments[0], why
                sub += (ssize + 7) // 8 * 8
            if sub != end and (end + 7) // 8 * 8 != sub:
                return ncomments[0], 'sub-item walk of the changeset at %d ends at %d, not at %d' % (pos, sub, end)
        pos += (size + 7) // 8 * 8
    if pos != len(raw):
        return ncomments[0], 'top-level walk ends at %d of %d' % (pos, len(raw))
    return ncomments[0], None


PENDING_KEY = 'discussion-pending-comment-unfinished'
PENDING_PROBES = [
    # (name, ops, number of comments expected)
    ('changeset-one-pending', ['changeset', 'disc', 'comment 1 2 6162', 'end', 'end', 'commit', 'hexdump'], 1),
    ('standalone-empty-user', ['disc', 'comment 5 6 -', 'end', 'commit', 'hexdump'], 1),
    ('second-comment-pending', ['changeset', 'user 78', 'disc', 'comment 1 2 61', 'ctext 62', 'comment 3 4 636465666768',
                                'end', 'end', 'commit', 'hexdump'], 2),
    ('pending-user-7-aligned', ['changeset', 'disc', 'comment 1 2 61626364656667', 'end', 'end', 'commit', 'hexdump'], 1),
]


def pending_comment_probe(ctx, hcmd):
    """regression probe for 5690f83 (builder part): a ChangesetDiscussionBuilder destroyed with a pending comment
    must leave a well-formed discussion (comment finished with an empty text and padded).  Evaluated on the
    implementation alone, on the committed BYTES (hexdump: no library iterator involved)."""
    for name, ops, ncom in PENDING_PROBES:
        text = 'init 4096 yes 64 yes %d 1\n' % FILL + '\n'.join(ops) + '\n'
        rc, lines, se = ctx.run_lines(hcmd, text, env=ASAN_ENV)
        ctx.count('probe:pending-comment')
        why = None
        if rc != 0 or len(lines) != len(ops) + 1:
            m = re.search(r'ERROR: AddressSanitizer: (\S+)|Assertion[^\n]*', se)
            why = 'harness stopped after %d of %d ops (rc=%d %s)' % (len(lines), len(ops) + 1, rc, m.group(0) if m else '')
        elif any(split(l)[0] != 'ok' for l in lines):
            why = 'an op did not answer ok: %s' % [l[:60] for l in lines if split(l)[0] != 'ok'][:2]
        else:
            hexs = split(lines[-1])[2]
            raw = bytes.fromhex(hexs) if hexs != '-' else b''
            n, why = discussions_wellformed(raw)
            if why is None and n != ncom:
                why = '%d comments found in the committed bytes, %d were added' % (n, ncom)
        if why:
            ctx.violation(PENDING_KEY, 'a discussion builder destroyed with a pending comment (add_comment() without add_comment_text()) '
                          'leaves a malformed discussion: probe %s: %s' % (name, why),
                          {'kind': 'counterexample', 'ops': text.strip().split('\n'), 'impl': lines[-2:], 'stderr': se[-1500:],
                           'replay': 'ASAN_OPTIONS=%s .build/c04-* < ops' % ASAN_ENV['ASAN_OPTIONS']})
            return False
    return True


class Run:
    def __init__(self, script, cap, mode, ops, cut=None, swallow=None):
        self.script, self.cap, self.mode, self.ops, self.cut = script, cap, mode, ops, cut
        self.swallow = swallow      # index of an `end` whose destructor swallows buffer_is_full (answers ok)
        self.impl = None
        self.model = None
        self.crash = None

    def text(self, fix):
        return '\n'.join(['init %d %s %d yes %d %d' % (self.cap, self.mode, AUX, FILL, fix)] + self.ops) + '\n'

    def ident(self):
        return '%s cap=%d mode=%s' % (self.script.name, self.cap, self.mode)


def exec_runs(cmd, runs, fix, env, attr, nchunks=12):
    """feed the runs to cmd, split the output back per run; a crash (ASan) loses the rest of the
    process: the crashing run is marked and the remaining runs of that chunk are re-run"""
    pending = [runs[i::nchunks] for i in range(nchunks)]
    pending = [p for p in pending if p]
    guard = 0
    while pending and guard < 2000:
        guard += 1
        res = run_chunks(cmd, [''.join(r.text(fix) for r in chunk) for chunk in pending], env)
        nxt = []
        for chunk, (rc, lines, se) in zip(pending, res):
            pos = 0
            for j, r in enumerate(chunk):
                n = len(r.ops) + 1
                got = lines[pos:pos + n]
                pos += n
                if len(got) == n:
                    setattr(r, attr, got)
                    continue
                # this run did not complete: confirm by running it alone (a transient failure of a
                # long-lived process on a loaded machine must not look like a failing input)
                rc1, so1, se1 = _alone(cmd, r.text(fix), env)
                if rc1 == 0 and len(so1) == n:
                    setattr(r, attr, so1)
                    if chunk[j + 1:]:
                        nxt.append(chunk[j + 1:])
                    break
                setattr(r, attr, so1)
                r.crash = (rc1, se1[-3000:])
                if chunk[j + 1:]:
                    nxt.append(chunk[j + 1:])
                break
        pending = nxt
        if sum(1 for r in runs if r.crash) >= MAX_CRASHES:
            # enough failing inputs: do not spend a watchdog period on every remaining run
            break


def split(line):
    """'status cap w c n | payload' -> (status, [cap,w,c,n], payload)"""
    head, _, payload = line.partition(' | ')
    ws = head.split(' ')
    return ws[0], ws[1:], payload


def run(ctx):
    import vlib
    rng = ctx.rng
    quick = ctx.tier == 'quick'
    ctx.rule = ('one case = one (script, initial capacity, grow mode) run; capacities = every multiple of 8 from 64 to '
                'max written + 64 of the script; scripts: hand-written per mechanism + random; distinct = distinct '
                '(script text, capacity, mode); all are non-trivial (each forces a different growth point or none)')
    ctx.assumptions += ['only internally managed buffers (Buffer(capacity, auto_grow)); external-memory buffers are not modelled',
                        'strings passed to the builders contain no NUL; user names < 65535 bytes; item sizes < 2^32',
                        'object builders are opened without a parent; set_user at most once and before sub-builders',
                        'purge_removed only on buffers whose top-level items are all OSM entities (DESIGN.md O1)',
                        'all strings passed to the builders are <= max_osm_string_length (1024) bytes: longer user names / keys / values / roles make set_user/add_user/add_tag/add_role throw std::length_error (bc6b907 for set_user/add_user); the generators stay <= 200 bytes and the model has no length_error outcome',
                        'a ChangesetDiscussionBuilder destroyed with a pending comment (the caller broke the add_comment/add_comment_text protocol) is modelled and compared (5690f83: the destructor finishes the comment); in mode no, when that repair does not fit, the destructor swallows buffer_is_full and leaves text_size=1 without a text byte: compared with the model only (observation, outside the property: protocol violation by the caller)',
                        'dead memory [written, capacity) has the fill byte: ASan malloc_fill_byte + scrubbing by the harness']
    ctx.trusted += ['harness/c04.cpp (op interpreter on the real Buffer/builders, tree dump through the real accessors)',
                    'ASan/UBSan as the oracle for memory errors', 'hand transcription of buffer.hpp / builder.hpp / osm_object_builder.hpp into Model/Buf.lean, checked by the byte-exact correspondence']

    # ---- 1. proofs -----------------------------------------------------------------
    proof_ok = ctx.proof_stage(exes=['model_c04'])

    # ---- 2. harness ------------------------------------------------------------------
    hbin, err = vlib.build_cpp('c04', ['c04.cpp'], asan=True, ndebug=True)
    if hbin is None:
        ctx.violation('harness-build', 'harness does not compile against the current tree: ' + err[-600:],
                      {'kind': 'harness-build', 'stderr': err}, found_input=False)
        return
    hcmd = [hbin]
    mcmd = [ctx.model_exe('model_c04')]

    # ---- F4 witness: which behaviour does the current tree have? -----------------------------
    witness_ops = ['changeset', 'disc', 'comment 1 2 ' + hx(b'u' * 200), 'ctext 74657874', 'end', 'end', 'commit', 'dump']
    wtext = 'init 64 yes 64 yes %d 0\n' % FILL + '\n'.join(witness_ops) + '\n'
    rc, wl, wse = ctx.run_lines(hcmd, wtext, env=ASAN_ENV)
    want = 'c{0,0,0,0,0,0,%d,%d,%d,%d,-,0}[D{0}(1:2:%s:74657874)]' % (UNDEF, UNDEF, UNDEF, UNDEF, hx(b'u' * 200))
    f4_present = rc != 0 or len(wl) != len(witness_ops) + 1 or split(wl[-1])[2].split(' | ')[0] != want
    fix = 0 if f4_present else 1
    ctx.extra['f4_present'] = f4_present
    if f4_present:
        m = re.search(r'ERROR: AddressSanitizer: (\S+)', wse)
        ctx.violation(F4_KEY,
                      'ChangesetDiscussionBuilder keeps the raw pointer m_comment from add_comment() to add_comment_text(); '
                      'add_user() appends the user name in between and may reallocate the buffer: with capacity 64 and a 200-byte '
                      'comment user name add_comment_text() writes the text size through the dangling pointer (%s); the comment\'s '
                      'text size is lost' % (m.group(1) if m else 'tree differs / no ASan report: rc=%d' % rc),
                      {'kind': 'counterexample', 'ops': wtext.strip().split('\n'), 'impl_last_lines': wl[-2:], 'stderr': wse[-1500:],
                       'replay': 'ASAN_OPTIONS=%s <harness c04> < ops' % ASAN_ENV['ASAN_OPTIONS']})

    # ---- regression probe: pending comment at destruction (only meaningful for the offset-based builder) ----
    if fix:
        pending_comment_probe(ctx, hcmd)

    # ---- scripts ---------------------------------------------------------------------------
    scripts = fixed_scripts()
    nrand = 90 if quick else 1500
    for i in range(nrand):
        scripts.append(random_script(rng, i, f4=True))
    scripts += purge_pattern_scripts(rng)
    for i in range(12 if quick else 300):
        scripts.append(random_purge_script(rng, i))
    corpus_dir = os.path.join(vlib.ROOT, 'corpus', 'C04')
    corpus = load_corpus(corpus_dir) if fix else []
    scripts += corpus
    ctx.count('scripts:corpus', len(corpus))
    # reference runs at a huge capacity (implementation): sizes and final dumps
    def last_op(s):
        return 'hexdump' if s.artificial else 'dumpall'
    refs = [Run(s, HUGE, 'yes', s.ops + [last_op(s)]) for s in scripts]
    exec_runs(hcmd, refs, fix, ASAN_ENV, 'impl')
    runs = []
    for s, ref in zip(scripts, refs):
        if ref.impl is None:
            ctx.count('reference-runs:not-executed-after-crashes')
            continue
        if ref.crash or any(split(l)[0] != 'ok' for l in ref.impl):
            if ref.crash:
                m = re.search(r'ERROR: AddressSanitizer: (\S+)|runtime error: ([^\n]*)|HANG[^\n]*', ref.crash[1])
                why = 'crash rc=%s %s after %d of %d ops' % (ref.crash[0], m.group(0) if m else '', len(ref.impl or []), len(ref.ops) + 1)
            else:
                why = '; '.join(l[:80] for l in ref.impl if split(l)[0] != 'ok')[:300]
            ctx.violation('reference-run:' + s.name, 'script %s does not run cleanly at a huge capacity: %s' % (s.name, why),
                          {'kind': 'counterexample', 'ops': ref.text(fix).split('\n'), 'impl': ref.impl[-3:], 'stderr': (ref.crash or (0, ''))[1]})
            continue
        written = [int(split(l)[1][1]) for l in ref.impl[1:]]     # after each op (without init)
        s.ref_written = written
        s.ref_dumpall = split(ref.impl[-1])[2]
        pend_close = pending_close_ops(s.ops)
        total = max(written)
        caps = list(range(64, total + 64 + 1, 8))
        if not quick or len(caps) <= 70:
            pass
        else:
            # quick tier: random scripts bigger than 70 capacities keep every capacity up to 70 and a stride above
            if s.name.startswith('rnd'):
                caps = caps[:70] + caps[70::3]
        if quick and (s.name.startswith('purge-') or s.name.startswith('prnd')):
            # purge-focused scripts: what purge_removed does is independent of the initial capacity; the
            # growth points are covered by the other scripts, so a stride is enough here
            caps = caps[::4]
        for c in caps:
            for mode in ('yes', 'internal', 'no'):
                if mode == 'no':
                    # first op that does not fit (reference sizes): cut there, roll back, dump
                    # (ops executed while buf0 is the auxiliary buffer — between two `swap`s — do not count)
                    cut, swapped = None, False
                    for i, w in enumerate(written[:len(s.ops)]):
                        if s.ops[i] == 'swap':
                            swapped = not swapped
                        elif not swapped and w > c:
                            cut = i
                            break
                    if cut is not None and cut in pend_close:
                        # the repair of the pending comment does not fit: ~ChangesetDiscussionBuilder() swallows the
                        # buffer_is_full (try/catch), the op answers ok and other builders stay open: only the
                        # correspondence with the model and the buffer counters are checked for this run
                        runs.append(Run(s, c, mode, s.ops[:cut + 1] + ['hexdump'], swallow=cut))
                        continue
                    if cut is not None:
                        runs.append(Run(s, c, mode, s.ops[:cut + 1] + ['rollback', 'hexdump' if s.artificial else 'dump'], cut=cut))
                        continue
                runs.append(Run(s, c, mode, s.ops + [last_op(s)]))
    for r in runs:
        ctx.note_case(r.text(0))
    ctx.count('scripts', len(scripts))
    ctx.count('runs', len(runs))

    # ---- model first (never crashes) ----------------------------------------------------------
    if not ctx.exe_build_ok:
        if proof_ok:
            ctx.violation('model-driver-build', 'model driver does not build', {'kind': 'broken-correspondence'}, found_input=False)
        model_ok = False
    else:
        exec_runs(mcmd, runs, fix, None, 'model')
        model_ok = True
    ub_runs = [r for r in runs if model_ok and r.model is not None and any(l.startswith('stale_pointer') or l.startswith('null_deref') or l.startswith('misaligned') for l in r.model)]
    # a destructor that throws (= std::terminate): the model says this is unreachable (padding always fits because
    # capacities and item starts are multiples of 8); if it ever predicts one, the implementation must abort there
    ub_ids = set(id(r) for r in ub_runs)
    term_runs = [r for r in runs if model_ok and r.model is not None and id(r) not in ub_ids and any(l.startswith('terminate') for l in r.model)]
    ub_set = ub_ids | set(id(r) for r in term_runs)
    normal = [r for r in runs if id(r) not in ub_set]
    exec_runs(hcmd, normal, fix, ASAN_ENV, 'impl')
    ctx.count('runs:model-predicts-terminate', len(term_runs))
    if term_runs:
        exec_runs(hcmd, term_runs[:8], fix, ASAN_ENV, 'impl', nchunks=8)
        for r in term_runs[:8]:
            if r.impl is not None and not r.crash:
                ctx.violation('correspondence:terminate-not-observed', 'the model predicts a throwing destructor (std::terminate) in %s but the implementation runs on' % r.ident(),
                              {'kind': 'broken-correspondence', 'ops': r.text(fix).split('\n')}, found_input=False)
                break
    # runs for which the model predicts the stale pointer: confirm a sample on the implementation
    ub_sample = ub_runs[:(16 if quick else 200)]
    exec_runs(hcmd, ub_sample, fix, ASAN_ENV, 'impl', nchunks=16)
    ctx.count('runs:model-predicts-stale-pointer', len(ub_runs))

    # ---- monitors on the implementation ---------------------------------------------------------
    def replay(r):
        return {'kind': 'counterexample', 'script': r.script.name, 'capacity': r.cap, 'mode': r.mode,
                'ops': r.text(fix).strip().split('\n'),
                'replay': 'ASAN_OPTIONS=%s .build/c04-* < ops' % ASAN_ENV['ASAN_OPTIONS']}

    for r in normal:
        s = r.script
        if r.impl is None:
            ctx.count('runs:not-executed-after-crashes')
            continue
        ctx.count('mode:' + r.mode)
        if r.crash:
            rc, se = r.crash
            m = re.search(r'ERROR: AddressSanitizer: (\S+)|runtime error: ([^\n]*)', se)
            what = (m.group(1) or m.group(2)) if m else ('hang' if rc in (-999, 97) else 'exit %d' % rc)
            if s.has_comment and f4_present:
                ctx.violation(F4_KEY, 'sanitizer report in a discussion script', replay(r))
            else:
                rp = replay(r)
                rp['stderr'] = se
                ctx.violation('sanitizer:%s:%s' % (s.name, what), 'sanitizer report / crash (%s) in %s after op #%d `%s`'
                              % (what, r.ident(), len(r.impl), (['init'] + r.ops)[min(len(r.impl), len(r.ops))]), rp)
            continue
        lines = r.impl[1:]
        stats = [split(l) for l in lines]
        viol = None
        for i, (st, nums_, payload) in enumerate(stats):
            op = r.ops[i]
            ctx.count('op:' + op.split(' ')[0])
            if st == 'bad-op' and r.mode == 'internal' and not s.grow_only:
                continue          # e.g. setrm k: the k-th item has moved to a nested buffer
            if st not in ('ok', 'buffer_is_full'):
                viol = ('status:%s' % st, 'op #%d `%s` answered %s' % (i, op, st))
                break
            if st == 'buffer_is_full':
                ctx.count('branch:buffer_is_full')
                if not (r.mode == 'no' and r.cut == i):
                    viol = ('unexpected-full', 'buffer_is_full at op #%d `%s` although the op fits (reference written=%d, cap=%d)'
                            % (i, op, s.ref_written[i] if i < len(s.ref_written) else -1, r.cap))
                    break
                continue
            if r.swallow == i:
                ctx.count('branch:pending-comment-repair-swallowed-full')
                if int(nums_[1]) != r.cap:
                    viol = ('swallowed-full', 'op #%d `%s` (destructor repairing a pending comment) should not fit into capacity %d (reference written=%d) but written=%s' % (i, op, r.cap, s.ref_written[i], nums_[1]))
                    break
            if r.mode == 'no' and r.cut == i:
                viol = ('missing-full', 'op #%d `%s` does not fit into capacity %d (needs %d) but buffer_is_full was not thrown' % (i, op, r.cap, s.ref_written[i]))
                break
            cap_, wr_, co_ = int(nums_[0]), int(nums_[1]), int(nums_[2])
            if not (co_ <= wr_ <= cap_ and co_ % 8 == 0):
                viol = ('buf-inv', 'after op #%d `%s`: cap=%d written=%d committed=%d violates committed<=written<=cap, 8|committed' % (i, op, cap_, wr_, co_))
                break
            if op in ('dump', 'hexdump') and payload:
                # independent walk over the top-level item headers: must end exactly at `committed`
                hexs = payload.split(' | ')[-1]
                raw = bytes.fromhex(hexs) if hexs != '-' else b''
                pos = 0
                subwalk = None
                while pos + 8 <= len(raw):
                    size = int.from_bytes(raw[pos:pos + 4], 'little')
                    ty = int.from_bytes(raw[pos + 4:pos + 6], 'little')
                    if size < 8:
                        break
                    if 1 <= ty <= 5 and not s.artificial:
                        # an OSM object / changeset: its size is the sum of the padded sizes of what it contains, hence a
                        # multiple of 8, and the walk over its sub-items must end exactly at its end
                        if ty == 5:
                            sub = pos + (56 + int.from_bytes(raw[pos + 48:pos + 50], 'little') + 7) // 8 * 8
                        else:
                            szt = 40 if ty == 1 else 32
                            sub = pos + (szt + 2 + int.from_bytes(raw[pos + szt:pos + szt + 2], 'little') + 7) // 8 * 8
                        end = pos + size
                        while sub + 8 <= end:
                            ssz = int.from_bytes(raw[sub:sub + 4], 'little')
                            if ssz < 8:
                                break
                            sub += (ssz + 7) // 8 * 8
                        if size % 8 != 0 or sub != end:
                            subwalk = 'item at %d (type %d): size %d, sub-item walk ends at %d, expected %d' % (pos, ty, size, sub - pos, size)
                            break
                    pos += (size + 7) // 8 * 8
                if subwalk:
                    viol = ('sub-item-walk', 'after op #%d: %s' % (i, subwalk))
                    break
                if pos != len(raw) or len(raw) != co_:
                    viol = ('item-walk', 'after op #%d the committed bytes are not a sequence of padded items (walk ends at %d of %d)' % (i, pos, len(raw)))
                    break
            if op == 'dump' and i < len(s.expect) and s.expect[i] is not None and r.mode != 'internal' and (r.cut is None or i < r.cut):
                tree = payload.split(' | ')[0]
                if tree != s.expect[i]:
                    viol = ('content', 'dump after op #%d differs from what was passed in: got %s expected %s' % (i, tree[:300], s.expect[i][:300]))
                    break
            if op == 'dump' and r.cut is not None and i == len(r.ops) - 1:
                tree = payload.split(' | ')[0]
                if tree != s.view_before[r.cut]:
                    viol = ('full-prefix', 'after buffer_is_full + rollback the committed items are %s, expected %s' % (tree[:300], s.view_before[r.cut][:300]))
                    break
            if op in ('purge', 'purge0') and i >= 1 and r.ops[i - 1] == 'dump' and i + 1 < len(stats) and r.mode != 'internal':
                before = stats[i - 1][2].split(' | ')
                after = stats[i + 1][2].split(' | ')
                if len(before) == 2 and len(after) == 2:
                    cbs, outhex = purge_oracle(before[1])
                    ctx.count('branch:purge-moved' if cbs != '-' else 'branch:purge-nothing-moved')
                    if op == 'purge' and payload != cbs:
                        viol = ('purge-callbacks', 'purge_removed reported moves %s, expected %s' % (payload, cbs))
                        break
                    if after[1] != outhex:
                        viol = ('purge-bytes', 'bytes after purge_removed are not the non-removed items in order')
                        break
            if op == 'dumpall' and (s.grow_only or r.mode != 'internal') and not s.artificial:
                if payload != s.ref_dumpall:
                    viol = ('capacity-dependent', 'final item sequence differs from the run at a huge capacity: got %s expected %s' % (payload[:300], s.ref_dumpall[:300]))
                    break
            if nums_[3] == '1':
                ctx.count('branch:nested')
        if viol:
            key, what = viol
            if s.has_comment and f4_present and key in ('content', 'capacity-dependent'):
                ctx.violation(F4_KEY, what, replay(r))
            else:
                ctx.violation('%s:%s' % (key, s.name), '%s — %s' % (r.ident(), what), replay(r))

    # stale-pointer runs: the implementation must show the defect there (else the model is wrong about it)
    confirmed = 0
    for r in ub_sample:
        s = r.script
        if r.impl is None:
            continue
        bad = r.crash is not None
        if not bad:
            for i, l in enumerate(r.impl[1:]):
                st, _, payload = split(l)
                if r.ops[i] == 'dump' and i < len(s.expect) and s.expect[i] is not None and r.mode != 'internal' and payload.split(' | ')[0] != s.expect[i]:
                    bad = True
                if r.ops[i] == 'dumpall' and payload != s.ref_dumpall:
                    bad = True
        if bad:
            confirmed += 1
            ctx.violation(F4_KEY, 'stale m_comment pointer: ' + r.ident(), replay(r))
    ctx.count('stale-pointer-runs-confirmed-on-impl', confirmed)
    if ub_sample and confirmed == 0:
        r = ub_sample[0]
        ctx.violation('correspondence:stale-pointer-not-observed', 'the model predicts a stale pointer dereference in %s but the implementation shows neither a sanitizer report nor wrong content' % r.ident(),
                      {'kind': 'broken-correspondence', 'ops': r.text(fix).split('\n')}, found_input=False)

    # ---- correspondence diff --------------------------------------------------------------------
    if model_ok:
        ndis, first = 0, None
        nlines = 0
        for r in normal:
            if r.crash or r.impl is None or r.model is None:
                continue
            ops = ['init'] + r.ops
            nlines += len(ops)
            for i in range(len(ops)):
                a = r.impl[i] if i < len(r.impl) else '<missing>'
                b = r.model[i] if i < len(r.model) else '<missing>'
                if a != b:
                    ndis += 1
                    if first is None:
                        first = (r, i, ops[i], a, b)
                    break
        ctx.streams['c04-model-vs-impl'] = {'lines': nlines, 'disagreements': ndis}
        if first and not [v for v in ctx.violations if v.key != F4_KEY]:
            r, i, op, a, b = first
            ctx.violation('correspondence:%s:%s' % (r.script.name, op.split(' ')[0]),
                          'model and implementation disagree in %d runs; first: %s op #%d `%s` impl=`%s` model=`%s`; no property monitor fired'
                          % (ndis, r.ident(), i, op, a[:200], b[:200]),
                          {'kind': 'broken-correspondence', 'stream': 'c04-model-vs-impl', 'ops': r.text(fix).split('\n'), 'impl': a, 'model': b}, found_input=False)
        elif first:
            r, i, op, a, b = first
            ctx.extra['first_disagreement'] = {'run': r.ident(), 'op': op, 'impl': a[:300], 'model': b[:300], 'count': ndis}
    for s in scripts[:3] + scripts[-2:]:
        ctx.sample(' ; '.join(s.ops[len(AUX_PRELUDE):])[:400])
