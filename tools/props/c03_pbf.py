"""C03, PBF part — hostile PBF input never causes memory errors, aborts or hangs (DESIGN.md §3 C03).

proof (dispatcher): lean/Osmium/Props/C03Pbf.lean — `pbf_decoder_total`, `pbf_strings_come_from_table`,
`pbf_decoded_objects_wf` (full since da64936 rejects NUL in string-table entries; premise: item < 4 GiB)
+ the pre-repair witness F13a as regression documentation.
hostile tier (here; shared machinery for the text part lives in this file too): the REAL
osmium::io::Reader (harness/c03.cpp) built with ASan+UBSan, once with -DNDEBUG and once with
assertions, alarm(10) watchdog, every delivered object traversed twice (a GUARDED walk that checks
every pointer the library's iterators would compute against the end of the item, then the library's
own iterators/accessors).  Inputs:
  * every prefix of valid files (python field-tree encoder below, real Writer via `gen`),
  * single / double byte mutations,
  * structure-aware mutations of the protobuf field tree: every varint / packed element / length
    field set to 0, 1, n-1, n, n+1, 2^31.., 2^64-1, truncated and 11-byte varints; NUL inserted at
    every position of every string-table entry; entries blown up to 1024/1025/65535/65536 bytes;
    packed arrays shortened/extended (keys vs vals, ids vs lat/lon, dense info shorter than ids,
    missing keys_vals terminator); every wire type 0..7 on every field; fields dropped/duplicated;
    nested lengths pointing outside; blob framing (BlobHeader size prefix, datasize, raw_size,
    blob type, zlib payload damaged),
  * a sample of the inputs wrapped in gzip / bzip2 by the harness, and zlib-compressed blobs.
For inputs in the modelled format (raw blobs) the outcome CLASS (objects / error) of both builds
must equal `model_pbf dec`; a sanitizer report, failed assertion, crash, watchdog timeout, guarded
walk hit or non-std exception is a violation with the (shrunk) input as replay.
Regression probes (corpus/C03/pbf_findings.ops, REGRESSIONS below): the inputs of the repaired findings
da64936 / 0285409 must give pbf_error; anything else = REGRESSION of the fix with the input.
Item-size probe (`start_big_item_probe`): one 4 KiB file whose node becomes an item of more than 4 GiB,
on a build without sanitizers (skipped below 12 GB of available memory).
Small-buffer streams (`smallbuf_run`, used by all four parts): eight more ASan+UBSan builds of harness/c03.cpp
with -DOSMIUM_VERIF_PARSER_INITIAL_BUFFER_SIZE=<n> -DOSMIUM_VERIF_PBF_INITIAL_BUFFER_SIZE=<n> (SMALL_CAPS) run the
valid files and the structure-aware mutations: the parser buffers grow DURING builder calls (a builder that keeps
a raw pointer across a reservation writes into freed memory -> ASan, or into the abandoned old buffer -> the
delivered object is damaged -> guarded walk / comparison); the delivered objects must be identical to the run at
the normal buffer size; the builder calls during which the buffer grew are reported (GROWTH_SITES).
"""
import concurrent.futures
import copy
import os
import re
import subprocess
import zlib

MODULES = ['Osmium.Props.C03Pbf']
EXES = ['model_pbf', 'model_c03']
RULE = ('pbf hostile tier: prefixes + byte mutations + field-tree structure mutations of valid PBF files on the real Reader '
        '(ASan+UBSan, NDEBUG and assertions, 10 s watchdog, guarded + library traversal) and outcome class vs model_pbf; '
        'valid files + structure mutations again on 8 builds whose parser buffers start at 64..200 bytes (growth during builder '
        'calls; objects identical to the normal-size run); distinct = distinct (input, build); non-trivial = all')

SAN_FLAGS = ['-fno-sanitize=signed-integer-overflow', '-fno-access-control']
M64 = 2 ** 64 - 1

# ======================================================================================================
# shared machinery (also used by c03_text.py)
# ======================================================================================================


def build_harnesses(ctx, _done={}):
    import vlib
    if 'prebuilt' not in _done:
        # first call: compile every harness binary this property uses side by side (cold cache: a new /repo tree)
        _done['prebuilt'] = True
        jobs = [('c03_asan_n', ['c03.cpp'], dict(asan=True, ndebug=True, flags=SAN_FLAGS)),
                ('c03_asan_d', ['c03.cpp'], dict(asan=True, ndebug=False, flags=SAN_FLAGS))] + small_build_jobs()
        only = os.environ.get('C03_PARTS')
        if not only or 'o5m' in only.split(','):
            jobs += [('o5m_asan_n', ['o5m.cpp'], dict(asan=True, ndebug=True, flags=['-fno-sanitize=signed-integer-overflow'])),
                     ('o5m_asan_d', ['o5m.cpp'], dict(asan=True, ndebug=False, flags=['-fno-sanitize=signed-integer-overflow']))]
        if (not only or 'pbf' in only.split(',')) and mem_available_gb() >= 12.0:
            jobs.append(('c03_plain_n', ['c03.cpp'], dict(asan=False, ndebug=True, flags=['-fno-access-control'])))
        _prebuild(jobs)
    builds = []
    for name, nd in (('c03_asan_n', True), ('c03_asan_d', False)):
        hbin, err = vlib.build_cpp(name, ['c03.cpp'], asan=True, ndebug=nd, flags=SAN_FLAGS)
        if hbin is None:
            ctx.violation('c03-harness-build', 'hostile harness does not compile against the current tree: ' + err[-600:],
                          {'kind': 'harness-build', 'stderr': err}, found_input=False)
            return None
        builds.append((name, '0' if nd else '1', hbin))
    return builds


# ---- small-buffer builds ------------------------------------------------------------------------------
# The parser buffers are 1 MiB (XML/OPL/o5m) / 64 KiB (PBF block) in a normal build, so with inputs of a few
# KiB they never grow while an object is being built, and a builder that keeps a raw pointer into the buffer
# across a reservation (the failure the property text names) is never exercised.  /repo has the hooks
# OSMIUM_VERIF_PARSER_INITIAL_BUFFER_SIZE / OSMIUM_VERIF_PBF_INITIAL_BUFFER_SIZE for exactly this: these builds
# start with a buffer of <cap> bytes, so that every object crosses the capacity somewhere.  (cap, NDEBUG)
SMALL_CAPS = [(64, True), (64, False), (72, True), (88, True), (104, True), (104, False), (120, True), (200, True)]
SMALL_FLAGS = ['-g1', '-fno-inline', '-rdynamic', '-DC03_GROWTH_TRACE']


def _prebuild(jobs):
    """compile harnesses side by side (each ASan build of the Reader takes 25-50 s): [(name, sources, kwargs)]"""
    import vlib
    vlib.repo_tree_hash()
    with concurrent.futures.ThreadPoolExecutor(max_workers=max(1, min(len(jobs), (os.cpu_count() or 4) - 2))) as ex:
        futs = [ex.submit(vlib.build_cpp, name, srcs, **kw) for name, srcs, kw in jobs]
        return [f.result() for f in futs]


def small_build_jobs():
    import vlib
    jobs = []
    for cap, nd in SMALL_CAPS:
        fl = SAN_FLAGS + SMALL_FLAGS + ['-DOSMIUM_VERIF_PARSER_INITIAL_BUFFER_SIZE=%d' % cap, '-DOSMIUM_VERIF_PBF_INITIAL_BUFFER_SIZE=%d' % cap]
        jobs.append(('c03_sb%d_%s' % (cap, 'n' if nd else 'd'), ['c03.cpp'], dict(asan=True, ndebug=nd, flags=fl, libs=vlib.DEFAULT_LIBS + ['-ldl'])))
    return jobs


def build_small_harnesses(ctx, _cache={}):
    """-> [(name, assert flag, binary, cap)] or None"""
    if 'r' in _cache:
        return _cache['r']
    jobs = small_build_jobs()
    res = _prebuild(jobs)
    out = []
    for (name, _, kw), (hbin, err), (cap, nd) in zip(jobs, res, SMALL_CAPS):
        if hbin is None:
            ctx.violation('c03-harness-build', 'small-buffer hostile harness %s does not compile against the current tree: %s' % (name, err[-600:]),
                          {'kind': 'harness-build', 'stderr': err}, found_input=False)
            _cache['r'] = None
            return None
        out.append((name, '0' if nd else '1', hbin, cap))
    _cache['r'] = out
    return out


def resolve_sites(hbin, sites):
    """'Fn+<hex offset in the executable>/helper/how' -> 'Fn@file:line/helper/how' (addr2line on the return address - 1)"""
    offs = sorted(set(s.split('/')[0].rsplit('+', 1)[1] for s in sites if '+' in s.split('/')[0]))
    lines = {}
    if offs:
        p = subprocess.run(['addr2line', '-e', hbin] + ['0x%x' % (int(o, 16) - 1) for o in offs], capture_output=True)
        for o, l in zip(offs, p.stdout.decode('latin-1').split('\n')):
            l = l.split(' ')[0]
            lines[o] = os.path.basename(l) if l and not l.startswith('?') else '+' + o
    out = {}
    for s in sites:
        head, _, rest = s.partition('/')
        if '+' in head:
            fn, o = head.rsplit('+', 1)
            out[s] = '%s@%s/%s' % (fn, lines.get(o, '+' + o), rest)
        else:
            out[s] = s
    return out


# builder calls during which a reader's buffer can grow (padding never can: written and capacity are both
# multiples of 8 after it).  Coverage of the small-buffer streams is reported against this list per format.
GROWTH_SITES = {
    'object-ctor': ('OSMObjectBuilder<', 'Builder'),
    'set_user': ('::set_user@', 'direct'),
    'taglist-ctor': ('TagListBuilder::TagListBuilder@', 'Builder'),
    'add_tag': ('TagListBuilder::add_tag@', 'append'),
    'nodelist-ctor': ('NodeRefListBuilder<WayNodeList>::NodeRefListBuilder@', 'Builder'),
    'add_node_ref': ('NodeRefListBuilder<WayNodeList>::add_node_ref@', 'reserve_space_for<NodeRef>'),
    'memberlist-ctor': ('RelationMemberListBuilder::RelationMemberListBuilder@', 'Builder'),
    'add_member': ('RelationMemberListBuilder::add_member@', 'reserve_space_for<RelationMember>'),
    'add_role': ('RelationMemberListBuilder::add_role@', 'append_with_zero'),
    'discussion-ctor': ('ChangesetDiscussionBuilder::ChangesetDiscussionBuilder@', 'Builder'),
    'add_comment': ('ChangesetDiscussionBuilder::add_comment@', 'reserve_space_for<ChangesetComment>'),
    'comment-user': ('ChangesetDiscussionBuilder::add_user@', 'append_with_zero'),
    'comment-text': ('ChangesetDiscussionBuilder::add_text@', 'append_with_zero'),
}
SITES_BY_FORMAT = {
    'pbf': ['object-ctor', 'set_user', 'taglist-ctor', 'add_tag', 'nodelist-ctor', 'add_node_ref', 'memberlist-ctor', 'add_member', 'add_role'],
    'o5m': ['object-ctor', 'set_user', 'taglist-ctor', 'add_tag', 'nodelist-ctor', 'add_node_ref', 'memberlist-ctor', 'add_member', 'add_role'],
    'opl': ['object-ctor', 'set_user', 'taglist-ctor', 'add_tag', 'nodelist-ctor', 'add_node_ref', 'memberlist-ctor', 'add_member', 'add_role'],
    'xml': ['object-ctor', 'set_user', 'taglist-ctor', 'add_tag', 'nodelist-ctor', 'add_node_ref', 'memberlist-ctor', 'add_member', 'add_role',
            'discussion-ctor', 'add_comment', 'comment-user', 'comment-text'],
}


def smallbuf_run(ctx, part, fmt, inputs, reference, types, select=None, err_sample=4, share=None):
    """The inputs (label, bytes) whose reference outcome (normal buffer size: reference[assert flag][i] = (out, crash))
    delivered objects - plus every `err_sample`-th failing one - through every small-buffer build: guarded walk +
    ASan as in the normal builds, and the delivered objects must be IDENTICAL to the run at the normal size
    (buffer capacity is unobservable; C04: capacity_independent).  Growth sites go to the histogram.
    `share` = n: every build runs the unmutated files and a rotating 1/n of the mutations (quick tier)."""
    small = build_small_harnesses(ctx)
    if small is None:
        return
    tick(ctx, part + ':smallbuf')
    idx = []
    nerr = 0
    for i, (lab, d) in enumerate(inputs):
        out, crash = reference['0'][i]
        if crash is not None or out is None or out.startswith('OOB:') or out == 'NONSTD' or len(d) > 300000:
            continue
        if select is not None and not select(lab):
            continue
        if out.startswith('ok') and not out.startswith('ok 0 '):
            idx.append(i)
        else:
            nerr += 1
            if nerr % err_sample == 0:
                idx.append(i)
    ctx.extra['%s_smallbuf_inputs' % part] = len(idx)
    seen_sites = set()
    allidx = idx
    nhits = 0
    for bk, (bname, aflag, hbin, cap) in enumerate(small):
        if nhits > 20:
            # the finding is made (every further build would die on the same inputs, one process restart each)
            ctx.count('%s-smallbuf-build-skipped-after-hits' % part)
            continue
        idx = [i for k, i in enumerate(allidx) if not share or (k + bk) % share == 0 or inputs[i][0] in ('valid', 'writer') or inputs[i][0].startswith('shift')]
        lines = ['rd %s %s none %d %s' % (aflag, fmt, types(i) if callable(types) else types, inputs[i][1].hex() or '-') for i in idx]
        for l in lines:
            ctx.note_case(bname + ' ' + l)
        res = run_harness(hbin, lines)
        ndis = 0
        raw_sites = {}
        for i, line, (out, crash) in zip(idx, lines, res):
            lab, d = inputs[i]
            if out is not None and ' #g:' in out:
                out, _, g = out.partition(' #g:')
                for sname in g.split(','):
                    if sname:
                        raw_sites[sname] = raw_sites.get(sname, 0) + 1
            if crash is not None or (out is not None and (out.startswith('OOB:') or out == 'NONSTD')):
                nhits += 1
                report(ctx, part, fmt, types(i) if callable(types) else types, bname, aflag, hbin, 'smallbuf%d:%s' % (cap, lab), d, line, None, out, crash,
                       note='parser buffers start at %d bytes in this build (OSMIUM_VERIF_PARSER/PBF_INITIAL_BUFFER_SIZE): they grow while the object is built' % cap)
                continue
            if out is None:
                continue
            ref, refcrash = reference[aflag][i] if aflag in reference else reference['0'][i]
            if refcrash is not None or ref is None:
                continue
            ctx.count('%s-smallbuf-outcome:%s' % (part, 'ok' if out.startswith('ok') else out.split(' ')[0]))
            if out != ref:
                ndis += 1
                key = '%s-buffer-capacity-observable' % part
                if not any(v.key == key for v in ctx.violations):
                    k = next((j for j in range(min(len(out), len(ref))) if out[j] != ref[j]), min(len(out), len(ref)))
                    ctx.violation(key, 'real Reader on a %d-byte %s input (mutation %s): with parser buffers that start at %d bytes (%s) it delivers `…%s`, '
                                  'with the normal buffer size `…%s` — the buffer capacity must not be observable (an object was damaged when the buffer grew '
                                  'during a builder call)' % (len(d), fmt, lab, cap, bname, out[max(k - 40, 0):k + 80], ref[max(k - 40, 0):k + 80]),
                                  {'kind': 'counterexample', 'op': line if len(line) < 60000 else line[:60000] + '…', 'build': bname, 'small': out[:4000], 'normal': ref[:4000],
                                   'replay': 'echo "<op>" | <harness/c03.cpp built as %s> versus <c03_asan_%s>' % (bname, 'n' if aflag == '0' else 'd')})
        st = ctx.streams.setdefault('%s-c03-smallbuf-vs-normal-%s' % (part, bname), {'lines': 0, 'disagreements': 0})
        st['lines'] += len(lines)
        st['disagreements'] += ndis
        names = resolve_sites(hbin, list(raw_sites))
        for sname, n in raw_sites.items():
            seen_sites.add(names[sname])
            ctx.count('%s-smallbuf-growth:%s' % (part, names[sname]), n)
    missing = []
    for want in SITES_BY_FORMAT.get(fmt, []):
        frag, helper = GROWTH_SITES[want]
        hits = [s for s in seen_sites if frag in s and s.split('/')[1].startswith(helper)]
        if want == 'add_tag' and len(set(s.split('/')[0] for s in hits)) < 2:
            missing.append('add_tag (key and value)')
        elif not hits:
            missing.append(want)
    ctx.extra['%s_smallbuf_growth_sites' % part] = len(seen_sites)
    ctx.extra['%s_smallbuf_sites_without_growth' % part] = missing
    if missing:
        ctx.assumptions.append('%s small-buffer streams: no buffer growth was observed during these builder calls in this run: %s' % (part, ', '.join(missing)))
    tick(ctx, part + ':smallbuf-done')


def structure_label(lab):
    """valid files and structure-aware mutations (not the random prefixes / byte mutations / corpus probes)"""
    return not lab.startswith(('prefix', 'bytes', 'writer-prefix', 'writer-bytes', 'corpus', 'H.'))


def tick(ctx, label, _state={}):
    """wall-clock bookkeeping per stage (evidence: extra.c03_seconds)"""
    import time
    now = time.time()
    if 'last' in _state:
        d = ctx.extra.setdefault('c03_seconds', {})
        d[_state['label']] = round(d.get(_state['label'], 0) + now - _state['last'], 1)
    _state['last'] = now
    _state['label'] = label


HENV = dict(os.environ, ASAN_OPTIONS='detect_leaks=0:abort_on_error=0:allocator_may_return_null=1:max_allocation_size_mb=2048:max_malloc_fill_size=67108864:malloc_fill_byte=190',
            UBSAN_OPTIONS='print_stacktrace=1')


def _run_chunk(hbin, lines):
    p = subprocess.run([hbin], input=('\n'.join(lines) + '\n').encode(), capture_output=True, env=HENV)
    outs = p.stdout.decode('latin-1').split('\n')
    if outs and outs[-1] == '':
        outs.pop()
    return p.returncode, outs, p.stderr.decode('latin-1')


def run_harness(hbin, lines, workers=14, chunk=250):
    """One process per batch; when a batch dies the culprit is the first line without output.  It is
    re-run ALONE (attribution): if it does not die alone the whole batch prefix is the replay."""
    results = [None] * len(lines)

    def work(lo, hi):
        i = lo
        while i < hi:
            rc, outs, se = _run_chunk(hbin, lines[i:hi])
            for k, o in enumerate(outs[:hi - i]):
                results[i + k] = (o, None)
            done = i + len(outs)
            if done >= hi and rc == 0:
                return
            if done < hi:
                rc1, outs1, se1 = _run_chunk(hbin, [lines[done]])
                if rc1 != 0 or not outs1:
                    results[done] = (None, {'rc': rc1, 'stderr': se1[:3000] + '\n[...]\n' + se1[-5000:] if len(se1) > 8000 else se1, 'alone': True})
                else:
                    results[done] = (None, {'rc': rc, 'stderr': se[:3000] + '\n[...]\n' + se[-5000:] if len(se) > 8000 else se, 'alone': False, 'batch': lines[i:done + 1][-40:]})
            i = done + 1

    with concurrent.futures.ThreadPoolExecutor(max_workers=workers) as ex:
        futs = [ex.submit(work, lo, min(lo + chunk, len(lines))) for lo in range(0, len(lines), chunk)]
        for f in futs:
            f.result()
    return results


def crash_signature(info):
    se = info['stderr']
    m = re.search(r'([\w./-]+\.hpp):(\d+): ([^\n]*?): Assertion `([^\n]{0,80})', se)
    if m:
        fn = re.sub(r'\(.*', '', m.group(3)).split('::')[-1].split(' ')[-1]
        return 'assert:%s:%s' % (os.path.basename(m.group(1)), fn)
    m = re.search(r'([\w./-]+\.hpp):(\d+)(?::\d+)?: runtime error: ([^\n]{0,60})', se)
    if m:
        return 'ubsan:%s:%s' % (os.path.basename(m.group(1)), re.sub(r'0x[0-9a-f]+', 'X', m.group(3)).replace(' ', '_')[:40])
    m = re.search(r'ERROR: AddressSanitizer: ([\w-]+)', se)
    if m:
        loc = re.search(r'#\d+ 0x[0-9a-f]+ in [^\n]*?(/repo/include/[\w./-]+|include/osmium/[\w./-]+):(\d+)', se)
        return 'asan:%s%s' % (m.group(1), (':%s' % os.path.basename(loc.group(1))) if loc else '')
    if info['rc'] in (-14, 142):
        return 'timeout'
    if 'terminate called' in se:
        return 'terminate'
    return 'rc%s' % info['rc']


def xml_discussion_class(data):
    """which misuse of the discussion builder does this XML text drive? (for stable keys)"""
    txt = data.decode('latin-1')
    for m in re.finditer(r'<comment\b([^>]*?)(/?)>', txt):
        if m.group(2) == '/':
            return 'xml-comment-without-text'
        rest = txt[m.end():]
        end = re.search(r'</comment\s*>|<comment\b|</discussion', rest)
        if not end:
            continue      # the document ends / breaks inside this comment
        body = rest[:end.start()]
        n = len(re.findall(r'<text\b', body))
        if n == 0:
            return 'xml-comment-without-text'
        if n > 1:
            return 'xml-comment-with-two-texts'
    return None


def finding_key(fmt, sig, stderr, data, out=None):
    """stable key of a root cause (matched against KNOWN_FINDINGS.txt)"""
    blob = (sig or '') + ' ' + (stderr or '') + ' ' + (out or '')
    if 'set_user' in blob or 'user-size-not-at-nul' in blob or 'user-unterminated' in blob or 'subitems-start-after-end' in blob:
        if fmt in ('xml', 'opl'):
            return '%s-user-too-long' % fmt
    if fmt == 'xml' and ('ChangesetDiscussionBuilder' in blob or 'OOB:comment' in blob or 'ChangesetComment' in blob):
        return xml_discussion_class(data) or 'xml-comment-pending-at-error'
    if fmt == 'pbf' and out and out.startswith('OOB:tag'):
        return 'pbf-embedded-nul-tag'
    if fmt == 'pbf' and 'null pointer passed as argument' in blob and 'pbf_input_format.hpp' in blob:
        return 'pbf-blobheader-without-type'
    if out and out.startswith('OOB:'):
        return '%s-traversal-%s' % (fmt, out[4:])
    return '%s-crash:%s' % (fmt, sig)


# The findings of this property that were repaired in /repo: their minimal inputs are REGRESSION PROBES
# (corpus/C03/*_findings.ops: `<hex> <stable key> <expected outcome>`).  A crash / guarded-walk hit on any
# input whose root cause maps to one of these keys, or another outcome than the expected one on a probe
# input, is reported under the stable key with this text.
REGRESSIONS = {
    'pbf-embedded-nul-tag': 'REGRESSION of fix da64936 (DESIGN.md F13a): PBF decode_stringtable lets a string-table entry with an embedded '
                            'NUL byte through; a tag key "a\\0b" desynchronises Tag::next() and the tag walk leaves the TagList',
    'pbf-blobheader-without-type': 'REGRESSION of fix 0285409: a BlobHeader without type field makes the PBF reader call '
                                   'strncmp(expected, nullptr, 0) (null pointer passed to a nonnull parameter)',
    'xml-comment-without-text': 'REGRESSION of fix 5690f83 (F13b): XML <comment> without <text> leaves an unpadded ChangesetComment in the '
                                'buffer (the discussion walk leaves the item; assertion in debug builds)',
    'xml-comment-with-two-texts': 'REGRESSION of fix 5690f83: a second <text> in one <comment> calls add_comment_text() without a pending comment '
                                  '(write through item_pos() + size_t(-1); assertion in debug builds)',
    'xml-comment-pending-at-error': 'REGRESSION of fix 5690f83: an error / the end of the document inside an open <comment> hits the assertion in '
                                    '~ChangesetDiscussionBuilder instead of surfacing as an exception',
    'xml-user-too-long': 'REGRESSION of fix bc6b907 (F13c): set_user() accepts an XML user attribute longer than max_osm_string_length '
                         '(assertion at 65535 bytes; NDEBUG: length truncated to 16 bits, 65535 wraps user_size to 0 and sub-items are searched inside the name)',
    'opl-user-too-long': 'REGRESSION of fix bc6b907 (F13c): set_user() accepts an OPL user name longer than max_osm_string_length '
                         '(assertion at 65535 bytes; NDEBUG: length truncated to 16 bits)',
}


def probe_matches(expected, out):
    """expected: `ok`, `err` (any exception class) or the exact first token, e.g. `err:pbf_error`"""
    first = out.split(' ')[0]
    if expected == 'err':
        return first.startswith('err:')
    return first == expected


def byte_mutations(rng, data, n, interesting=(0, 1, 0x7f, 0x80, 0xff, 0xfe, 0x0a, 0x20)):
    out = []
    if not data:
        return out
    for _ in range(n):
        b = bytearray(data)
        for _ in range(1 + rng.below(2)):
            if not b:
                break
            p = rng.below(len(b))
            c = rng.below(6)
            if c == 0:
                b[p] = rng.below(256)
            elif c == 1:
                b[p] ^= 1 << rng.below(8)
            elif c == 2:
                b[p] = rng.choice(list(interesting))
            elif c == 3:
                del b[p]
            elif c == 4:
                b.insert(p, rng.below(256))
            else:
                b[p] = (b[p] + 1) & 0xff
        out.append(('bytes', bytes(b)))
    return out


def gen_real(ctx, hbin, fmt, specs):
    """valid files written by the REAL Writer: specs = [(n, seed, options)] -> list of bytes"""
    lines = ['gen %s %d %d%s' % (fmt, n, seed, (' ' + o) if o else '') for n, seed, o in specs]
    rc, outs, se = _run_chunk(hbin, lines)
    res = []
    for o in outs:
        try:
            res.append(bytes.fromhex(o) if o != '-' else b'')
        except ValueError:
            pass
    return res


def shrink(hbin, aflag, fmt, types, data, same, budget=120):
    """greedy chunk removal keeping `same(outcome)` true; outcome = (out, crash)"""
    cur = data
    n = 0
    size = max(len(cur) // 2, 1)
    while size >= 1 and n < budget:
        i = 0
        progressed = False
        while i < len(cur) and n < budget:
            cand = cur[:i] + cur[i + size:]
            n += 1
            r = run_harness(hbin, ['rd %s %s none %d %s' % (aflag, fmt, types, cand.hex() or '-')], workers=1)[0]
            if same(r):
                cur = cand
                progressed = True
            else:
                i += size
        if not progressed or size == 1:
            size //= 2
    return cur


def hostile_run(ctx, part, fmt, builds, inputs, model_fn, types=23, probes=None, comp_sample=0, outside_model=None):
    """inputs: [(label, bytes)].  model_fn(list of bytes) -> list of 'ok'/'err'/None (None = not modelled).
    Runs both builds, monitors, correspondence of the outcome class.  Returns per-input outcomes of the NDEBUG build."""
    seen = set()
    uniq = []
    for lab, d in inputs:
        if d not in seen:
            seen.add(d)
            uniq.append((lab, d))
    inputs = uniq
    for lab, _ in inputs:
        ctx.count('%s-hostile-input:%s' % (part, re.split(r'[=@#]', lab)[0]))
    ctx.extra['%s_hostile_inputs' % part] = len(inputs)
    tick(ctx, part + ':model')
    model = model_fn([d for _, d in inputs])
    tick(ctx, part + ':harness')
    comps = []
    if comp_sample:
        step = max(len(inputs) // comp_sample, 1)
        comps = [(i, ['gz', 'bz2'][(i // step) % 2]) for i in range(0, len(inputs), step)]
    outcomes = {}
    for bname, aflag, hbin in builds:
        lines = ['rd %s %s none %d %s' % (aflag, fmt, types, d.hex() or '-') for _, d in inputs]
        clines = ['rd %s %s %s %d %s' % (aflag, fmt, c, types, inputs[i][1].hex() or '-') for i, c in comps]
        for l in lines + clines:
            ctx.note_case(l)
        tick(ctx, part + ':harness')
        res = run_harness(hbin, lines + clines)
        tick(ctx, part + ':evaluate')
        ctx.sample(lines[len(lines) // 2][:160])
        cres = res[len(lines):]
        res = res[:len(lines)]
        outcomes[aflag] = res
        ndis = 0
        first_dis = None
        for i, ((lab, d), line, mod, (out, crash)) in enumerate(zip(inputs, lines, model, res)):
            ctx.count('%s-hostile-model-outcome:%s' % (part, mod))
            if crash is not None or (out is not None and (out.startswith('OOB:') or out == 'NONSTD')):
                report(ctx, part, fmt, types, bname, aflag, hbin, lab, d, line, mod, out, crash,
                       probe=probes.get(d) if probes else None)
                continue
            if out is None:
                continue
            cls = 'ok' if out.startswith('ok') else 'err'
            ctx.count('%s-hostile-impl-outcome:%s' % (part, out.split(' ')[0] if cls == 'err' else 'ok'))
            if probes and d in probes:
                ctx.count('%s-regression-probe:%s' % (part, probes[d][0]))
                if not probe_matches(probes[d][1], out):
                    key = probes[d][0]
                    if not any(v.key == key for v in ctx.violations):
                        ctx.violation(key, '%s — regression probe: real Reader (%s) gives `%s` on the %d-byte input of the finding, the repaired code gives `%s`'
                                      % (REGRESSIONS.get(key, 'regression probe ' + key), bname, out[:160], len(d), probes[d][1]),
                                      {'kind': 'counterexample', 'op': line if len(line) < 60000 else line[:60000] + '…', 'impl': out[:2000],
                                       'expected': probes[d][1], 'build': bname,
                                       'replay': 'echo "<op>" | <harness/c03.cpp built as %s>' % bname})
                    continue
            if mod is not None and mod != cls:
                why = outside_model(d, mod, cls, out) if outside_model else None
                if why:
                    ctx.count('%s-hostile-outside-model-domain:%s' % (part, why))
                    continue
                ndis += 1
                if first_dis is None:
                    first_dis = (line, out, mod, lab)
        for (i, c), (out, crash) in zip(comps, cres):
            lab, d = inputs[i]
            line = 'rd %s %s %s %d %s' % (aflag, fmt, c, types, d.hex() or '-')
            if crash is not None or (out is not None and (out.startswith('OOB:') or out == 'NONSTD')):
                report(ctx, part, fmt, types, bname, aflag, hbin, lab + '+' + c, d, line, None, out, crash, shrinkable=False)
                continue
            plain = res[i][0]
            ctx.count('%s-hostile-compressed:%s' % (part, c))
            if out is not None and plain is not None and out.startswith('ok') != plain.startswith('ok'):
                ctx.violation('%s-hostile-compression-changes-outcome:%s' % (part, c),
                              'the same %s bytes give `%s` plain and `%s` wrapped in %s (%s)' % (fmt, plain[:100], out[:100], c, bname),
                              {'kind': 'counterexample', 'op': line[:30000], 'plain': plain[:2000], 'wrapped': out[:2000]})
        st = ctx.streams.setdefault('%s-c03-model-vs-reader-%s' % (part, bname), {'lines': 0, 'disagreements': 0})
        st['lines'] += sum(1 for m in model if m is not None)
        st['disagreements'] += ndis
        if first_dis is not None:
            line, out, mod, lab = first_dis
            ctx.violation('%s-hostile-correspondence:%s' % (part, bname),
                          '%s model and real Reader (%s) disagree on the outcome class of %d hostile inputs; first (mutation %s): impl `%s` model `%s`'
                          % (part, bname, ndis, lab, out[:200], mod),
                          {'kind': 'broken-correspondence', 'op': line[:30000], 'impl': out[:3000], 'model': mod, 'build': bname},
                          found_input=False)
    return inputs, outcomes


def report(ctx, part, fmt, types, bname, aflag, hbin, lab, d, line, mod, out, crash, shrinkable=True, probe=None, note=None):
    sig = crash_signature(crash) if crash is not None else out
    key = finding_key(fmt, sig, crash['stderr'] if crash else '', d, out)
    if probe is not None and not key.split(':')[0] in REGRESSIONS:
        key = probe[0]
    ctx.count('%s-hostile-hit:%s:%s' % (part, bname, key))
    if any(v.key == key for v in ctx.violations):
        return
    small = d
    if shrinkable and len(d) <= 300000 and not lab.startswith('corpus'):      # corpus inputs are minimal already
        def same(r):
            o, c = r
            if o is not None:
                o = o.partition(' #g:')[0]      # growth trace of the small-buffer builds
            s2 = crash_signature(c) if c is not None else o
            if s2 is None:
                return False
            if (c is None) != (crash is None):
                return False
            return finding_key(fmt, s2, c['stderr'] if c else '', b'', o).split(':')[0] == finding_key(fmt, sig, crash['stderr'] if crash else '', b'', out).split(':')[0] \
                and (s2 == sig or c is None)
        try:
            small = shrink(hbin, aflag, fmt, types, d, same)
        except Exception:
            small = d
    sline = 'rd %s %s none %d %s' % (aflag, fmt, types, small.hex() or '-')
    what = ('real Reader (%s, ASan+UBSan%s) on a %d-byte %s input (mutation %s; shrunk to %d bytes): %s%s'
            % (bname, ', -DNDEBUG' if aflag == '0' else ', assertions on', len(d), fmt, lab, len(small), sig,
               '; the model predicted `%s`' % mod if mod is not None else ''))
    if key in REGRESSIONS:
        what = REGRESSIONS[key] + ' — ' + what
    if probe is not None:
        what += '; regression probe, the repaired code gives `%s`' % probe[1]
    if note:
        what += ' — ' + note
    rep = {'kind': 'counterexample', 'op': sline if len(sline) < 60000 else sline[:60000] + '…', 'build': bname, 'mutation': lab,
           'original_len': len(d), 'model': mod,
           'replay': 'echo "<op>" | <harness/c03.cpp built as %s>' % bname}
    if len(small) < 4000:
        rep['input_text'] = small.decode('latin-1')
    if crash is not None:
        rep['stderr'] = crash['stderr'][-3000:]
        rep['rc'] = crash['rc']
        rep['dies_alone'] = crash.get('alone')
        if not crash.get('alone'):
            rep['batch'] = crash.get('batch')
    ctx.violation(key, what, rep)


# ======================================================================================================
# PBF field trees
# ======================================================================================================

def uvar(n):
    n &= M64
    out = bytearray()
    while True:
        b = n & 0x7f
        n >>= 7
        if n:
            out.append(b | 0x80)
        else:
            out.append(b)
            return bytes(out)


def zz(n):
    return ((n << 1) ^ (n >> 63)) & M64


def V(t, v):
    return {'t': t, 'w': 0, 'k': 'v', 'v': v}


def S(t, v):
    return {'t': t, 'w': 0, 'k': 'v', 'v': zz(v)}


def B(t, b):
    return {'t': t, 'w': 2, 'k': 'b', 'v': bytes(b)}


def M(t, fields):
    return {'t': t, 'w': 2, 'k': 'm', 'v': list(fields)}


def P(t, vals):
    return {'t': t, 'w': 2, 'k': 'p', 'v': [x & M64 for x in vals]}


def PS(t, vals):
    return P(t, [zz(x) for x in vals])


def payload(f):
    k = f['k']
    if k == 'v':
        return f.get('raw') if f.get('raw') is not None else uvar(f['v'])
    if k == 'b':
        return f['v']
    if k == 'm':
        return ser(f['v'])
    if k == 'p':
        return b''.join(uvar(x) for x in f['v']) + f.get('tail', b'')
    raise ValueError(k)


def ser(fields):
    out = bytearray()
    for f in fields:
        if f.get('drop'):
            continue
        pl = payload(f)
        out += uvar((f['t'] << 3) | f['w'])
        if f['k'] != 'v':
            # written as length-delimited whatever the (possibly damaged) wire type says
            out += uvar(f['len'] if f.get('len') is not None else len(pl))
        out += pl
        if f.get('dup'):
            out += uvar((f['t'] << 3) | f['w'])
            if f['k'] != 'v':
                out += uvar(len(pl))
            out += pl
    return bytes(out)


def frame(btype, body, zl=False, hdr_len=None, datasize=None, raw_size=None, extra_blob=(), hdr_extra=()):
    if zl:
        blob = ser([V(2, len(body) if raw_size is None else raw_size), B(3, zlib.compress(body))] + list(extra_blob))
    else:
        blob = ser([B(1, body)] + ([V(2, raw_size)] if raw_size is not None else []) + list(extra_blob))
    hdr = ser([B(1, btype), V(3, len(blob) if datasize is None else datasize)] + list(hdr_extra))
    n = len(hdr) if hdr_len is None else hdr_len
    return (n & 0xffffffff).to_bytes(4, 'big') + hdr + blob


WORDS = [b'highway', b'name', b'a', b'', b'x y', b'\xc3\xa4', b'yes', b'role', b'ref', b'\xf0\x9f\x98\x80', b'k=v', b'user1', b'bob']


def gen_header(rng):
    fs = []
    if rng.below(2):
        fs.append(M(1, [S(1, -10 * 10 ** 9), S(2, 10 * 10 ** 9), S(3, 5 * 10 ** 9), S(4, -5 * 10 ** 9)]))
    fs.append(B(4, b'OsmSchema-V0.6'))
    if rng.below(2):
        fs.append(B(4, b'DenseNodes'))
    if rng.below(3) == 0:
        fs.append(B(5, b'Sort.Type_then_ID'))
    fs.append(B(16, b'c03'))
    if rng.below(3) == 0:
        fs.append(V(32, 1500000000))
        fs.append(V(33, 7))
        fs.append(B(34, b'http://x/'))
    return fs


def gen_info(rng, ns):
    return M(4, [V(1, 1 + rng.below(5)), V(2, 1000000 + rng.below(1000)), V(3, rng.below(5000)), V(4, rng.below(100)),
                 V(5, rng.below(ns))] + ([V(6, rng.below(2))] if rng.below(3) == 0 else []))


def gen_block(rng, kinds):
    strings = [b''] + [rng.choice(WORDS) for _ in range(3 + rng.below(5))]
    ns = len(strings)
    groups = []
    for kind in kinds:
        if kind == 'd':
            n = 1 + rng.below(4)
            ids = [rng.below(50) - 5 for _ in range(n)]
            kv = []
            for _ in range(n):
                for _ in range(rng.below(3)):
                    kv += [1 + rng.below(ns - 1), rng.below(ns)]
                kv.append(0)
            di = [P(1, [1 + rng.below(4) for _ in range(n)]), PS(2, [rng.below(2000) - 3 for _ in range(n)]),
                  PS(3, [rng.below(100) - 3 for _ in range(n)]), PS(4, [rng.below(10) - 3 for _ in range(n)]),
                  PS(5, [rng.below(3) - 1 if i else rng.below(ns) for i in range(n)])]
            if rng.below(3) == 0:
                di.append(P(6, [rng.below(2) for _ in range(n)]))
            # user_sid deltas must stay in range: recompute as running sums in [0, ns)
            cur = 0
            us = []
            for i in range(n):
                nxt = rng.below(ns)
                us.append(nxt - cur)
                cur = nxt
            di[4] = PS(5, us)
            fs = [PS(1, ids)]
            if rng.below(4):
                fs.append(M(5, di))
            fs += [PS(8, [rng.below(2 * 10 ** 6) - 10 ** 6 for _ in range(n)]), PS(9, [rng.below(2 * 10 ** 6) - 10 ** 6 for _ in range(n)])]
            if rng.below(4):
                fs.append(P(10, kv))
            groups.append(M(2, [M(2, fs)]))
        elif kind == 'n':
            ns_ = []
            for _ in range(1 + rng.below(2)):
                nt = rng.below(3)
                f = [S(1, rng.below(1000))]
                if nt:
                    f += [P(2, [1 + rng.below(ns - 1) for _ in range(nt)]), P(3, [rng.below(ns) for _ in range(nt)])]
                if rng.below(4):
                    f.append(gen_info(rng, ns))
                f += [S(8, rng.below(10 ** 7)), S(9, rng.below(10 ** 7))]
                ns_.append(M(1, f))
            groups.append(M(2, ns_))
        elif kind == 'w':
            ws = []
            for _ in range(1 + rng.below(2)):
                nt = rng.below(3)
                f = [V(1, rng.below(1000))]
                if nt:
                    f += [P(2, [1 + rng.below(ns - 1) for _ in range(nt)]), P(3, [rng.below(ns) for _ in range(nt)])]
                if rng.below(4):
                    f.append(gen_info(rng, ns))
                k = rng.below(5)
                f.append(PS(8, [rng.below(100) - 20 for _ in range(k)]))
                if rng.below(4) == 0:
                    f += [PS(9, [rng.below(1000) for _ in range(k)]), PS(10, [rng.below(1000) for _ in range(k)])]
                ws.append(M(3, f))
            groups.append(M(2, ws))
        elif kind == 'r':
            rs = []
            for _ in range(1 + rng.below(2)):
                nt = rng.below(3)
                f = [V(1, rng.below(1000))]
                if nt:
                    f += [P(2, [1 + rng.below(ns - 1) for _ in range(nt)]), P(3, [rng.below(ns) for _ in range(nt)])]
                if rng.below(4):
                    f.append(gen_info(rng, ns))
                k = rng.below(4)
                f += [P(8, [rng.below(ns) for _ in range(k)]), PS(9, [rng.below(100) - 20 for _ in range(k)]), P(10, [rng.below(3) for _ in range(k)])]
                rs.append(M(4, f))
            groups.append(M(2, rs))
    fs = [M(1, [B(1, s) for s in strings])] + groups
    if rng.below(3) == 0:
        fs += [V(17, rng.choice([100, 1000, 1])), V(18, rng.choice([1000, 1]))]
    if rng.below(4) == 0:
        fs += [V(19, rng.below(1000)), V(20, rng.below(1000))]
    return fs


def gen_file(rng):
    """-> list of (blob type, field tree)"""
    kinds = rng.choice(['d', 'n', 'w', 'r', 'dw', 'nwr', 'dwr', 'wr', 'dn'])
    blobs = [(b'OSMHeader', gen_header(rng))]
    if rng.below(4) == 0 and len(kinds) > 1:
        blobs.append((b'OSMData', gen_block(rng, kinds[:1])))
        blobs.append((b'OSMData', gen_block(rng, kinds[1:])))
    else:
        blobs.append((b'OSMData', gen_block(rng, kinds)))
    return blobs


def ser_file(blobs, **kw):
    which = kw.pop('which', None)
    out = b''
    for i, (t, tree) in enumerate(blobs):
        if which is None or which == i:
            out += frame(t, ser(tree), **kw)
        else:
            out += frame(t, ser(tree))
    return out


def walk(fields, path=()):
    for i, f in enumerate(fields):
        p = path + (i,)
        yield p, f
        if f['k'] == 'm':
            for x in walk(f['v'], p):
                yield x


def at(fields, path):
    f = None
    cur = fields
    for i in path:
        f = cur[i]
        cur = f['v'] if f['k'] == 'm' else None
    return f


INTS = [0, 1, 2, 127, 128, 2 ** 31 - 1, 2 ** 31, 2 ** 32 - 1, 2 ** 32, 2 ** 63 - 1, 2 ** 63, M64]
LONG11 = b'\xff' * 10 + b'\x01'


def mutate_tree(rng, tree, budget, bigbudget):
    """yield (label, mutated tree) — deep copies"""
    muts = []
    big = []
    nstr = 0
    for p, f in walk(tree):
        if p[0] == 0 and len(p) == 2 and f['k'] == 'b':
            nstr += 1

    def mk(p, lab, fn):
        t = copy.deepcopy(tree)
        fn(at(t, p))
        muts.append((lab, t))

    for p, f in walk(tree):
        name = '.'.join(str(tree_tag(tree, p[:i + 1])) for i in range(len(p)))
        k = f['k']
        for w in range(8):
            if w != f['w']:
                mk(p, 'wt#%s=%d' % (name, w), lambda g, w=w: g.__setitem__('w', w))
        mk(p, 'drop#' + name, lambda g: g.__setitem__('drop', True))
        mk(p, 'dup#' + name, lambda g: g.__setitem__('dup', True))
        if k == 'v':
            for v in INTS:
                mk(p, 'v#%s=%d' % (name, v), lambda g, v=v: g.__setitem__('v', v))
            mk(p, 'v#%s=11bytes' % name, lambda g: g.__setitem__('raw', LONG11))
            mk(p, 'v#%s=trunc' % name, lambda g: g.__setitem__('raw', b'\x80'))
        else:
            ln = len(payload(f))
            for v in sorted(set([0, 1, max(ln - 1, 0), ln + 1, ln + 100, 2 ** 31 - 1, 2 ** 31, 2 ** 32 - 1, 2 ** 32, M64])):
                if v != ln:
                    mk(p, 'len#%s=%d' % (name, v), lambda g, v=v: g.__setitem__('len', v))
        if k == 'p':
            n = len(f['v'])
            idxs = sorted(set([0, n - 1] + [rng.below(n) for _ in range(2)])) if n else []
            for i in idxs:
                for v in sorted(set([0, 1, max(nstr - 1, 0), nstr, nstr + 1, 2 ** 31 - 1, 2 ** 31, 2 ** 32 - 1, 2 ** 32, M64, M64 - 1])):
                    mk(p, 'p#%s[%d]=%d' % (name, i, v), lambda g, i=i, v=v: g['v'].__setitem__(i, v))
            mk(p, 'p#%s-last' % name, lambda g: g.__setitem__('v', g['v'][:-1]))
            mk(p, 'p#%s-first' % name, lambda g: g.__setitem__('v', g['v'][1:]))
            mk(p, 'p#%s+one' % name, lambda g: g.__setitem__('v', g['v'] + [1]))
            mk(p, 'p#%s+zero' % name, lambda g: g.__setitem__('v', g['v'] + [0]))
            mk(p, 'p#%s=empty' % name, lambda g: g.__setitem__('v', []))
            mk(p, 'p#%s+trunc' % name, lambda g: g.__setitem__('tail', b'\x80'))
            mk(p, 'p#%s+11bytes' % name, lambda g: g.__setitem__('tail', LONG11))
            mk(p, 'p#%s*40' % name, lambda g: g.__setitem__('v', g['v'] * 40))
        if k == 'b':
            b = f['v']
            for i in range(len(b) + 1):
                mk(p, 'b#%s+nul@%d' % (name, i), lambda g, i=i: g.__setitem__('v', g['v'][:i] + b'\x00' + g['v'][i:]))
            mk(p, 'b#%s=empty' % name, lambda g: g.__setitem__('v', b''))
            mk(p, 'b#%s=ff' % name, lambda g: g.__setitem__('v', b'\xff' * 12 + g['v']))
            for L in (255, 256, 1023, 1024, 1025):
                mk(p, 'b#%s.grow=%d' % (name, L), lambda g, L=L: g.__setitem__('v', b'u' * L))
            for L in (65534, 65535, 65536, 70000):
                big.append((p, 'b#%s.grow=%d' % (name, L), L))
    if len(muts) > budget:
        rng.shuffle(muts)
        muts = muts[:budget]
    rng.shuffle(big)
    for p, lab, L in big[:bigbudget]:
        t = copy.deepcopy(tree)
        at(t, p)['v'] = b'u' * L
        muts.append((lab, t))
    return muts


def tree_tag(tree, p):
    return at(tree, p)['t']


def framing_mutations(rng, blobs):
    out = []
    full = ser_file(blobs)
    for which in range(len(blobs)):
        body = ser(blobs[which][1])
        hdrlen = len(ser([B(1, blobs[which][0]), V(3, len(ser([B(1, body)])))]))
        for v in (0, 1, hdrlen - 1, hdrlen + 1, 64 * 1024, 64 * 1024 + 1, 2 ** 31, 2 ** 32 - 1):
            out.append(('frame.hdrlen=%d' % v, ser_file(blobs, which=which, hdr_len=v)))
        bl = len(ser([B(1, body)]))
        for v in (0, 1, bl - 1, bl + 1, 32 * 1024 * 1024, 32 * 1024 * 1024 + 1, 2 ** 31 - 1, 2 ** 31, 2 ** 32 - 1, M64):
            out.append(('frame.datasize=%d' % v, ser_file(blobs, which=which, datasize=v)))
        for v in (0, 1, len(body) - 1, len(body) + 1, 32 * 1024 * 1024 + 1, 2 ** 31 - 1, 2 ** 31, 2 ** 32 - 1, M64):
            out.append(('frame.raw_size=%d' % v, ser_file(blobs, which=which, raw_size=v)))
            out.append(('frame.zlib.raw_size=%d' % v, ser_file(blobs, which=which, zl=True, raw_size=v)))
        out.append(('frame.zlib', ser_file(blobs, which=which, zl=True)))
        z = zlib.compress(body)
        for cut in (1, len(z) // 2, len(z) - 1):
            out.append(('frame.zlib.trunc', frame(blobs[which][0], b'', extra_blob=[V(2, len(body)), B(3, z[:cut])]) if which == 0 else
                        frame(blobs[0][0], ser(blobs[0][1])) + ser_blob_only(blobs[which][0], [V(2, len(body)), B(3, z[:cut])])))
        for t in (b'OSMData', b'OSMHeader', b'', b'Other', b'OSMHeader\x00'):
            if t != blobs[which][0]:
                out.append(('frame.type=%s' % t.decode('latin-1'), b''.join(frame(t if i == which else bt, ser(tr)) for i, (bt, tr) in enumerate(blobs))))
        out.append(('frame.both-raw-and-zlib', ser_file(blobs, which=which, extra_blob=[B(3, zlib.compress(body))])))
        out.append(('frame.lzma', ser_blob_file(blobs, which, [V(2, len(body)), B(4, body)])))
        out.append(('frame.lz4', ser_blob_file(blobs, which, [V(2, len(body)), B(6, body)])))
        out.append(('frame.zstd', ser_blob_file(blobs, which, [V(2, len(body)), B(7, body)])))
        out.append(('frame.noblobdata', ser_blob_file(blobs, which, [V(2, len(body))])))
        out.append(('frame.indexdata', ser_file(blobs, which=which, hdr_extra=[B(2, b'\x00' * 200)])))
    out.append(('frame.dup-header', frame(blobs[0][0], ser(blobs[0][1])) + full))
    out.append(('frame.no-header', b''.join(frame(t, ser(tr)) for t, tr in blobs[1:])))
    out.append(('frame.trailing', full + b'\x00\x00\x00'))
    return out


def ser_blob_only(btype, blob_fields):
    blob = ser(blob_fields)
    hdr = ser([B(1, btype), V(3, len(blob))])
    return len(hdr).to_bytes(4, 'big') + hdr + blob


def ser_blob_file(blobs, which, blob_fields):
    return b''.join(ser_blob_only(t, blob_fields) if i == which else frame(t, ser(tr)) for i, (t, tr) in enumerate(blobs))



# ---- documented domain limit of Model/PbfMsg.lean: packed arrays are decoded eagerly by the model and lazily
# (in lock step, only as far as the shortest array) by the C++.  Inputs with a packed field whose tail is not a
# well-formed varint are outside the model's domain when the C++ never reaches that tail.
PACKED_TAGS = {'node': {2, 3}, 'dense': {1, 8, 9, 10}, 'denseinfo': {1, 2, 3, 4, 5, 6}, 'way': {2, 3, 8, 9, 10}, 'relation': {2, 3, 8, 9, 10}}


def rd_fields(b):
    """[(tag, wt, value-or-payload)] or None"""
    out = []
    i = 0
    n = len(b)

    def varint(i):
        v = 0
        for k in range(10):
            if i >= n:
                return None, i
            c = b[i]
            i += 1
            v |= (c & 0x7f) << (7 * k)
            if c < 0x80:
                return v, i
        return None, i

    while i < n:
        key, i = varint(i)
        if key is None:
            return None
        wt = key & 7
        if wt == 0:
            v, i = varint(i)
            if v is None:
                return None
            out.append((key >> 3, 0, v))
        elif wt == 2:
            ln, i = varint(i)
            if ln is None or i + ln > n:
                return None
            out.append((key >> 3, 2, b[i:i + ln]))
            i += ln
        elif wt == 1:
            i += 8
        elif wt == 5:
            i += 4
        else:
            return None
    return out


def rd_fields_partial(b):
    """the fields that parse before the first malformed one"""
    lo, hi = 0, len(b)
    best = []
    # longest prefix ending at a field boundary: extend field by field
    i = 0
    while i < len(b):
        ok = None
        for j in range(i + 1, min(len(b), i + 12 + (1 << 20)) + 1):
            f = rd_fields(b[i:j])
            if f is not None and len(f) == 1:
                ok = (f[0], j)
                break
            if j - i > 11 and f is None:
                # need the payload: read the length and jump
                f2 = None
                k = i
                key = 0
                sh = 0
                while k < len(b) and k - i < 10:
                    c = b[k]
                    key |= (c & 0x7f) << sh
                    sh += 7
                    k += 1
                    if c < 0x80:
                        break
                if key & 7 == 2:
                    ln = 0
                    sh = 0
                    k2 = k
                    while k2 < len(b) and k2 - k < 10:
                        c = b[k2]
                        ln |= (c & 0x7f) << sh
                        sh += 7
                        k2 += 1
                        if c < 0x80:
                            break
                    j2 = k2 + ln
                    if j2 <= len(b):
                        f2 = rd_fields(b[i:j2])
                        if f2 is not None and len(f2) == 1:
                            ok = (f2[0], j2)
                break
        if ok is None:
            break
        best.append(ok[0])
        i = ok[1]
    return best


def packed_ok(b):
    i = 0
    while i < len(b):
        k = 0
        while True:
            if i >= len(b) or k >= 10:
                return False
            c = b[i]
            i += 1
            k += 1
            if c < 0x80:
                break
    return True


def lazy_tail(data):
    """True iff some packed field of some raw data blob has a malformed varint tail"""
    i = 0
    first = True
    try:
        while i + 4 <= len(data):
            hl = int.from_bytes(data[i:i + 4], 'big')
            hdr = rd_fields(data[i + 4:i + 4 + hl])
            if hdr is None:
                return False
            ds = [v for t, w, v in hdr if t == 3 and w == 0]
            if not ds:
                return False
            blob = data[i + 4 + hl:i + 4 + hl + ds[-1]]
            i += 4 + hl + ds[-1]
            if first:
                first = False
                continue
            bf = rd_fields(blob)
            if bf is None:
                # decode_blob returns at the first `raw` field; the model parses all fields of the Blob first
                return any(t == 1 and w == 2 for t, w, _ in rd_fields_partial(blob))
            for t, w, raw in bf:
                if t == 1 and w == 2:
                    blk = rd_fields(raw) or []
                    for t2, w2, grp in blk:
                        if t2 == 2 and w2 == 2:
                            for t3, w3, msg in (rd_fields(grp) or []):
                                if w3 != 2:
                                    continue
                                kind = {1: 'node', 2: 'dense', 3: 'way', 4: 'relation'}.get(t3)
                                if not kind:
                                    continue
                                for t4, w4, pl in (rd_fields(msg) or []):
                                    if w4 == 2 and t4 in PACKED_TAGS[kind] and not packed_ok(pl):
                                        return True
                                    if kind == 'dense' and t4 == 5 and w4 == 2:
                                        for t5, w5, pl5 in (rd_fields(pl) or []):
                                            if w5 == 2 and t5 in PACKED_TAGS['denseinfo'] and not packed_ok(pl5):
                                                return True
    except Exception:
        return False
    return False


# ---- item size > 4 GiB -------------------------------------------------------------------------------------
# A PrimitiveBlock of at most 32 MiB may reference the same two 1024-byte strings millions of times: one node
# with N tags becomes an item of 8 + N * 2050 bytes.  Item sizes are 32 bit (`item_size_type`); the theorems of
# Props/C03Pbf.lean carry exactly this premise (`objSize … < 2^32`).  Probe: N = 2 100 000 (4.3 GB object) from a
# 4 KiB file with a zlib blob, on a build WITHOUT sanitizers (ASan refuses allocations of that size and aborts
# in operator new — an artefact of the tool), guarded walk as the monitor.  Needs ~9 GB of memory for ~10 s.
BIG_TAGS = 2096000


def big_item_file():
    strings = [b'', b'k' * 1024, b'v' * 1024]
    node = M(1, [S(1, 1), B(2, b'\x01' * BIG_TAGS), B(3, b'\x02' * BIG_TAGS), S(8, 10), S(9, 20)])
    block = [M(1, [B(1, s) for s in strings]), M(2, [node])]
    return frame(b'OSMHeader', ser([B(4, b'OsmSchema-V0.6')])) + frame(b'OSMData', ser(block), zl=True)


def mem_available_gb():
    try:
        with open('/proc/meminfo') as fh:
            for l in fh:
                if l.startswith('MemAvailable:'):
                    return int(l.split()[1]) / 1048576.0
    except OSError:
        pass
    return 0.0


def start_big_item_probe(ctx):
    """runs in a thread next to the hostile tier; returns a function that joins it and reports"""
    import threading
    import vlib
    state = {}
    need = 12.0
    avail = mem_available_gb()
    if avail < need:
        ctx.count('pbf-big-item-probe:skipped-memory')
        ctx.assumptions.append('pbf item-size probe (object > 4 GiB) SKIPPED: %.1f GB of memory available, %.0f GB wanted' % (avail, need))
        return lambda: None
    hbin, err = vlib.build_cpp('c03_plain_n', ['c03.cpp'], asan=False, ndebug=True, flags=['-fno-access-control'])
    if hbin is None:
        ctx.violation('c03-harness-build', 'plain hostile harness does not compile: ' + err[-600:], {'kind': 'harness-build', 'stderr': err}, found_input=False)
        return lambda: None
    data = big_item_file()
    line = 'rdbig 0 pbf none 7 ' + data.hex()

    def work():
        try:
            state['res'] = _run_chunk(hbin, [line])
        except Exception as e:      # noqa: BLE001
            state['exc'] = repr(e)

    th = threading.Thread(target=work)
    th.start()

    def finish():
        th.join()
        ctx.note_case(line)
        if 'exc' in state:
            raise RuntimeError('big item probe failed: ' + state['exc'])
        rc, outs, se = state['res']
        out = outs[0] if outs else None
        ctx.count('pbf-big-item-probe:%s' % (out.split(' ')[0][:40] if out else 'rc%s' % rc))
        ctx.extra['pbf_big_item_probe'] = {'file_bytes': len(data), 'tags': BIG_TAGS, 'object_bytes': 8 + BIG_TAGS * 2050, 'outcome': (out or 'rc%s' % rc)[:80]}
        if out is not None and out.startswith('err:'):
            return          # refused with an exception (std::length_error after the repair, std::bad_alloc on small machines)
        what = ('PBF file of %d bytes (zlib blob; one node with %d tags that reference two 1024-byte strings): the builders write an item of '
                '%d bytes, its 32-bit size field (Item::add_size via Builder::add_size, no overflow check) wraps and the real Reader '
                '(build without sanitizers, -DNDEBUG) delivers the object; guarded walk: `%s`%s — the object cannot be traversed inside its item '
                '(the premise `objSize < 2^32` of pbf_decoded_objects_wf is not established by the code)'
                % (len(data), BIG_TAGS, 8 + BIG_TAGS * 2050, out, '' if out else ' rc %s %s' % (rc, se[-300:])))
        ctx.violation('pbf-item-size-32bit-wrap', what,
                      {'kind': 'counterexample', 'op': line, 'impl': (out or '')[:300], 'rc': rc, 'stderr': se[-2000:],
                       'replay': 'echo "<op>" | <harness/c03.cpp built with -DNDEBUG, no sanitizers>; needs ~9 GB of memory',
                       'proposed_fix': '/verif/.build/proposed_fixes/C03-item-size-32bit-wrap.diff'})

    return finish


def model_classes(ctx, datas, modelled):
    """model_pbf dec -> 'ok' / 'err' (None where not modelled)"""
    idx = [i for i, d in enumerate(datas) if modelled[i]]
    lines = ['dec N1W1R1M1 %s' % (datas[i].hex() or '-') for i in idx]
    res = [None] * len(datas)
    if not lines:
        return res
    exe = ctx.model_exe('model_pbf')
    nchunks = 14
    size = (len(lines) + nchunks - 1) // nchunks

    def work(lo):
        rc, outs, se = ctx.run_lines([exe], '\n'.join(lines[lo:lo + size]) + '\n')
        return lo, rc, outs, se

    with concurrent.futures.ThreadPoolExecutor(max_workers=nchunks) as ex:
        for lo, rc, outs, se in ex.map(work, range(0, len(lines), size)):
            if rc != 0 or len(outs) != len(lines[lo:lo + size]):
                raise RuntimeError('model_pbf failed: rc %s, %d of %d lines; %s' % (rc, len(outs), len(lines[lo:lo + size]), se[-300:]))
            for k, o in enumerate(outs):
                res[idx[lo + k]] = 'ok' if o.startswith('ok') else ('err' if o.startswith('err') else 'model:' + o[:20])
    return res


def has_compressed_blob(label):
    return 'zlib' in label or 'lz4' in label or 'lzma' in label or 'zstd' in label


def run_part(ctx):
    rng = ctx.rng
    quick = ctx.tier == 'quick'
    tick(ctx, 'pbf:generate')
    ctx.assumptions.append('pbf hostile tier: memory safety of the COMPILED code is established only for the inputs run (sanitizers), not proved; '
                           'UBSan without signed-integer-overflow (delta decoding wraps by design); zlib/lz4/protozero/allocator internals are outside the model')
    builds = build_harnesses(ctx)
    if builds is None:
        return
    if not ctx.exe_build_ok:
        ctx.violation('pbf-model-driver-build', 'model_pbf / model_c03 do not build', {'kind': 'broken-correspondence'}, found_input=False)
        return
    finish_big = start_big_item_probe(ctx)
    inputs = []
    modelled = {}
    probes = {}
    corpus_dir = os.path.join(os.path.dirname(os.path.dirname(os.path.dirname(os.path.abspath(__file__)))), 'corpus', 'C03')
    if os.path.isdir(corpus_dir):
        for fn in sorted(os.listdir(corpus_dir)):
            if fn.startswith('pbf') and fn.endswith('.ops'):
                with open(os.path.join(corpus_dir, fn)) as fh:
                    for l in fh:
                        l = l.strip()
                        if l and not l.startswith('#'):
                            w = l.split(' ', 2)
                            d = bytes.fromhex(w[0]) if w[0] != '-' else b''
                            inputs.append(('corpus:' + fn, d))
                            if len(w) == 3:
                                probes[d] = (w[1], w[2])
    nbase = 14 if quick else 80
    budget = 420 if quick else 1500
    for k in range(nbase):
        blobs = gen_file(rng)
        data = ser_file(blobs)
        inputs.append(('valid', data))
        if len(data) <= 700:
            for n in range(len(data)):
                inputs.append(('prefix', data[:n]))
        else:
            for _ in range(200):
                inputs.append(('prefix', data[:rng.below(len(data))]))
        inputs += byte_mutations(rng, data, 60 if quick else 300)
        for bi, (bt, tree) in enumerate(blobs):
            for lab, t in mutate_tree(rng, tree, budget if bi else budget // 4, 1 if quick else 6):
                nb = list(blobs)
                nb[bi] = (bt, t)
                inputs.append((('H.' if bi == 0 else 'B.') + lab, ser_file(nb)))
        for lab, d in framing_mutations(rng, blobs):
            inputs.append((lab, d))
            if has_compressed_blob(lab):
                modelled[d] = False
    # files from the real Writer (zlib/lz4 blobs, dense/non-dense, metadata variants): prefixes + byte mutations
    wopts = ['pbf_compression=none', 'pbf_dense_nodes=false,pbf_compression=none', '', 'add_metadata=false']
    if not quick:
        wopts = (wopts + ['pbf_compression=zlib,pbf_compression_level=9', 'pbf_compression=none,history=true', 'pbf_compression=none,locations_on_ways=true']) * 3
    wspecs = [(6 + rng.below(10), rng.below(2 ** 30), o) for o in wopts]
    real = gen_real(ctx, builds[0][2], 'pbf', wspecs)
    if len(real) != len(wspecs):
        raise RuntimeError('gen failed: %d of %d files' % (len(real), len(wspecs)))
    for (_, _, o), data in zip(wspecs, real):
        raw = 'pbf_compression=none' in o
        fam = [('writer', data)]
        for _ in range(60 if quick else 300):
            fam.append(('writer-prefix', data[:rng.below(len(data))]))
        fam += [('writer-' + l, d) for l, d in byte_mutations(rng, data, 60 if quick else 400)]
        for lab, d in fam:
            inputs.append((lab, d))
            if not raw:
                modelled[d] = False

    def model_fn(datas):
        return model_classes(ctx, datas, [modelled.get(d, True) for d in datas])

    def outside(d, mod, cls, out):
        return 'lazy-decoding' if mod == 'err' and cls == 'ok' and lazy_tail(d) else None

    pin, pouts = hostile_run(ctx, 'pbf', 'pbf', builds, inputs, model_fn, types=7, probes=probes, comp_sample=40 if quick else 400, outside_model=outside)
    smallbuf_run(ctx, 'pbf', 'pbf', pin, pouts, 7, select=structure_label, share=2 if quick else None)
    tick(ctx, 'pbf:big-item-probe')
    finish_big()
    tick(ctx, 'pbf:done')
