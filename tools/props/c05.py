"""C05 — Reader delivers each selected object exactly once and in file order (DESIGN.md §3 C05).

1. proof stage: lean/Osmium/Props/C05.lean — the queue-of-futures invariant over ALL scheduler
   steps of the pipeline machine (Model/Pipeline.lean on top of Mon/QueueSM), corollaries.
2. direct monitors on the implementation (harness/c05.cpp = the REAL Reader under real threads):
   the sequence of canonical object dumps the consumer receives equals the single-threaded
   decode of the same bytes (parser run on one thread, no pool, no Reader), filtered by the
   entity mask, modulo metadata when read_meta::no — over pool sizes, queue sizes, pool
   on/off for PBF, buffers_type, all 16 masks, chunkings, memory/file input, four formats,
   nested buffers (tiny initial buffer sizes), seeded schedule perturbation.
3. trace validation: the lock-granular event trace of the run (OSMIUM_VERIF_POINT hooks of both
   queues + the pool, decompressor calls, API calls/results) is completed to model events
   (`complete_trace`) and replayed by the compiled model (lean/Driver/C05.lean): every event
   must be an enabled transition of Pipeline with the same payload.

4. mixed-type PrimitiveBlocks (`mixed_pass`): PBF files from the Lean specification encoder
   (Model/PbfMixed.lean) whose PrimitiveBlocks hold several PrimitiveGroups of different types in
   every order (dense and plain node groups side by side, plain nodes behind ways, zlib twins,
   garbage inside one group) x all 8 n/w/r masks (+ changeset bit) x read_meta x pool parsing
   on/off: monitor = mask-filtered single-threaded read of all types (= the described objects),
   correspondence = the model decoder `Pbf.decodeFile` run with the SAME mask on the same bytes
   (Props/C05.lean `pbf_block_mask_is_filter` …; seed C05-3).

5. scale (`scale_pass`, seed C05-6): resource use must not grow with the number of blocks / buffers
   that deliver nothing.  PBF files with 2 000 - 20 000 (thorough: 200 000) CONSECUTIVE one-object
   blocks of a type the mask excludes (leading, in the middle, trailing up to the end of the file, the
   whole file, two runs, unsorted type order, alternating) synthesized in the harness (`defcat`) from
   blocks written by the real Writer; a parser that queues thousands of valid buffers without data and
   buffers nested 1 000 - 10 000 deep (mock parser `z<n>`, `n<k>`); one PBF block decoded into > 1 000
   nested buffers (complete and abandoned reads); long runs of unselected objects in XML / OPL / o5m.
   The thread that calls Reader::read() runs on a painted 64-256 KiB stack with a guard page
   (`stack=`), the library's threads get 64-128 KiB (C05_THREAD_STACK_KB) — shrinking the resource
   makes the dimension cheap.  Monitors: delivered sequence = mask-filtered file order, end marker,
   failing reads after it, no crash / kill of the child (reported with the scenario line), the stack
   high-water mark of the reading thread does not depend on the run length.  Props/C05.lean
   `read_skips_any_number_of_empty_buffers` … state what the MODEL says (no state per skipped
   buffer); the machine stack is outside the model and is covered by this pass.

Regression probes with stable keys (both defects were found by this check and are fixed in /repo,
KNOWN_FINDINGS.txt `fixed:` f1844ef, 2856666; verified to fire again on a copy with the fix reverted):
`o5m-entity-mask-wrong-objects` (o5m files WITHOUT a Reset between the type sections under every
entity mask: wrong ids/strings or "reference to non-existing string"), `single-buffer-mixed-types:opl`
(OPL file with ways directly followed by changesets, buffers_type::single).

This module also holds what C07 (tools/props/c07.py) shares: harness build, process runner,
block parser, file generation, the o5m encoder, trace completion.
"""
import binascii
import os
import re
import subprocess
import time

import vlib
from props import c06

HARNESS_FLAGS = ['-fno-access-control', '-DOSMIUM_VERIF_PARSER_INITIAL_BUFFER_SIZE=256', '-DOSMIUM_VERIF_PBF_INITIAL_BUFFER_SIZE=256']
TYPE_BIT = {'n': 1, 'w': 2, 'r': 4, 'c': 8}


def hx(b):
    return binascii.hexlify(bytes(b)).decode() or '-'


# ------------------------------------------------------------------------------------------
# o5m encoder with string-table references, metadata, relations (independent of the reader;
# written from the format description https://wiki.openstreetmap.org/wiki/O5m)
# ------------------------------------------------------------------------------------------
class O5mEncoder:
    def __init__(self):
        self.out = bytearray(b'\xff\xe0\x04o5m2')
        self.offsets = []          # byte offset at which each object's dataset ENDS
        self.reset_state()

    def reset_state(self):
        self.table = []            # most recent first
        self.d_id = self.d_ts = self.d_cs = self.d_lon = self.d_lat = self.d_wn = 0
        self.d_mem = [0, 0, 0]

    def reset(self):
        self.out += b'\xff'
        self.reset_state()

    def string(self, raw):
        """raw = the bytes of the string pair as stored in the table"""
        if raw in self.table[:15000]:
            return c06.varint(self.table.index(raw) + 1)
        if len(raw) <= 252:
            self.table.insert(0, raw)
            del self.table[15000:]
        return b'\x00' + raw

    def info(self, version, ts, cs, uid, user):
        if version == 0:
            return b'\x00'
        p = c06.varint(version) + c06.zz(ts - self.d_ts)
        self.d_ts = ts
        if ts != 0:
            p += c06.zz(cs - self.d_cs)
            self.d_cs = cs
            if uid == 0:
                p += self.string(b'\x00\x00')
            else:
                p += self.string(c06.varint(uid) + b'\x00' + user + b'\x00')
        return p

    def tags(self, tags):
        return b''.join(self.string(k + b'\x00' + v + b'\x00') for k, v in tags)

    def dataset(self, t, p):
        self.out += bytes([t]) + c06.varint(len(p)) + p
        self.offsets.append(len(self.out))

    def node(self, oid, meta, lon, lat, tags):
        p = c06.zz(oid - self.d_id)
        self.d_id = oid
        p += self.info(*meta) + c06.zz(lon - self.d_lon) + c06.zz(lat - self.d_lat) + self.tags(tags)
        self.d_lon, self.d_lat = lon, lat
        self.dataset(0x10, p)

    def way(self, oid, meta, refs, tags):
        p = c06.zz(oid - self.d_id)
        self.d_id = oid
        p += self.info(*meta)
        r = b''
        for x in refs:
            r += c06.zz(x - self.d_wn)
            self.d_wn = x
        p += c06.varint(len(r)) + r + self.tags(tags)
        self.dataset(0x11, p)

    def relation(self, oid, meta, members, tags):
        p = c06.zz(oid - self.d_id)
        self.d_id = oid
        p += self.info(*meta)
        r = b''
        for (mt, ref, role) in members:
            r += c06.zz(ref - self.d_mem[mt])
            self.d_mem[mt] = ref
            r += self.string(bytes([0x30 + mt]) + role + b'\x00')
        p += c06.varint(len(r)) + r + self.tags(tags)
        self.dataset(0x12, p)

    def finish(self):
        self.out += b'\xfe'
        return bytes(self.out)


def o5m_gen(rng, n, order, resets):
    """n objects in sections given by `order` (n/w/r); `resets`: a Reset (0xff) between the type
    sections (as osmconvert writes them) or none (legal, the format does not require them)."""
    enc = O5mEncoder()
    keys = [b'highway', b'name', b'k=v', b'a b', b'ref', b'building', b'yes']
    users = [b'user0', b'user1', b'user2']
    oid = 100
    for s, kind in enumerate(order):
        if s > 0 and resets:
            enc.reset()
        cnt = n // len(order) + (1 if s < n % len(order) else 0)
        for _ in range(cnt):
            oid += 1 + rng.below(3)
            uid = rng.below(4)
            meta = (1 + rng.below(3), 1000000 + rng.below(100000), 1 + rng.below(1000), uid, users[uid - 1] if uid else b'') \
                if rng.chance(5, 6) else (0, 0, 0, 0, b'')
            tags = [(rng.choice(keys), rng.choice(keys)) for _ in range(rng.below(4))]
            if kind == 'n':
                enc.node(oid, meta, rng.below(3600000001) - 1800000000, rng.below(1800000001) - 900000000, tags)
            elif kind == 'w':
                enc.way(oid, meta, [1 + rng.below(100) for _ in range(1 + rng.below(5))], tags)
            else:
                enc.relation(oid, meta, [(rng.below(3), 1 + rng.below(100), rng.choice(keys)) for _ in range(rng.below(4))], tags)
    return enc.finish(), list(enc.offsets)


# ------------------------------------------------------------------------------------------
# PBF framing helpers (blobs of a file written by the real Writer; used to build multi-block
# files by concatenation and to corrupt the n-th block)
# ------------------------------------------------------------------------------------------
def pb_walk(b, s, e):
    """fields of the protobuf message b[s:e]: (tag, wire type, payload start, payload end, varint value)"""
    out = []
    i = s
    while i < e:
        key = 0
        sh = 0
        while True:
            c = b[i]
            i += 1
            key |= (c & 0x7f) << sh
            sh += 7
            if c < 0x80:
                break
        wt = key & 7
        if wt == 0:
            a = i
            v = 0
            sh = 0
            while True:
                c = b[i]
                i += 1
                v |= (c & 0x7f) << sh
                sh += 7
                if c < 0x80:
                    break
            out.append((key >> 3, 0, a, i, v))
        elif wt == 1:
            out.append((key >> 3, 1, i, i + 8, None))
            i += 8
        elif wt == 5:
            out.append((key >> 3, 5, i, i + 4, None))
            i += 4
        else:
            ln = 0
            sh = 0
            while True:
                c = b[i]
                i += 1
                ln |= (c & 0x7f) << sh
                sh += 7
                if c < 0x80:
                    break
            out.append((key >> 3, 2, i, i + ln, None))
            i += ln
    return out


def pbf_blobs(data):
    """[(start, end)] of every BlobHeader-length + BlobHeader + Blob record"""
    out = []
    p = 0
    while p + 4 <= len(data):
        hl = int.from_bytes(data[p:p + 4], 'big')
        ds = ([f[4] for f in pb_walk(data, p + 4, p + 4 + hl) if f[0] == 3 and f[1] == 0] or [0])[-1]   # BlobHeader.datasize
        end = p + 4 + hl + ds
        out.append((p, end))
        p = end
    return out


def pbf_concat(files):
    """header blob of the first file + the data blobs of all files"""
    first = files[0]
    bl = pbf_blobs(first)
    out = bytearray(first[:bl[0][1]])
    for f in files:
        b = pbf_blobs(f)
        out += f[b[0][1]:]
    return bytes(out)


def corrupt_pbf_block(data, n):
    """damage the n-th data blob (0-based; blob 0 of the file is the header blob) so that every decoder must
    reject it (same damage as tools/props/c07.py: a raw blob gets a `raw` length far behind its end — flipped
    bytes in a raw PrimitiveBlock could leave a VALID block —, a zlib blob gets flipped bytes in the second half
    of the record: deflate stream / Adler-32)"""
    bl = pbf_blobs(data)
    if n + 1 >= len(bl):
        return None
    s, e = bl[n + 1]
    b = bytearray(data)
    blob = s + 4 + int.from_bytes(data[s:s + 4], 'big')
    if data[blob] == 0x0a and blob + 6 <= e:
        b[blob + 1:blob + 6] = b'\xff\xff\xff\xff\x0f'
        return bytes(b)
    for q in range(s + (e - s) // 2, min(e, s + (e - s) // 2 + 6)):
        b[q] ^= 0xff
    return bytes(b)


def add_blob_fault_files(files):
    """PBF files whose n-th data blob cannot be decoded (Props/C05.lean `delivered_before_fault`,
    `faulty_blob_delivers_prefix_then_error`): 'ref' = the single-threaded decode of the blobs BEFORE it."""
    out = {}
    for name, f in files.items():
        if f['fmt'] != 'pbf' or 'blob_counts' not in f or len(f['blob_counts']) < 2:
            continue
        nb = len(f['blob_counts'])
        for n in sorted({0, nb // 2, nb - 1}):
            c = corrupt_pbf_block(f['bytes'], n)
            if c is None:
                continue
            before = sum(f['blob_counts'][:n])
            out['%s_cb%d' % (name, n)] = {'fmt': 'pbf', 'kind': 'corrupt-blob', 'bytes': c, 'base': name, 'fault': 'corrupt-blob',
                                          'nblob': n, 'nblobs': nb, 'ref': f['ref'][:before], 'refhdr': f.get('refhdr')}
    files.update(out)
    return sorted(out)


def blob_fault_scenarios(rng, files, names, quick):
    """complete reads (k=-1: read until eof or exception) of the files of add_blob_fault_files"""
    out = []
    for name in names:
        n = len(files[name]['bytes'])
        for _ in range(1):
            out.append(scen(fmt='pbf', data=name, src=rng.choice(['mem', 'mem', 'file']), cuts=cuts_for(rng, n, rng.choice(['none', 'fixed', 'random'])),
                            mask=rng.choice([15, 15, 7, 3, 5, 6, 1, 2, 4]), meta=rng.choice([1, 1, 0]), bt=rng.choice(['any', 'single']),
                            pool=rng.choice([0, 0, 1, 2, 3, 8]), hdr=rng.choice([0, 1, 2]), k=-1, stop=rng.choice(['close', 'dtor']),
                            pl=rng.choice([0, 1, 2, 3]), ps=1 + rng.below(1000000), trace=0))
    return out


# ------------------------------------------------------------------------------------------
# harness process handling
# ------------------------------------------------------------------------------------------
class Block:
    def __init__(self, line):
        self.line = line
        self.kv = dict(w.split('=', 1) for w in line.split()[1:] if '=' in w)
        self.events = []   # (tid, tag, qid, arg, payload|None)
        self.api = []      # (call, result words)
        self.bufs = []     # (serial, from, [dumps])
        self.header = None
        self.mon = []      # (name, ok, detail)
        self.obs = {}
        self.end = None
        self.env = {}

    def objects(self):
        return [d for _, _, ds in self.bufs for d in ds]


def parse_blocks(text):
    blocks = []
    cur = None
    for l in text.split('\n'):
        if l.startswith('BEGIN '):
            cur = Block(l[6:])
            blocks.append(cur)
        elif cur is None:
            continue
        elif l.startswith('E '):
            w = l.split()
            cur.events.append((int(w[1]), w[2], int(w[3]), int(w[4]), None if w[5] == '-' else int(w[5])))
        elif l.startswith('A '):
            w = l.split()
            cur.api.append((w[1], w[2:]))
        elif l.startswith('B '):
            w = l.split(' ', 3)
            cur.bufs.append((int(w[1]), w[2], [] if w[3] == '-' else w[3].split('|')))
        elif l.startswith('H '):
            cur.header = l[2:]
        elif l.startswith('MON '):
            w = l.split(' ', 3)
            cur.mon.append((w[1], w[2] == 'ok', w[3] if len(w) > 3 else ''))
        elif l.startswith('OBS '):
            cur.obs.update(dict(x.split('=', 1) for x in l.split()[1:] if '=' in x))
        elif l.startswith('END '):
            cur.end = l[4:].strip()
    return blocks


def build_harness(ctx, name):
    hbin, err = vlib.build_cpp(name, ['c05.cpp'], flags=HARNESS_FLAGS)
    if hbin is None:
        ctx.violation('harness-build', 'harness does not compile against the current tree: ' + err[-600:],
                      {'kind': 'harness-build', 'stderr': err}, found_input=False)
    return hbin


ENV_KEYS = ('OSMIUM_POOL_THREADS', 'OSMIUM_MAX_INPUT_QUEUE_SIZE', 'OSMIUM_MAX_OSMDATA_QUEUE_SIZE', 'OSMIUM_MAX_WORK_QUEUE_SIZE',
            'OSMIUM_USE_POOL_THREADS_FOR_PBF_PARSING')


def clean_env(extra):
    e = {k: v for k, v in os.environ.items() if k not in ENV_KEYS and k != 'OSMIUM_CLEAN_PAGE_CACHE_AFTER_READ'}
    e.update(extra)
    return e


def run_process(hbin, scratch, env, defs, scenarios, max_failures=1):
    """One harness process per environment: `defs` (def lines) then the scenarios.  A watchdog
    exit (code 3) or crash ends the process; the remaining scenarios are re-run in a fresh one.
    Returns the list of Blocks."""
    blocks = []
    todo = list(scenarios)
    failures = 0
    while todo:
        text = '\n'.join(defs + todo) + '\n'
        p = subprocess.run([hbin, scratch], input=text, stdout=subprocess.PIPE, stderr=subprocess.PIPE, text=True, env=clean_env(env))
        got = parse_blocks(p.stdout)
        for b in got:
            b.env = dict(env)
        blocks.extend(got)
        if p.returncode == 0 and len(got) == len(todo):
            break
        failures += 1
        if got and got[-1].end is None:
            got[-1].end = 'crash rc=%d %s' % (p.returncode, p.stderr[-300:].replace('\n', ' '))
        if not got:
            b = Block(todo[0][4:] if todo[0].startswith('run ') else todo[0])
            b.env = dict(env)
            b.end = 'crash rc=%d %s' % (p.returncode, p.stderr[-300:].replace('\n', ' '))
            blocks.append(b)
            got = [b]
        todo = todo[len(got):]
        if failures >= max_failures:
            break
    return blocks


def gen_files(ctx, hbin, scratch, rng, quick):
    """Returns dict name -> {'fmt', 'bytes', 'kind', 'ref': [dumps], 'refhdr', ...} for all test files."""
    files = {}
    gen_ops = []
    nobj = 20

    def g(name, fmt, n, idbase, order, *opts):
        gen_ops.append('gen %s %s %d %d %d %s%s' % (name, fmt, n, rng.below(1 << 30), idbase, order, ''.join(' ' + o for o in opts)))
        files[name] = {'fmt': fmt, 'kind': order}

    g('opl1', 'opl', nobj, 100, 'nwrc')
    g('opl2', 'opl', 12, 100, 'nwc')          # ways directly followed by changesets
    g('opl3', 'opl', 16, 100, 'wnrn')         # not sorted by type
    g('xml1', 'xml', nobj, 100, 'nwrc')
    g('xml2', 'xml', 14, 100, 'rwn')
    # upper-case letter: the first object of that section is larger than the hooked 256-byte initial
    # buffer, so the parser's buffer must grow while nothing is committed yet (seed C05-1)
    g('opl5', 'opl', 9, 100, 'Wnr')
    g('xml4', 'xml', 9, 100, 'Rwn')
    if not quick:
        g('opl4', 'opl', 60, 100, 'nwrc')
        g('xml3', 'xml', 60, 100, 'nwrc')
    # PBF: several small files, concatenated block-wise below
    pbf_parts = {'pbfA': [], 'pbfB': [], 'pbfC': [], 'pbfD': [], 'pbfE': []}
    # blocks with many objects of one type: the decoder's 256-byte buffer nests several times per block
    g('pD0', 'pbf', 12, 100, 'n', 'pbf_dense_nodes=false')
    g('pD1', 'pbf', 10, 300, 'w')
    g('pD2', 'pbf', 9, 500, 'r', 'pbf_compression=none')
    pbf_parts['pbfD'] = ['pD0', 'pD1', 'pD2']
    # blocks whose FIRST object is larger than the decoder's (hooked) initial buffer, followed by more blocks
    g('pE0', 'pbf', 6, 100, 'N', 'pbf_dense_nodes=false')
    g('pE1', 'pbf', 6, 300, 'W')
    g('pE2', 'pbf', 6, 500, 'R', 'pbf_compression=none')
    g('pE3', 'pbf', 5, 700, 'n')
    pbf_parts['pbfE'] = ['pE0', 'pE1', 'pE2', 'pE3']
    for i in range(4):
        g('pA%d' % i, 'pbf', 7, 100 + 100 * i, 'nwr')
        pbf_parts['pbfA'].append('pA%d' % i)
    for i in range(3):
        g('pB%d' % i, 'pbf', 8, 100 + 100 * i, 'nwr', 'pbf_dense_nodes=false', 'pbf_compression=none')
        pbf_parts['pbfB'].append('pB%d' % i)
    for i in range(2 if quick else 12):
        g('pC%d' % i, 'pbf', 9, 100 + 100 * i, 'wnr', 'pbf_compression=zlib')
        pbf_parts['pbfC'].append('pC%d' % i)
    rc, out, se = ctx.run_lines([hbin, scratch], '\n'.join(gen_ops) + '\n', env=clean_env({}))
    got = {}
    for l in out:
        w = l.split()
        if len(w) == 3 and w[0] == 'gen':
            got[w[1]] = bytes.fromhex(w[2]) if w[2] != '-' else b''
    if rc != 0 or len(got) != len(gen_ops):
        ctx.violation('gen-failed', 'the real Writer failed to produce the test files: rc=%d %s %s' % (rc, out[-1:] and out[-1][:200], se[-300:]),
                      {'kind': 'harness'}, found_input=False)
        return None
    for name, b in got.items():
        files[name]['bytes'] = b
    for name, parts in pbf_parts.items():
        files[name] = {'fmt': 'pbf', 'kind': 'concat%d' % len(parts), 'bytes': pbf_concat([files[p]['bytes'] for p in parts])}
        for p in parts:
            del files[p]
    # o5m: the C06 encoder (no metadata, inline strings) and the encoder above (references, metadata, relations)
    d, _ = c06.o5m_file(rng, 8, 6)
    files['o5mA'] = {'fmt': 'o5m', 'kind': 'c06-noreset', 'bytes': d, 'noreset': True}
    d, offs = o5m_gen(rng, 18, 'nwr', resets=True)
    files['o5mB'] = {'fmt': 'o5m', 'kind': 'reset-between-sections', 'bytes': d, 'noreset': False, 'ends': offs}
    d, offs = o5m_gen(rng, 18, 'nwr', resets=False)
    files['o5mC'] = {'fmt': 'o5m', 'kind': 'no-reset-between-sections', 'bytes': d, 'noreset': True, 'ends': offs}
    d, offs = o5m_gen(rng, 3, 'nw', resets=False)
    files['o5mD'] = {'fmt': 'o5m', 'kind': 'no-reset-between-sections-minimal', 'bytes': d, 'noreset': True, 'ends': offs}
    return files


def reference_decode(ctx, hbin, scratch, files, per_blob=True):
    """Single-threaded decode of every file: parser on one thread, no pool, no Reader."""
    lines = []
    for name, f in files.items():
        lines.append('def %s %s' % (name, hx(f['bytes'])))
        lines.append('ref %s %s' % (name, f['fmt']))
    rc, out, se = ctx.run_lines([hbin, scratch], '\n'.join(lines) + '\n', env=clean_env({'OSMIUM_USE_POOL_THREADS_FOR_PBF_PARSING': 'off'}))
    names = list(files)
    k = -1
    for l in out:
        if l.startswith('def '):
            k += 1
            files[names[k]]['ref'] = []
            files[names[k]]['refhdr'] = None
            files[names[k]]['referr'] = None
        elif l.startswith('ref O '):
            files[names[k]]['ref'].append(l[6:])
        elif l.startswith('ref H '):
            files[names[k]]['refhdr'] = l[6:]
        elif l.startswith('ref-error'):
            files[names[k]]['referr'] = l
    bad = [n for n in names if files[n].get('referr') or files[n].get('ref') is None]
    if rc != 0 or k != len(names) - 1 or bad:
        ctx.violation('reference-decode-failed', 'single-threaded reference decode failed: rc=%d %s %s'
                      % (rc, [files[n].get('referr') for n in bad][:3], se[-300:]), {'kind': 'harness'}, found_input=False)
        return False
    if not per_blob:
        return True
    # objects per PBF data blob (for the model's blob structure): decode header blob + blob i alone
    lines = []
    owners = []
    for name, f in files.items():
        if f['fmt'] != 'pbf' or len(f['bytes']) > 20000:
            continue
        bl = pbf_blobs(f['bytes'])
        for i, (s, e) in enumerate(bl[1:]):
            lines.append('def x %s' % hx(f['bytes'][:bl[0][1]] + f['bytes'][s:e]))
            lines.append('ref x pbf')
            owners.append(name)
        f['blob_counts'] = []
    if lines:
        rc, out, se = ctx.run_lines([hbin, scratch], '\n'.join(lines) + '\n', env=clean_env({'OSMIUM_USE_POOL_THREADS_FOR_PBF_PARSING': 'off'}))
        ends = [l for l in out if l.startswith('ref END')]
        if rc == 0 and len(ends) == len(owners):
            for name, l in zip(owners, ends):
                files[name]['blob_counts'].append(int(l.split()[2]))
        for name in set(owners):
            if sum(files[name]['blob_counts']) != len(files[name]['ref']):
                del files[name]['blob_counts']
    return True


META_RE = re.compile(r'^([nwr] -?\d+) v\d+ ([VD]) t\d+ c\d+ u\d+ \S+')


def strip_meta(d):
    """what read_meta::no leaves of an object dump: version, timestamp, changeset, uid, user AND the visible flag
    are metadata (PBF keeps `visible` in the Info / DenseInfo message that read_meta::no skips; XML does not look at
    the attribute): a deleted object of a history file comes back visible.  Same definition as C01 (`project`)."""
    return META_RE.sub(r'\1 V', d)


def meta_default_or_equal(got, want):
    """every metadata field of `got` is the real one or the default"""
    g = got.split()
    w = want.split()
    if g[0] not in 'nwr' or len(g) < 8 or len(w) < 8:
        return got == want
    for i, dflt in ((2, 'v0'), (3, 'V'), (4, 't0'), (5, 'c0'), (6, 'u0'), (7, '-')):
        if g[i] != w[i] and g[i] != dflt:
            return False
    return True


def expected(f, mask):
    return [d for d in f['ref'] if TYPE_BIT[d[0]] & mask]


def cuts_for(rng, n, style):
    if style == 'none' or n < 2:
        return '-'
    if style == 'fixed':
        k = rng.choice([37, 64, 100, 257])
        return ','.join(map(str, range(k, n, k))) or '-'
    k = 1 + rng.below(8)
    return ','.join(map(str, sorted({1 + rng.below(n - 1) for _ in range(k)})))


def env_grid(rng, quick):
    pools = ['1', '2', '3', '8', '32']
    qs = ['1', '2', None]
    grid = []
    if quick:
        # every value of every variable appears at least once; the rest is drawn from the seed
        for i in range(6):
            grid.append({'p': pools[i % 5], 'iq': qs[i % 3], 'oq': qs[(i + 1) % 3], 'wq': qs[(i + 2) % 3], 'up': i % 2 == 0})
        for _ in range(4):
            grid.append({'p': rng.choice(pools), 'iq': rng.choice(qs), 'oq': rng.choice(qs), 'wq': rng.choice(qs), 'up': rng.chance(2, 3)})
    else:
        for p in pools:
            for iq in qs:
                for oq in qs:
                    for wq in qs:
                        for up in (True, False):
                            grid.append({'p': p, 'iq': iq, 'oq': oq, 'wq': wq, 'up': up})
    out = []
    for g in grid:
        e = {'OSMIUM_POOL_THREADS': g['p']}
        if g['iq']:
            e['OSMIUM_MAX_INPUT_QUEUE_SIZE'] = g['iq']
        if g['oq']:
            e['OSMIUM_MAX_OSMDATA_QUEUE_SIZE'] = g['oq']
        if g['wq']:
            e['OSMIUM_MAX_WORK_QUEUE_SIZE'] = g['wq']
        if not g['up']:
            e['OSMIUM_USE_POOL_THREADS_FOR_PBF_PARSING'] = rng.choice(['off', 'false', 'no', '0'])
        out.append(e)
    return out


def env_str(env):
    return ' '.join('%s=%s' % (k.replace('OSMIUM_', '').replace('_QUEUE_SIZE', '_Q').replace('USE_POOL_THREADS_FOR_PBF_PARSING', 'USE_POOL'), v)
                    for k, v in sorted(env.items())) or 'default-env'


def scen(**kw):
    return 'run ' + ' '.join('%s=%s' % (k, v) for k, v in kw.items())


# ------------------------------------------------------------------------------------------
# the C05 monitors on one finished block
# ------------------------------------------------------------------------------------------
def check_block(ctx, b, files, report):
    """report(key, what, extra) records a violation.  Returns True if a monitor hit."""
    kv = b.kv
    f = files.get(kv.get('data'))
    fmt = kv.get('fmt')
    mask = int(kv.get('mask', '15'))
    meta = kv.get('meta', '1') == '1'
    cfg = '%s mask=%d meta=%d bt=%s src=%s pool=%s [%s]' % (kv.get('data'), mask, meta, kv.get('bt', 'any'), kv.get('src', 'mem'), kv.get('pool', '0'), env_str(b.env))
    hit = False
    if b.end != 'ok':
        report('pipeline-stuck:%s:%s' % (fmt, kv.get('data')) if b.end == 'timeout' else 'harness-abort:%s:%s' % (fmt, kv.get('data')),
               'scenario `%s` [%s] ended with %s' % (b.line, env_str(b.env), b.end), {})
        return True
    for name, ok, d in b.mon:
        ctx.count('monitor:%s:%s' % (name, 'ok' if ok else 'FAIL'))
        if not ok:
            hit = True
            report('monitor:%s:%s' % (name, fmt), 'monitor `%s` failed (%s) in `%s` [%s]' % (name, d, b.line, env_str(b.env)), {'monitor': name})
    if f is None:
        return hit
    got = b.objects()
    want = expected(f, mask)
    full = kv.get('k', '-1') == '-1' and b.obs.get('eof') == '1'
    cmp_got = got if meta else [strip_meta(d) for d in got]
    cmp_want = want if meta else [strip_meta(d) for d in want]
    bad = None
    if f.get('fault') == 'corrupt-blob':
        # blob `nblob` cannot be decoded (in a pool worker or inline): the caller gets a prefix of the objects of the
        # blobs BEFORE it (want = their single-threaded decode), never a clean end of data, and a complete read
        # (k=-1) ends with an exception
        ctx.count('blob-fault:blob-%s-of-%s' % ('first' if f['nblob'] == 0 else 'last' if f['nblob'] == f['nblobs'] - 1 else 'middle', 'n'))
        ctx.count('blob-fault:delivered-all-before' if len(cmp_got) == len(cmp_want) else 'blob-fault:delivered-less')
        why = None
        if cmp_got != cmp_want[:len(cmp_got)]:
            why = ('%d objects were delivered; they are not a prefix of the %d objects (mask %d) of the blobs before the corrupt blob'
                   % (len(got), len(want), mask))
        elif b.obs.get('eof') == '1':
            why = 'read() reported a clean end of data'
        elif kv.get('k', '-1') == '-1' and b.obs.get('error') != '1':
            why = 'a complete read ended without an exception (%s)' % b.obs.get('first_error')
        if why:
            report('blob-fault-order:%s:blob%d-of-%d' % (f['base'], f['nblob'], f['nblobs']),
                   'PBF file %s with data blob %d of %d corrupted: %s in `%s` [%s]' % (f['base'], f['nblob'], f['nblobs'], why, b.line, env_str(b.env)),
                   {'file_hex': hx(f['bytes']), 'got': got[:40], 'want_prefix_of': want[:40]})
            return True
        return hit
    if full:
        if cmp_got != cmp_want:
            bad = 'delivered %d objects, single-threaded decode filtered by the mask has %d' % (len(got), len(want))
            for i, (a, c) in enumerate(zip(cmp_got, cmp_want)):
                if a != c:
                    bad += '; first difference at object %d: got `%s` want `%s`' % (i, a[:160], c[:160])
                    break
    elif cmp_got != cmp_want[:len(cmp_got)]:
        bad = 'the %d objects delivered before the stop are not a prefix of the expected sequence' % len(got)
    if bad:
        hit = True
        if fmt == 'o5m' and (mask & 7) != 7 and f.get('noreset'):
            key = 'o5m-entity-mask-wrong-objects'
            what = ('o5m Reader with an entity filter delivers wrong objects when no Reset separates the type sections '
                    '(skipped datasets do not advance the shared delta/string-table state): %s in `%s` (file %s, %d bytes: %s)'
                    % (bad, b.line, f['kind'], len(f['bytes']), hx(f['bytes'])[:400]))
        else:
            key = 'wrong-sequence:%s:mask=%d:meta=%d' % (fmt, mask, meta)
            what = 'Reader output differs from the single-threaded decode: %s in `%s` [%s]' % (bad, b.line, env_str(b.env))
        report(key, what, {'file_hex': hx(f['bytes']), 'got': got[:40], 'want': want[:40]})
    elif b.obs.get('error') == '1' and f.get('fault') in (None, 'none') and not any(k in kv for k in ('fread', 'fclose', 'fctor')):
        hit = True
        if fmt == 'o5m' and (mask & 7) != 7 and f.get('noreset'):
            key = 'o5m-entity-mask-wrong-objects'
        else:
            key = 'error-on-valid-file:%s:mask=%d' % (fmt, mask)
        report(key, 'the Reader reported an error (%s) on a valid %s file that the single-threaded decode reads without error, in `%s` (file %s, %d bytes: %s)'
               % (b.obs.get('first_error'), fmt, b.line, f['kind'], len(f['bytes']), hx(f['bytes'])[:400]), {'file_hex': hx(f['bytes'])})
    elif not meta and len(got) <= len(want):
        for a, c in zip(got, want):
            if not meta_default_or_equal(a, c):
                hit = True
                report('meta-invented:%s' % fmt, 'read_meta::no delivered metadata that is neither the real value nor the default: got `%s`, file has `%s` in `%s`'
                       % (a[:200], c[:200], b.line), {'file_hex': hx(f['bytes'])})
                break
    if full:
        # after the end marker reads fail
        calls = [(c, r) for c, r in b.api if c == 'read']
        eof_i = [i for i, (c, r) in enumerate(calls) if r[:1] == ['eof']]
        after = calls[eof_i[0] + 1:] if eof_i else []
        if not eof_i or not after or any(r[:1] != ['throw'] for _, r in after):
            hit = True
            report('read-after-eof:%s' % fmt, 'read() after the end-of-data marker did not throw in `%s`: %s' % (b.line, after), {})
        if b.header is not None and f.get('refhdr') is not None and b.header != f['refhdr']:
            hit = True
            report('header-differs:%s' % fmt, 'header() differs from the single-threaded decode: `%s` vs `%s` in `%s`' % (b.header, f['refhdr'], b.line), {})
    if kv.get('bt') == 'single' and fmt != 'pbf':
        for serial, frm, ds in b.bufs:
            if len({d[0] for d in ds}) > 1:
                hit = True
                report('single-buffer-mixed-types:%s' % fmt,
                       'buffers_type::single delivered a buffer with entities of different types (%s) in `%s` (file %s)'
                       % (''.join(d[0] for d in ds), b.line, f['kind']), {'file_hex': hx(f['bytes'])})
                break
    nested = sum(1 for _, frm, _ in b.bufs if frm == 'b')
    ctx.count('buffers-from-back-buffers', nested)
    ctx.count('buffers-from-queue', len(b.bufs) - nested)
    return hit


def scenarios_for(rng, files, quick):
    """(scenario line) list for one environment: a slice of the (file x mask x meta x bt x chunking x pool x src) grid"""
    out = []
    names = list(files)
    for name in names:
        f = files[name]
        fmt = f['fmt']
        n = len(f['bytes'])
        masks = list(range(16))
        for mask in masks:
            if not quick or rng.chance(1, 2) or mask in (15, 0):
                out.append(scen(fmt=fmt, data=name, src='mem', cuts=cuts_for(rng, n, rng.choice(['none', 'fixed', 'random'])), mask=mask,
                                meta=rng.choice([1, 1, 0]), bt=rng.choice(['any', 'single']), pool=rng.choice([0, 0, 1, 2, 3, 8]),
                                hdr=rng.choice([0, 1, 2]), k=-1, stop=rng.choice(['close', 'dtor']), pl=rng.choice([0, 1, 2, 3]), ps=1 + rng.below(1000000),
                                trace=rng.choice([0, 1])))
        for _ in range(2 if quick else 6):
            out.append(scen(fmt=fmt, data=name, src='file', mask=rng.choice([15, 15, 7, 3, 5, 6, 1, 2, 4]), meta=rng.choice([1, 0]),
                            bt=rng.choice(['any', 'single']), pool=rng.choice([0, 1, 4, 32]), hdr=rng.choice([0, 1]), k=-1,
                            stop=rng.choice(['close', 'dtor']), pl=rng.choice([0, 2, 3]), ps=1 + rng.below(1000000)))
        # partial reads: what was delivered must be a prefix
        for _ in range(1 if quick else 4):
            out.append(scen(fmt=fmt, data=name, src='mem', cuts=cuts_for(rng, n, 'random'), mask=15, meta=1, bt='any', pool=rng.choice([0, 2]),
                            hdr=rng.choice([0, 1]), k=rng.below(6), stop=rng.choice(['close', 'dtor']), pl=rng.choice([0, 2, 3]), ps=1 + rng.below(1000000), trace=1))
    return out


# ------------------------------------------------------------------------------------------
# PBF files whose PrimitiveBlocks hold PrimitiveGroups of DIFFERENT types (legal: only a group is
# type-homogeneous; Osmosis writes such blocks, libosmium's writer never does) read under every
# entity mask: the decoder decides per group "decode + commit" or "skip" and must go on with the
# NEXT group (Props/C05.lean `pbf_block_mask_is_filter`, seed C05-3).  The files come from the Lean
# specification encoder (Model/PbfMixed.lean `encodeMixed`: blocks cut anywhere out of a
# type-interleaved object sequence, dense/plain chosen per group, plus every other encoding choice
# of Model/PbfSpec.lean), so the same bytes go to the real Reader and to the model decoder.
# ------------------------------------------------------------------------------------------
GROUP_LETTER = {1: 'n', 2: 'd', 3: 'w', 4: 'r'}   # PrimitiveGroup field -> n plain Node, d DenseNodes, w Way, r Relation


def mixed_layout(data):
    """What is REALLY in a file with raw blobs: per data blob the list of its PrimitiveGroups as
    (type letters, number of objects, [(payload start, payload end) of every object field])."""
    blocks = []
    for (s, e) in pbf_blobs(data)[1:]:
        hl = int.from_bytes(data[s:s + 4], 'big')
        raw = [f for f in pb_walk(data, s + 4 + hl, e) if f[0] == 1 and f[1] == 2]
        if not raw:
            return None
        groups = []
        for g in pb_walk(data, raw[0][2], raw[0][3]):
            if g[0] != 2 or g[1] != 2:
                continue
            objs = [f for f in pb_walk(data, g[2], g[3]) if f[1] == 2 and f[0] in GROUP_LETTER]
            n = 0
            for f in objs:
                if f[0] == 2:
                    ids = [x for x in pb_walk(data, f[2], f[3]) if x[0] == 1 and x[1] == 2]
                    n += sum(1 for q in range(ids[0][2], ids[0][3]) if data[q] < 0x80) if ids else 0
                else:
                    n += 1
            groups.append((''.join(sorted({GROUP_LETTER[f[0]] for f in objs})), n, [(f[0], f[2], f[3]) for f in objs]))
        blocks.append(groups)
    return blocks


def mixed_objects(rng, ch, kinds):
    """objects of the given kinds (n/w/r), representable under the choice vector (same rules as c02_pbf.gen_case)"""
    from props import c01_pbf as P, c02_pbf as S
    g, la, lo, dg = ch.d['g'], ch.d['la'], ch.d['lo'], ch.d['dg']
    # history files (deleted objects) only where the undefined location of a deleted node is stored exactly: read with
    # read_meta::no a deleted node comes back visible (see strip_meta) with the coordinates that are in the file
    hist = rng.chance(1, 3) and (g, la, lo) == (100, 0, 0)
    lim = lambda v: v if abs(v) <= 2 ** 61 else (2 ** 61 if v > 0 else -2 ** 61)
    objs = []
    for k in kinds:
        o = P.gen_obj(rng, k)
        o['id'] = lim(o['id'])
        o['timestamp'] = S.repr_ts(rng, dg)
        if not hist:
            o['visible'] = True
        if k == 'n':
            o['loc'] = (P.UNDEF, P.UNDEF) if not o['visible'] else (S.repr_coord(rng, g, lo), S.repr_coord(rng, g, la))
        elif k == 'w':
            withloc = rng.chance(1, 3)
            o['nodes'] = [(lim(r), (S.repr_coord(rng, g, lo), S.repr_coord(rng, g, la)) if withloc else (P.UNDEF, P.UNDEF)) for r, _ in o['nodes']]
        else:
            o['members'] = [(t, lim(r), role) for t, r, role in o['members']]
        objs.append(o)
    return {'generator': rng.choice([b'mixed', b'']), 'hist': hist, 'boxes': []}, objs


def mixed_plans(rng, quick, seed):
    """(name, kind, block layouts, extra choices) — a block layout is a string over n d w r: one PrimitiveGroup per
    letter (d = the node group is written as DenseNodes).  `dm` (dense/plain per group NUMBER, one pattern per
    file) is taken from the first block, the other blocks get what that pattern gives them; what the file really
    holds is measured afterwards (`mixed_layout`)."""
    plans = []
    perms = ['nwr', 'nrw', 'wnr', 'wrn', 'rnw', 'rwn']
    for i, p in enumerate(perms):
        for dense in ((0, 1) if not quick else ((i + seed) % 2,)):
            first = p.replace('n', 'd') if dense else p
            plans.append(('mx%s%d' % (p, dense), 'perm', [first, p[::-1], p[1]], {}))
    # dense and plain node groups in ONE block; plain nodes behind ways / relations; a type coming back
    plans.append(('mxdwn', 'dense+plain', ['dwn', 'wrn'], {}))
    plans.append(('mxnwd', 'dense+plain', ['nwd', 'rwd'], {}))
    plans.append(('mxwdrn', 'dense+plain', ['wdrn', 'wnrd'], {}))
    plans.append(('mxnwnwn', 'type-comes-back', ['nwnwn', 'rwrnr'], {}))
    plans.append(('mxdd', 'group-split', ['nnnn'], {'gs': 1, 'dmx': 0b0101}))
    for j in range(4 if quick else 40):
        nb = 1 + rng.below(3)
        blocks = [''.join(rng.choice('ndwr') for _ in range(2 + rng.below(5))) for _ in range(nb)]
        g = rng.choice([1, 10, 25, 100, 100, 100, 1000])
        unit = 100
        extra = dict(g=g, la=unit * (rng.below(201) - 100), lo=unit * (rng.below(201) - 100), dg=rng.choice([1, 100, 1000, 1000, 2000]), wd=rng.below(2),
                     od=rng.below(2), vm=rng.below(2), seed=rng.below(1000), ex=rng.below(3), pad=rng.below(3), dup=rng.below(2))
        if rng.chance(1, 3):
            extra['gs'] = 1 + rng.below(3)
        plans.append(('mxr%d' % j, 'random', blocks, extra))
    return plans


def mixed_build(ctx, rng, quick):
    """-> dict name -> file record ('bytes', 'raw' = the raw-blob bytes the model reads, 'spec' = dumps of the
    described objects D, 'layout', 'blob_counts', optional 'garbage' = letter of the corrupted group)"""
    from props import c01_pbf as P, c02_pbf as S
    ops = []
    recs = []
    for name, kind, blocks, extra in mixed_plans(rng, quick, ctx.seed):
        kinds = []
        sizes = []
        dm = extra.pop('dmx', 0)
        for bi, bl in enumerate(blocks):
            n0 = len(kinds)
            for gi, letter in enumerate(bl):
                k = 'n' if letter in 'nd' else letter
                if bi == 0 and letter == 'd':
                    dm |= 1 << (gi % 8)
                cnt = 1 + rng.below(3)
                kinds += [k] * cnt
            sizes.append(len(kinds) - n0)
        kw = dict(split=','.join(map(str, sizes[:-1])), rest=max(1, sizes[-1]))
        kw.update(extra)
        ch = S.Choices(**kw)
        h, objs = mixed_objects(rng, ch, kinds)
        ops.append('specmix %d %s | %s' % (dm, ch.s(), ' | '.join([P.dump_header(h)] + [P.dump(o) for o in objs])))
        recs.append({'name': name, 'kind': kind, 'dm': dm, 'ch': ch, 'objs': objs, 'hdr': h})
    # the mixed encoder with one pattern for all groups IS the specification encoder of C02
    same = [('specmix 0 ' + S.Choices(dense=0, rest=3).s(), 'spec ' + S.Choices(dense=0, rest=3).s()),
            ('specmix 255 ' + S.Choices(dense=1, rest=3).s(), 'spec ' + S.Choices(dense=1, rest=3).s())]
    tail = ' | ' + ops[0].split(' | ', 1)[1]
    out = P.run_model(ctx, ops + [a + tail for a, _ in same] + [b + tail for _, b in same])
    if out is None:
        return None
    bad = [o for o, l in zip(ops + [a + tail for a, _ in same] + [b + tail for _, b in same], out) if l.startswith('bad-op')]
    if bad:
        ctx.violation('mixed-encoder-rejects-case', 'model_pbf rejected the op `%s`' % P.short(bad[0]), {'kind': 'check-error'}, found_input=False)
        return None
    if out[len(ops):len(ops) + 2] != out[len(ops) + 2:]:
        ctx.violation('mixed-encoder-differs-from-spec-encoder', 'encodeMixed with a constant dense pattern does not produce the bytes of PbfSpec.encode', {'kind': 'check-error'}, found_input=False)
        return None
    files = {}
    for rec, hexs in zip(recs, out):
        data = bytes.fromhex(hexs) if hexs != '-' else b''
        lay = mixed_layout(data)
        f = {'fmt': 'pbf', 'kind': 'mixed-' + rec['kind'], 'bytes': data, 'raw': data, 'spec': [P.dump(o) for o in rec['objs']],
             'layout': lay, 'blob_counts': [sum(g[1] for g in b) for b in lay], 'specop': rec}
        files[rec['name']] = f
    names = list(files)
    # zlib-compressed twins (python zlib; the model reads the raw twin)
    for name in [n for i, n in enumerate(names) if i % (5 if quick else 3) == 2]:
        f = files[name]
        files[name + 'z'] = dict(f, bytes=S.recompress(f['raw'], len(name) % 2), kind=f['kind'] + '-zlib')
    # a skipped group is not validated: one object field of one group overwritten with 0xff bytes
    want = ['w', 'r', 'n', 'd']
    for name in names:
        if not want:
            break
        f = files[name]
        hit = None
        for bi, b in enumerate(f['layout']):
            for gi, (letters, cnt, objs) in enumerate(b):
                if letters == want[0] and len(b) > 1 and objs and objs[0][2] - objs[0][1] >= 2 and hit is None:
                    hit = (bi, gi, objs[0])
        if hit is None:
            continue
        bad = bytearray(f['raw'])
        bad[hit[2][1]:hit[2][2]] = b'\xff' * (hit[2][2] - hit[2][1])
        files[name + 'g'] = dict(f, bytes=bytes(bad), raw=bytes(bad), kind='mixed-garbage-in-%s-group' % want[0], garbage=want[0], garbage_at=hit[:2])
        want.pop(0)
    return files


def mixed_envs(rng, quick):
    qs = ['1', '2', None]
    envs = []
    for up in (True, False) + (() if quick else (True, False)):
        e = {'OSMIUM_POOL_THREADS': rng.choice(['1', '2', '3', '8'])}
        for k in ('INPUT', 'OSMDATA', 'WORK'):
            v = rng.choice(qs)
            if v:
                e['OSMIUM_MAX_%s_QUEUE_SIZE' % k] = v
        if not up:
            e['OSMIUM_USE_POOL_THREADS_FOR_PBF_PARSING'] = rng.choice(['off', 'false', 'no', '0'])
        envs.append(e)
    return envs


def ropts(mask, meta):
    return 'N%dW%dR%dM%d' % (mask & 1, (mask >> 1) & 1, (mask >> 2) & 1, 1 if meta else 0)


def mixed_pass(ctx, rng, quick, hbin, scratch, report):
    """mixed-type PrimitiveBlocks x all entity masks x pool parsing on/off: monitors + correspondence with the
    model decoder run with the same mask.  Returns the number of traces validated."""
    from props import c01_pbf as P
    files = mixed_build(ctx, rng, quick)
    if files is None:
        return 0
    valid = {n: f for n, f in files.items() if 'garbage' not in f}
    if not reference_decode(ctx, hbin, scratch, valid, per_blob=False):
        return 0
    for name, f in files.items():
        ctx.count('file:pbf:' + f['kind'])
        for b in f['layout']:
            ctx.count('mixed:groups-per-block:%d' % len(b))
            ctx.count('mixed:types-per-block:%d' % len({'n' if g[0] == 'd' else g[0] for g in b}))
            ctx.count('mixed:type-order:' + ''.join(g[0] or '-' for g in b))
            if {'n', 'd'} <= {g[0] for g in b}:
                ctx.count('mixed:block-with-dense-and-plain-nodes')
            ks = [g[0] for g in b]
            if any(k in 'nd' and any(x in 'wr' for x in ks[:i]) for i, k in enumerate(ks)):
                ctx.count('mixed:block-with-nodes-behind-ways-or-relations')
    # the full single-threaded read returns the described objects (the oracle of the monitors below is sound)
    for name, f in valid.items():
        if f['ref'] != f['spec'] or sum(f['blob_counts']) != len(f['spec']):
            first = next(((a, b) for a, b in zip(f['ref'], f['spec']) if a != b), (f['ref'][len(f['spec']):][:1], f['spec'][len(f['ref']):][:1]))
            report('mixed-block-full-read:%s' % f['kind'], 'a spec-conformant PBF file with PrimitiveGroups of different types in one PrimitiveBlock (%s; groups per block: %s) '
                   'is not decoded to the objects it describes by the single-threaded read of all types: %d objects instead of %d; first difference got `%s` expected `%s`'
                   % (f['specop']['ch'].s(), ' | '.join(''.join(g[0] for g in b) for b in f['layout']), len(f['ref']), len(f['spec']), P.short(str(first[0])), P.short(str(first[1]))),
                   {'file_hex': hx(f['bytes'])})
            return 0
    defs = ['def %s %s' % (n, hx(f['bytes'])) for n, f in files.items()]
    # the model decoder with the same mask on the same (raw) bytes
    mkeys = [(n, m, meta) for n in files for m in range(8) for meta in (1, 0)]
    mout = P.run_model(ctx, ['dec %s %s' % (ropts(m, meta), hx(files[n]['raw'])) for n, m, meta in mkeys])
    model = None
    if mout is not None:
        model = {}
        for k, l in zip(mkeys, mout):
            model[k] = 'err' if not l.startswith('ok ') else ' | '.join(['ok'] + l.split(' | ')[1:])
    nvalid = 0
    ops, impl_lines, model_lines = [], [], []
    monitor_hit = False
    for env in mixed_envs(rng, quick):
        sc = []
        for name, f in files.items():
            n = len(f['bytes'])
            masks = list(range(8)) + ([8 + rng.below(8)] if quick else list(range(8, 16)))
            for mask in masks:
                sc.append(scen(fmt='pbf', data=name, src='mem' if rng.chance(5, 6) else 'file', cuts=cuts_for(rng, n, rng.choice(['none', 'fixed', 'random'])),
                               mask=mask, meta=rng.choice([1, 1, 0]), bt=rng.choice(['any', 'single']), pool=rng.choice([0, 0, 1, 2, 3, 8]),
                               hdr=rng.choice([0, 1, 2]), k=-1, stop=rng.choice(['close', 'dtor']), pl=rng.choice([0, 0, 0, 1, 2, 3]), ps=1 + rng.below(1000000),
                               trace=1 if 'garbage' not in f and rng.chance(1, 4) else 0))
        blocks = run_process(hbin, scratch, env, defs, sc)
        ctx.count('env:mixed:' + env_str(env))
        usepool = env.get('OSMIUM_USE_POOL_THREADS_FOR_PBF_PARSING') is None
        for b in blocks:
            f = files.get(b.kv.get('data'))
            mask = int(b.kv.get('mask', '15'))
            meta = b.kv.get('meta', '1') == '1'
            ctx.note_case('mixed ' + env_str(env) + ' ' + b.line)
            ctx.count('scenario:pbf-mixed')
            ctx.count('mixed:mask:%s%s' % (''.join(c for c, bit in (('n', 1), ('w', 2), ('r', 4)) if mask & bit) or 'none', '+changeset-bit' if mask & 8 else ''))
            ctx.count('mixed:pool-parsing:%s' % ('on' if usepool else 'off'))
            ctx.count('mixed:read_meta:%s' % ('yes' if meta else 'no'))
            if f is None:
                continue
            if 'garbage' in f:
                b.monitor_hit = False
                if b.end != 'ok':
                    b.monitor_hit = True
                    report('pipeline-stuck:pbf:%s' % f['kind'] if b.end == 'timeout' else 'harness-abort:pbf:%s' % f['kind'],
                           'scenario `%s` [%s] ended with %s' % (b.line, env_str(env), b.end), {'file_hex': hx(f['bytes'])}, b)
                ctx.count('mixed:garbage:%s' % ('type-selected' if TYPE_BIT['n' if f['garbage'] == 'd' else f['garbage']] & mask else 'type-skipped'))
            else:
                # (at most 8 violations are recorded: one (mask, read_meta) combination each)
                b.monitor_hit = check_block(ctx, b, files, lambda k, w, e, b=b, f=f: len(ctx.violations) < 8 and report(
                    k, w + ' — PBF file with PrimitiveGroups of different types in one PrimitiveBlock (groups per block: %s; file: `%s`)'
                    % (' | '.join(''.join(g[0] for g in bl) for bl in f['layout']), P.short(ops_of(f), 600)), e, b))
                if b.monitor_hit:
                    ctx.count('mixed:monitor-hit')
            monitor_hit = monitor_hit or b.monitor_hit
            # correspondence: real Reader(mask) vs model decode(mask) on the same bytes
            if model is not None and b.end == 'ok':
                if b.obs.get('eof') == '1':
                    il = ' | '.join(['ok'] + b.objects())
                elif b.obs.get('error') == '1':
                    il = 'err'
                else:
                    il = 'incomplete'
                ops.append('dec %s %s [%s] %s' % (ropts(mask & 7, meta), b.kv.get('data'), 'pool' if usepool else 'inline', f['kind']))
                impl_lines.append(il)
                model_lines.append(model[(b.kv.get('data'), mask & 7, 1 if meta else 0)])
        if ctx.exe_build_ok:
            nvalid += validate_traces(ctx, [b for b in blocks if b.events and not b.monitor_hit], files, report)
        if len(blocks) < len(sc) and not ctx.violations:
            ctx.violation('harness-incomplete', 'only %d of %d mixed-block scenarios ran under [%s]' % (len(blocks), len(sc), env_str(env)), {'kind': 'check-error'}, found_input=False)
        if len(ctx.violations) >= 8:
            break
    if model is not None:
        d = ctx.diff_streams('pbf-mixed-blocks-reader(mask)-vs-model-decode(mask)', ops, impl_lines, model_lines)
        if d and not [v for v in ctx.violations if v.found_input]:
            i, op, a, m = d[0]
            name = op.split()[2]
            ctx.violation('correspondence:pbf-mask-decoder:%s' % op.split()[-1],
                          'the real Reader and the model decoder (Pbf.decodeFile with the same entity mask / read_meta) disagree on a PBF file with mixed-type PrimitiveBlocks '
                          '(%d of %d cases; first: `%s` impl=%s model=%s)' % (len(d), len(ops), op, P.short(a), P.short(m)),
                          {'kind': 'broken-correspondence', 'file_hex': hx(files[name]['bytes']), 'first': [[P.short(str(z), 2000) for z in x] for x in d[:3]]}, found_input=False)
    ctx.extra['mixed_block_files'] = len(files)
    ctx.extra['mixed_block_scenarios'] = len(ops)
    for n in list(files)[:2]:
        ctx.sample('mixed file %s: %s' % (n, P.short(ops_of(files[n]), 400)))
    return nvalid


# ------------------------------------------------------------------------------------------
# SCALE: resource use must not grow with the number of blocks / buffers that deliver nothing.
#
# Reader::read() skips buffers without data in a loop, unwinds nested buffers through
# m_back_buffers, and the PBF decoder returns one empty buffer per block without selected
# objects.  The property quantifies over files of ANY size, so "many thousand consecutive
# blocks that deliver nothing" is a dimension of its own (seed C05-6: read() calling itself
# once per empty buffer: same sequences, but the stack of the reading thread grows with the
# run length until the process dies).  It is made cheap by SHRINKING THE RESOURCE instead of
# growing the input: the thread that calls Reader::read() runs on an explicit, painted stack
# of 64-256 KiB with a guard page (`stack=<KiB>`, harness/c05.cpp), every thread the library
# creates gets a small default stack (C05_THREAD_STACK_KB), and the files have 2 000 - 20 000
# (thorough: 200 000, also on the normal 8 MiB stack) consecutive blocks of an excluded type —
# synthesized inside the harness (`defcat`) from one-object blocks written by the real Writer.
# Monitors: the delivered sequence = the mask-filtered file order (single-threaded decode of the
# parts, cross-checked with the single-threaded decode of the whole file), eof + failing reads
# after it, NO crash / kill of the reading process (a crash names the scenario), and the
# measured stack high-water mark of the reading thread does not grow with the run length.
# ------------------------------------------------------------------------------------------
SCALE_HWM_TOLERANCE = 4096       # bytes by which the consumer's stack high-water mark may differ between run lengths


def fnv64(s, memo={}):
    h = memo.get(s)
    if h is None:
        h = 1469598103934665603
        for c in s.encode('utf-8', 'surrogateescape'):
            h = ((h ^ c) * 1099511628211) & 0xFFFFFFFFFFFFFFFF
        if len(memo) < 4096:
            memo[s] = h
    return h


def run_class(n):
    for lim, name in ((1, '0'), (2, '1'), (100, '2-99'), (2000, '100-1999'), (20000, '2k-19999'), (200000, '20k-199999')):
        if n < lim:
            return name
    return '>=200k'


def mask_name(mask):
    return ''.join(c for c, bit in (('n', 1), ('w', 2), ('r', 4), ('c', 8)) if mask & bit) or 'none'


def run_attributed(hbin, scratch, env, defs, scenarios, max_crashes=3):
    """One harness process for the scenarios (like run_process), but a process that dies — a signal in a thread
    of the library, the watchdog, the consumer's stack overflow reported by the harness' own signal handler —
    is attributed to the scenario that was running, and the remaining scenarios run in a fresh process.
    Never raises because of the child's fate."""
    blocks = []
    todo = list(scenarios)
    crashes = 0
    while todo:
        text = '\n'.join(defs + todo) + '\n'
        try:
            p = subprocess.run([hbin, scratch], input=text, stdout=subprocess.PIPE, stderr=subprocess.PIPE, text=True, env=clean_env(env), timeout=1800)
            rc, out, err = p.returncode, p.stdout, p.stderr
        except subprocess.TimeoutExpired as e:
            rc, out, err = -9, (e.stdout or b'').decode('utf-8', 'replace') if isinstance(e.stdout, bytes) else (e.stdout or ''), 'check-side timeout'
        got = [b for b in parse_blocks(out) if b.end is not None]
        for b in got:
            b.env = dict(env)
        blocks.extend(got)
        if rc == 0 and len(got) >= len(todo):
            break
        crashes += 1
        if got and got[-1].end != 'ok':
            todo = todo[len(got):]             # the harness reported the crash / timeout of that scenario itself
        else:
            line = todo[len(got)] if len(got) < len(todo) else todo[-1]
            b = Block(line[4:] if line.startswith('run ') else line)
            b.env = dict(env)
            b.end = 'crash rc=%d (process died in a thread other than the reading thread, or without a report) %s' % (rc, err[-200:].replace('\n', ' '))
            blocks.append(b)
            todo = todo[len(got) + 1:]
        if crashes >= max_crashes:
            break
    return blocks


def scale_parts(ctx, rng, hbin, scratch, quick):
    """one-object PBF blocks (real Writer) + files for the other formats; -> (parts, files, defs) or None.
    parts: name -> {'bytes' (data blobs only), 'ref'}; 'H' is the header blob."""
    gen_ops = []
    kinds = {}

    def g(name, fmt, n, idbase, order, *opts):
        gen_ops.append('gen %s %s %d %d %d %s%s' % (name, fmt, n, rng.below(1 << 30), idbase, order, ''.join(' ' + o for o in opts)))
        kinds[name] = (fmt, order)

    variants = [(), ('pbf_dense_nodes=false', 'pbf_compression=none'), ('pbf_compression=none',)]
    for t, base in (('n', 1000), ('w', 5000), ('r', 9000)):
        for i in range(3):
            g('s%s%d' % (t, i), 'pbf', 1, base + 100 * i, t, *variants[i])
    deep_n = 4000 if quick else 8000
    g('sdeepn', 'pbf', deep_n, 100, 'n', 'pbf_dense_nodes=false', 'pbf_compression=none')   # ONE block: ~deep_n/3 nested levels with the 256-byte buffer
    g('sdeepw', 'pbf', deep_n // 2, 100, 'nw')
    long_n = 3000 if quick else 30000
    g('sxml', 'xml', long_n, 100, 'nwr')
    g('sopl', 'opl', long_n, 100, 'nwrc')
    rc, out, se = ctx.run_lines([hbin, scratch], '\n'.join(gen_ops) + '\n', env=clean_env({}))
    got = {}
    for l in out:
        w = l.split()
        if len(w) == 3 and w[0] == 'gen':
            got[w[1]] = bytes.fromhex(w[2]) if w[2] != '-' else b''
    if rc != 0 or len(got) != len(gen_ops):
        ctx.violation('gen-failed', 'the real Writer failed to produce the scale test files: rc=%d %s' % (rc, se[-300:]), {'kind': 'harness'}, found_input=False)
        return None
    files = {}
    for name, b in got.items():
        files[name] = {'fmt': kinds[name][0], 'kind': 'scale-' + kinds[name][1], 'bytes': b}
    d, offs = o5m_gen(rng, long_n, 'nwr', resets=True)
    files['so5m'] = {'fmt': 'o5m', 'kind': 'scale-nwr', 'bytes': d, 'noreset': False, 'ends': offs}
    if not reference_decode(ctx, hbin, scratch, files, per_blob=False):
        return None
    parts = {}
    for name in list(files):
        f = files[name]
        if f['fmt'] == 'pbf' and len(f['ref']) == 1:
            bl = pbf_blobs(f['bytes'])
            if len(bl) != 2:
                ctx.violation('gen-failed', 'a one-object PBF file has %d blobs' % len(bl), {'kind': 'harness'}, found_input=False)
                return None
            parts.setdefault('H', {'bytes': f['bytes'][:bl[0][1]], 'ref': []})
            parts[name] = {'bytes': f['bytes'][bl[0][1]:], 'ref': f['ref'], 'refhdr': f['refhdr']}
            del files[name]
    return parts, files


def scale_plans(rng, quick):
    """(shape, [(type letter, run length), ...], masks) — the type letter stands for one-object blocks of that type"""
    sizes = [2000, 3000, 5000] if quick else [2000, 20000, 50000]
    big = 20000 if quick else 200000
    plans = []

    def N():
        return rng.choice(sizes)

    plans.append(('lead', [('n', N()), ('w', 2), ('r', 1)], [2, 4, 6, 1]))
    plans.append(('lead', [('n', 200), ('w', 2), ('r', 1)], [2, 4, 6, 1]))                 # the short twin for the growth monitor
    plans.append(('lead', [('n', big), ('w', 2), ('r', 1)], [2, 6] if quick else [2, 4, 6]))
    plans.append(('trail', [('w', 1), ('r', 2), ('n', N())], [2, 4, 6]))
    plans.append(('mid', [('n', 2), ('w', N()), ('r', 2)], [1, 4, 5]))
    plans.append(('mid', [('n', 2), ('w', 200), ('r', 2)], [1, 4, 5]))
    plans.append(('all-empty', [(rng.choice('nwr'), N())], [0]))                              # mask filled in below: a type that is not in the file
    plans.append(('two-runs', [('w', N()), ('n', 1), ('r', N()), ('n', 1)], [1, 3, 5]))
    plans.append(('alternating', [('n', 1), ('w', 1)] * (N() // 4), [1, 2, 4]))
    plans.append(('unsorted', [('r', N()), ('n', 3), ('w', N()), ('n', 1)], [1, 3, 5, 6]))
    return plans


def scale_pass(ctx, rng, quick, hbin, scratch, report):
    """-> number of scenarios run"""
    made = scale_parts(ctx, rng, hbin, scratch, quick)
    if made is None:
        return 0
    parts, files = made
    by_type = {t: [n for n in parts if n.startswith('s' + t)] for t in 'nwr'}
    defs = ['def %s %s' % (n, hx(p['bytes'])) for n, p in parts.items()] + ['def %s %s' % (n, hx(f['bytes'])) for n, f in files.items()]
    scen_info = {}      # scenario line -> info
    big = {}            # name -> {'cat': defcat line, 'want': [...], 'shape', 'runs'}
    for i, (shape, runs, masks) in enumerate(scale_plans(rng, quick)):
        name = 'sc%d' % i
        cat = ['H']
        want = []
        for t, cnt in runs:
            # a run is made of the three variants of a one-object block of that type, in seeded proportions
            names = by_type[t]
            cuts = sorted(rng.below(cnt + 1) for _ in range(len(names) - 1))
            for pn, c in zip(names, [b - a for a, b in zip([0] + cuts, cuts + [cnt])]):
                if c:
                    cat.append('%s*%d' % (pn, c))
                    want += parts[pn]['ref'] * c
        if shape == 'all-empty':
            masks = [m for m in (1, 2, 4) if m != TYPE_BIT[runs[0][0]]]
        size = sum(len(parts[c.split('*')[0]]['bytes']) * int((c.split('*') + ['1'])[1]) for c in cat)
        big[name] = {'cat': 'defcat %s %s' % (name, ' '.join(cat)), 'want': want, 'shape': shape, 'runs': runs, 'masks': masks, 'size': size,
                     'blocks': sum(c for _, c in runs)}
        ctx.count('file:pbf:scale-%s' % shape)
    defs += [b['cat'] for b in big.values()]
    # the oracle "decode of the concatenation = concatenation of the decodes" is itself checked on the smaller files
    chk = [n for n, b in big.items() if b['blocks'] <= 6000]
    rc, out, se = ctx.run_lines([hbin, scratch], '\n'.join(defs + ['ref %s pbf' % n for n in chk]) + '\n', env=clean_env({'OSMIUM_USE_POOL_THREADS_FOR_PBF_PARSING': 'off'}))
    refs = []
    for l in out:
        if l.startswith('ref H '):
            refs.append([])
        elif l.startswith('ref O ') and refs:
            refs[-1].append(l[6:])
    if rc != 0 or len(refs) != len(chk) or any(r != big[n]['want'] for n, r in zip(chk, refs)):
        ctx.violation('scale-oracle', 'the single-threaded decode of a concatenation of PBF blocks is not the concatenation of the decodes (rc=%d, %d of %d files decoded) %s'
                      % (rc, len(refs), len(chk), se[-200:]), {'kind': 'check-error'}, found_input=False)
        return 0

    def maskrun(b, mask):
        """longest run of consecutive blocks that deliver nothing under the mask"""
        best = cur = 0
        for t, c in b['runs']:
            if TYPE_BIT[t] & mask:
                best, cur = max(best, cur), 0
            else:
                cur += c
        return max(best, cur)

    # Queue::push() waits for room in a bounded queue by polling every 10 ms: a scenario that DELIVERS thousands of
    # buffers through an osmdata queue bounded by 1 or 2 takes 5 ms per buffer.  The first two environments of every
    # group of four leave the osmdata queue at its default; scenarios delivering more than 1000 objects run there.
    envs = []
    for i in range(4 if quick else 8):
        e = {'OSMIUM_POOL_THREADS': rng.choice(['1', '2', '3', '8'])}
        for k in ('INPUT', 'OSMDATA', 'WORK'):
            v = rng.choice(['1', '2', None, None])
            if v and not (k == 'OSMDATA' and i % 4 < 2):
                e['OSMIUM_MAX_%s_QUEUE_SIZE' % k] = v
        if i % 2:
            e['OSMIUM_USE_POOL_THREADS_FOR_PBF_PARSING'] = rng.choice(['off', 'false', 'no', '0'])
        ts = [64, 128, None, 96][i % 4]
        if ts:
            e['C05_THREAD_STACK_KB'] = str(ts)
        envs.append(e)

    def add(sc, env_i, heavy=False, **info):
        if heavy and env_i % 4 >= 2:
            env_i -= 2
        scen_info[(env_i, sc)] = info
        per_env[env_i].append(sc)

    per_env = [[] for _ in envs]
    k = 0
    for name, b in big.items():
        for mask in b['masks']:
            # every (file, mask) under one environment (round robin), the short ones under two
            # the short twins and the very long files twice; a very long file once on the normal stack (stack=0: the main
            # thread of the harness, 8 MiB) and once on a small one
            for rep in range(2 if b['blocks'] < 1000 or b['blocks'] >= 100000 else 1 if quick else 3):
                env_i = k % len(envs)
                k += 1
                stack = 0 if b['blocks'] >= 100000 and rep == 0 else rng.choice([64, 128, 128, 256])
                full = len([d for d in b['want'] if TYPE_BIT[d[0]] & mask])
                # (memory input: the PBF parser erases every blob from the front of its input string, so ONE piece of
                # several MB costs a memmove of the rest per blob — large files come in pieces of 32-100 KB, as from a file)
                if b['size'] > 300000:
                    piece = rng.choice([32768, 65536, 100003])
                    cuts = ','.join(map(str, range(piece, b['size'], piece)))
                else:
                    cuts = '-' if rng.chance(1, 2) else ','.join(map(str, sorted({1 + rng.below(b['size'] - 1) for _ in range(6)})))
                sc = scen(fmt='pbf', data=name, src='mem' if rng.chance(2, 3) else 'file', cuts=cuts,
                          mask=mask | (8 if rng.chance(1, 4) else 0), meta=rng.choice([1, 1, 0]), bt=rng.choice(['any', 'single']), pool=rng.choice([0, 0, 1, 2, 3]),
                          hdr=rng.choice([0, 1, 2]), k=-1, stop=rng.choice(['close', 'dtor']), pl=rng.choice([0, 0, 0, 1]), ps=1 + rng.below(1000000), trace=0,
                          wd=300000, stack=stack, digest=1 if full > 30000 else 0)
                add(sc, env_i, heavy=full > 1000, kind='pbf-blocks', file=name, shape=b['shape'], run=maskrun(b, mask & 7), mask=mask & 7, stack=stack, size=b['blocks'],
                    family=('pbf', b['shape'], mask & 7))
    # the same at the level of the Reader alone: a parser that queues valid buffers WITHOUT data (what the PBF decoder does
    # for a block without selected objects), and buffers with very deep nesting — the mock parser of the harness
    msizes = [2000, 5000, 20000] if quick else [2000, 20000, 200000]
    for n in [200] + msizes:
        for script, shape in (('hz%db2z%db1e' % (n, n), 'empty-buffers-then-data'), ('hez%d' % n, 'empty-buffers-then-eof'), ('hb1z%db3e' % n, 'empty-buffers-then-data')):
            env_i = k % len(envs)
            k += 1
            stack = rng.choice([64, 128, 256])
            sc = scen(fmt='mock', data='sxml', src='mem', cuts='-', mp=script, mask=15, meta=1, bt='any', pool=1, hdr=rng.choice([0, 1]), k=-1,
                      stop=rng.choice(['close', 'dtor']), pl=0, ps=1, trace=0, wd=120000, stack=stack)
            add(sc, env_i, kind='mock', shape=shape, run=n, mask=15, stack=stack, size=n, nodes=sum(int(x) for x in re.findall(r'b(\d+)', script)),
                family=('mock', script.replace(str(n), 'N'), 15))
    for depth in ([1000, 3000] if quick else [1000, 3000, 10000]):
        for kreads, stop in ((-1, 'close'), (2, 'dtor'), (depth // 2, 'close')):
            env_i = k % len(envs)
            k += 1
            stack = rng.choice([128, 256]) if kreads < 0 else 512
            sc = scen(fmt='mock', data='sxml', src='mem', cuts='-', mp='hn%dz%db1e' % (depth, depth), mask=15, meta=1, bt='any', pool=1, hdr=1, k=kreads,
                      stop=stop, pl=0, ps=1, trace=0, wd=120000, stack=stack)
            add(sc, env_i, heavy=True, kind='mock', shape='nested-depth-%d%s' % (depth, '' if kreads < 0 else '-partial-read'), run=depth, mask=15, stack=stack,
                nodes=depth + 2, partial=kreads >= 0, family=None)
    # nested-buffer unwinding of REAL decoders: one PBF block of thousands of objects with the hooked 256-byte buffer
    # (get_last_nested chain of depth > 1000), complete and abandoned reads; long runs of unselected OBJECTS in the
    # other three formats (their parsers never queue a buffer without data: flush_final_buffer / maybe_new_buffer test
    # committed() > 0, a nested buffer holds data) with small stacks for the parser thread
    for name, f in files.items():
        for mask in ((1, 2, 3) if name.startswith('sdeep') else (4, 8, 6) if f['fmt'] == 'opl' else (4, 2, 5)):
            for kreads in ((-1, 3) if name.startswith('sdeep') else (-1,)):
                env_i = k % len(envs)
                k += 1
                stack = rng.choice([128, 256]) if kreads < 0 else 512
                sc = scen(fmt=f['fmt'], data=name, src=rng.choice(['mem', 'file']), cuts=cuts_for(rng, len(f['bytes']), rng.choice(['none', 'random'])), mask=mask,
                          meta=rng.choice([1, 0]), bt=rng.choice(['any', 'single']), pool=rng.choice([0, 1, 2]), hdr=rng.choice([0, 1]), k=kreads,
                          stop=rng.choice(['close', 'dtor']), pl=0, ps=1, trace=0, wd=120000, stack=stack)
                first = next((i for i, d in enumerate(f['ref']) if TYPE_BIT[d[0]] & mask), len(f['ref']))
                add(sc, env_i, heavy=True, kind='file', file=name, shape='deep-nesting' + ('-partial-read' if kreads >= 0 else '') if name.startswith('sdeep') else 'unselected-objects-first',
                    run=first, mask=mask, stack=stack, partial=kreads >= 0, family=None)

    nrun = 0
    hwm_all = []
    families = {}
    allfiles = dict(files)
    for env_i, env in enumerate(envs):
        sc = per_env[env_i]
        t_env = time.time()
        blocks = run_attributed(hbin, scratch, env, defs, sc)
        if os.environ.get('C05_SCALE_DEBUG'):
            print('scale env %d [%s]: %d scenarios %.1fs' % (env_i, env_str(env), len(sc), time.time() - t_env), flush=True)
        ctx.count('env:scale:' + env_str(env))
        if len(blocks) < len(sc) and all(b.end == 'ok' for b in blocks) and not ctx.violations:
            ctx.violation('harness-incomplete', 'only %d of %d scale scenarios ran under [%s]' % (len(blocks), len(sc), env_str(env)), {'kind': 'check-error'}, found_input=False)
        for b in blocks:
            info = scen_info.get((env_i, b.line))
            if info is None:
                continue
            nrun += 1
            ctx.note_case('scale ' + env_str(env) + ' ' + b.line)
            ctx.count('scenario:scale:%s' % info['kind'])
            fmt = b.kv.get('fmt')
            outcome = 'ok'
            cfg = '%s [%s]' % (b.line, env_str(env))
            need = []
            if info['kind'] == 'pbf-blocks':
                need = [c.split('*')[0] for c in big[info['file']]['cat'].split()[2:]] + [info['file']]
            elif info['kind'] == 'file' and len(allfiles[info['file']]['bytes']) < 100000:
                need = [info['file']]
            rep = {'scale': info['shape'], 'longest_run_without_data': info['run'], 'consumer_stack_kib': info['stack'] or 'default',
                   'files': [d for d in defs if d.split()[1] in need], 'replay': 'feed the lines of `files` and the scenario line to the c05 harness under `env`'}
            if b.end != 'ok':
                outcome = 'timeout' if b.end == 'timeout' else 'CRASH'
                what = ('the reading process %s (%s) instead of delivering the selected objects: %s with a run of %d consecutive %s that deliver nothing, stack of the reading thread %s, in `%s`'
                        % ('did not finish' if b.end == 'timeout' else 'was killed', b.end, {'pbf-blocks': 'PBF file', 'mock': 'parser', 'file': '%s file' % fmt}[info['kind']],
                           info['run'], 'blocks' if info['kind'] == 'pbf-blocks' else 'buffers / nesting levels' if info['kind'] == 'mock' else 'objects',
                           '%d KiB' % info['stack'] if info['stack'] else 'default (8 MiB)', cfg))
                report('reader-%s:%s:%s:mask=%s' % ('stuck' if b.end == 'timeout' else 'crash', fmt, info['shape'], mask_name(info['mask'])), what, rep, b)
            else:
                hit = False
                for mname, ok, d in b.mon:
                    ctx.count('monitor:%s:%s' % (mname, 'ok' if ok else 'FAIL'))
                    if not ok:
                        hit = True
                        report('monitor:%s:%s' % (mname, fmt), 'monitor `%s` failed (%s) in `%s`' % (mname, d, cfg), dict(rep, monitor=mname), b)
                if info['kind'] == 'file':
                    hit = check_block(ctx, b, allfiles, lambda kk, w, e, b=b: report(kk, w, dict(rep, **e), b)) or hit
                else:
                    meta = b.kv.get('meta', '1') == '1'
                    if info['kind'] == 'pbf-blocks':
                        want = [d for d in big[info['file']]['want'] if TYPE_BIT[d[0]] & info['mask']]
                        if not meta:
                            want = [strip_meta(d) for d in want]
                    else:
                        want = None
                    bad = None
                    n = 0
                    for serial, frm, ds in b.bufs:
                        if len(ds) == 1 and ds[0].startswith('#'):
                            cnt, dg = ds[0][1:].split(':')
                            cnt = int(cnt)
                            exp = want[n:n + cnt]
                            if len(exp) != cnt or (meta and fnv64('|'.join(exp)) != int(dg)):
                                bad = bad or 'buffer %d (objects %d..%d) differs from the expected sequence' % (serial, n, n + cnt - 1)
                            n += cnt
                            continue
                        for d in ds:
                            if want is not None:
                                g = d if meta else strip_meta(d)
                                if n >= len(want) or g != want[n]:
                                    bad = bad or 'object %d: got `%s` want `%s`' % (n, d[:120], (want[n] if n < len(want) else 'nothing more')[:120])
                            elif not d.startswith('n %d ' % (n + 1)):
                                bad = bad or 'object %d is `%s`, the parser sent node %d' % (n, d[:80], n + 1)
                            n += 1
                    total = len(want) if want is not None else info['nodes']
                    if not info.get('partial'):
                        if bad is None and n != total:
                            bad = 'delivered %d objects, the file order filtered by the mask has %d' % (n, total)
                        if bad is None and b.obs.get('eof') != '1':
                            bad = 'the read did not end with the end-of-data marker (error=%s %s)' % (b.obs.get('error'), b.obs.get('first_error'))
                        calls = [r for c, r in b.api if c == 'read']
                        eof_i = [i for i, r in enumerate(calls) if r[:1] == ['eof']]
                        if bad is None and (not eof_i or not calls[eof_i[0] + 1:] or any(r[:1] != ['throw'] for r in calls[eof_i[0] + 1:])):
                            bad = 'read() after the end-of-data marker did not throw'
                    elif bad is None and n > total:
                        bad = 'delivered %d objects of %d' % (n, total)
                    if bad:
                        hit = True
                        report('wrong-sequence:%s:%s:mask=%s' % (fmt, info['shape'], mask_name(info['mask'])),
                               'Reader output differs from the mask-filtered file order: %s in `%s` (longest run of blocks / buffers without data: %d)' % (bad, cfg, info['run']),
                               rep, b)
                if hit:
                    outcome = 'WRONG'
                hwm = b.obs.get('stack_hwm')
                if hwm is not None:
                    hwm = int(hwm)
                    if not info.get('partial'):
                        hwm_all.append(hwm)
                        if info['family']:
                            families.setdefault(info['family'], []).append((info['size'], hwm, b, info['run']))
                    ctx.count('scale:consumer-stack-hwm:%s:%s' % ('abandoned-read-of-nested-buffers' if info.get('partial') else 'complete-read',
                                                                    '<16K' if hwm < 16384 else '<32K' if hwm < 32768 else '<64K' if hwm < 65536 else '<128K' if hwm < 131072 else '>=128K'))
                    if info.get('partial'):
                        d = ctx.extra.setdefault('scale_nested_destructor_hwm', {})
                        d[info['shape']] = max(d.get(info['shape'], 0), hwm)
            ctx.count('scale:%s:%s:run=%s:mask=%s:stack=%s:%s' % (fmt, info['shape'] if not info['shape'].startswith('nested-depth') else re.sub(r'\d+', 'D', info['shape']),
                                                                  run_class(info['run']), mask_name(info['mask']), '%dK' % info['stack'] if info['stack'] else 'default', outcome))
            ctx.count('scale:library-thread-stack:%s' % (env.get('C05_THREAD_STACK_KB', 'default') + ('K' if 'C05_THREAD_STACK_KB' in env else '')))
        if len(ctx.violations) >= 8:
            break
    # the stack the reading thread needs does not depend on how many blocks / buffers deliver nothing
    for fam, rows in sorted(families.items(), key=str):
        rows.sort(key=lambda r: r[0])
        lo, hi = rows[0], max(rows, key=lambda r: r[1])
        if len({r[0] for r in rows}) > 1:
            ctx.count('scale:hwm-compared-across-run-lengths')
            if hi[1] - min(r[1] for r in rows) > SCALE_HWM_TOLERANCE and len(ctx.violations) < 8:
                small = min(rows, key=lambda r: r[1])
                report('stack-grows-with-run-length:%s:%s:mask=%s' % (fam[0], fam[1], mask_name(fam[2])),
                       'the stack used by the thread that calls Reader::read() grows with the number of blocks / buffers of the input: high-water mark %d bytes '
                       'with %d blocks (longest run without data %d: `%s`) but %d bytes with %d blocks (longest run without data %d: `%s`)'
                       % (small[1], small[0], small[3], small[2].line, hi[1], hi[0], hi[3], hi[2].line), {}, hi[2])
    if hwm_all:
        ctx.extra['scale_consumer_stack_hwm_bytes'] = {'min': min(hwm_all), 'max': max(hwm_all), 'runs': len(hwm_all)}
    ctx.extra['scale_scenarios'] = nrun
    for sc in [s for e in per_env for s in e][:2]:
        ctx.sample('scale :: ' + sc)
    return nrun


def ops_of(f):
    from props import c01_pbf as P
    r = f['specop']
    return 'specmix %d %s | %s' % (r['dm'], r['ch'].s(), ' | '.join([P.dump_header(r['hdr'])] + f['spec']))


def run(ctx):
    rng = ctx.rng
    quick = ctx.tier == 'quick'
    ctx.rule = ('one case = (environment: OSMIUM_POOL_THREADS 1/2/3/8/32 x OSMIUM_MAX_{INPUT,OSMDATA,WORK}_QUEUE_SIZE 1/2/default x '
                'OSMIUM_USE_POOL_THREADS_FOR_PBF_PARSING on/off, one process each) x scenario (file in 4 formats — multi-block PBF by blob '
                'concatenation, o5m with/without resets — x entity mask 0..15 x read_meta x buffers_type x chunking of the input x memory/file '
                'input x explicit pool size x header() placement x perturbation level/seed); all with 256-byte initial parser buffers so that '
                'nested buffers occur; every case runs the real Reader under real threads; plus complete reads of the multi-blob PBF files with the '
                'first / a middle / the last data blob made undecodable (blob-fault monitor: what is delivered is a prefix of the decode of '
                'the blobs before it, never a clean end of data, the read ends with an exception); plus PBF files with mixed-type PrimitiveBlocks '
                '(specification encoder with per-group dense/plain choice: all six orders of n/w/r groups, dense + plain node groups in one block, plain '
                'nodes behind way/relation groups, a type coming back, group splitting, random layouts with the other encoding choices of C02, zlib '
                'twins, one unparsable object inside one group) x every n/w/r mask (+ changeset bit) x read_meta x pool parsing on/off, each compared '
                'with the mask-filtered single-threaded read of all types and with the model decoder run with the same mask; plus the scale '
                'dimension: PBF files with runs of 200 / 2 000 - 20 000 (thorough 200 000) consecutive one-object blocks of an excluded type in '
                'seven shapes x masks, a parser queueing that many valid buffers without data, buffers nested 1 000 - 10 000 deep, one PBF block '
                'decoded into > 1 000 nested buffers, long runs of unselected objects in XML/OPL/o5m — read by a thread with a painted 64-256 KiB '
                'stack (library threads 64-128 KiB): sequence = mask-filtered file order, no crash, stack high-water mark independent of the run length')
    ctx.assumptions += [
        'the OS scheduler is not enumerated: the theorems cover all interleavings of the MODEL; the runs validate that behaviours observed '
        'from the implementation (under seeded schedule perturbation) are behaviours of the model and satisfy the property',
        'std::future/promise/packaged_task, std::mutex, std::condition_variable, std::thread::join behave as the monitor semantics of Model/Mon.lean',
        'the single-threaded decode (the format parser run on one thread without Reader, queues pre-filled) defines `objects file`; its '
        'correctness is C02, its independence of chunking is C06',
    ]
    ctx.assumptions.append('mixed-type PrimitiveBlocks: Model/PbfMixed.lean encodeMixed is my reading of osmformat.proto (PrimitiveBlock.primitivegroup is '
                           'repeated, only a PrimitiveGroup is type-homogeneous); read_meta::no is compared modulo version/timestamp/changeset/uid/user and the '
                           'visible flag (PBF keeps it in Info/DenseInfo)')
    ctx.assumptions.append('scale: the machine stack is NOT part of the Lean model (the consumer is a flat record with a program counter); "stack use does not '
                           'grow with the number of skipped buffers" is checked only by the small-stack monitor (consumer thread on 64-256 KiB, default size of '
                           'the library threads 64-128 KiB, runs up to 20 000 / 200 000 buffers without data). Measured on the unmodified code: the reading '
                           'thread needs 10-13 KiB whatever the run length; destroying a Reader / Buffer that still holds a chain of nested buffers recurses '
                           'once per level (~16 bytes each at -O1: depth = decoded block size / initial buffer size, <= a few thousand with the production '
                           'constants 64 KiB / 32 MiB) — recorded in the evidence (scale_nested_destructor_hwm), not an alarm. Heap use is not monitored '
                           '(the queue bounds limit the buffers in flight).')
    ctx.trusted.append('trace completion in tools/props/c05.py is NOT trusted: every event it proposes is checked by the proved step function')

    proof_ok = ctx.proof_stage(exes=['model_c05', 'model_pbf'])

    hbin = build_harness(ctx, 'c05rd')
    if hbin is None:
        return
    scratch = os.path.join(vlib.BUILD, 'c05-%d' % os.getpid())
    os.makedirs(scratch, exist_ok=True)
    try:
        _run(ctx, rng, quick, hbin, scratch, proof_ok)
    finally:
        for fn in os.listdir(scratch):
            os.remove(os.path.join(scratch, fn))
        os.rmdir(scratch)


def _run(ctx, rng, quick, hbin, scratch, proof_ok):
    files = gen_files(ctx, hbin, scratch, rng, quick)
    if files is None or not reference_decode(ctx, hbin, scratch, files):
        return
    base_names = list(files)
    fault_names = add_blob_fault_files(files)
    for name, f in files.items():
        ctx.count('file:%s:%s' % (f['fmt'], f['kind']))
        ctx.count('reference-objects', len(f['ref']))
    defs = ['def %s %s' % (n, hx(f['bytes'])) for n, f in files.items()]

    def report(key, what, extra, block=None, found_input=True):
        rep = {'kind': 'counterexample'}
        if block is not None:
            rep.update({'scenario': block.line, 'env': block.env,
                        'replay': 'feed the `def` line of the file and the scenario line to the c05 harness under the given environment'})
        rep.update(extra)
        ctx.violation(key, what, rep, found_input=found_input)

    all_blocks = []
    nvalid = 0
    for env in env_grid(rng, quick):
        sc = scenarios_for(rng, {n: files[n] for n in base_names}, quick)
        if quick:
            rng.shuffle(sc)
            sc = sc[:170]
        sc += blob_fault_scenarios(rng, files, fault_names, quick)
        blocks = run_process(hbin, scratch, env, defs, sc)
        all_blocks.extend(blocks)
        ctx.count('env:' + env_str(env))
        for b in blocks:
            ctx.note_case(env_str(env) + ' ' + b.line)
            ctx.count('scenario:%s' % b.kv.get('fmt'))
            ctx.count('mask:%s' % b.kv.get('mask'))
            b.monitor_hit = check_block(ctx, b, files, lambda k, w, e, b=b: report(k, w, e, b))
        if ctx.exe_build_ok:
            nvalid += validate_traces(ctx, [b for b in blocks if b.events and not b.monitor_hit], files, report)
        if len(blocks) < len(sc) and not ctx.violations:
            ctx.violation('harness-incomplete', 'only %d of %d scenarios ran under [%s]' % (len(blocks), len(sc), env_str(env)), {'kind': 'check-error'}, found_input=False)
        if len(ctx.violations) >= 8:
            break
    if len(ctx.violations) < 8:
        nvalid += mixed_pass(ctx, rng, quick, hbin, scratch, report)
    if len(ctx.violations) < 8:
        scale_pass(ctx, rng, quick, hbin, scratch, report)
    ctx.extra['scenarios_run'] = len(all_blocks) + ctx.extra.get('mixed_block_scenarios', 0) + ctx.extra.get('scale_scenarios', 0)
    ctx.extra['traces_validated'] = nvalid
    if ctx.exe_build_ok and nvalid == 0 and not ctx.violations:
        ctx.violation('no-trace-validated', 'no trace could be validated against the model', {'kind': 'check-error'}, found_input=False)
    for b in all_blocks[:3]:
        ctx.sample(env_str(b.env) + ' :: ' + b.line)


# ------------------------------------------------------------------------------------------
# trace completion: raw hook trace -> per-thread model items for the scheduling validator
# (lean/Driver/C05.lean).  UNTRUSTED: whatever is proposed here is checked by `Pipeline.step?`.
# ------------------------------------------------------------------------------------------
def o5m_dataset_ends(data):
    ends = []
    p = 0
    n = len(data)
    while p < n:
        t = data[p]
        p += 1
        if t >= 0xf0:
            continue
        ln = 0
        sh = 0
        while p < n:
            b = data[p]
            p += 1
            ln |= (b & 0x7f) << sh
            sh += 7
            if b < 0x80:
                break
        p += ln
        if t in (0x10, 0x11, 0x12):
            ends.append(p)
    return ends


def object_avail_offsets(f):
    """for every object of the reference decode: the number of bytes of the file that must have
    arrived before the parser can have produced it (never later than the truth)"""
    fmt, data, n = f['fmt'], f['bytes'], len(f['ref'])
    if fmt == 'opl':
        offs = []
        start = 0
        for i, ch in enumerate(data):
            if ch == 10:
                if i > start:
                    offs.append(i + 1)
                start = i + 1
        if start < len(data):
            offs.append(len(data))
    elif fmt == 'xml':
        offs = [m.start() + 1 for m in re.finditer(rb'<(?:node|way|relation|changeset)[ >]', data)]
    elif fmt == 'o5m':
        offs = o5m_dataset_ends(data)
    else:
        offs = []
        for (s, e), cnt in zip(pbf_blobs(data)[1:], f.get('blob_counts', [])):
            offs += [e] * cnt
    return offs if len(offs) == n else None


def queue_max(env, name, default=20):
    v = env.get('OSMIUM_MAX_%s_QUEUE_SIZE' % name)
    try:
        v = int(v) if v else default
    except ValueError:
        v = default
    if v == 0:
        v = default
    return max(v, 2)


class Cannot(Exception):
    pass


def complete_trace(b, f, exc_mode='auto'):
    """Returns (lines, None) or (None, reason-not-validated)."""
    kv, ev = b.kv, b.events
    fmt = kv.get('fmt')
    if kv.get('src', 'mem') != 'mem':
        return None, 'file-input'
    if not ev:
        return None, 'no-trace'
    if f is None or f.get('fault') not in (None, 'none'):
        return None, 'corrupt-or-truncated-file'
    if b.obs.get('ctor') != 'ok':
        return None, 'constructor-failed'
    mask = int(kv.get('mask', '15'))
    meta = kv.get('meta', '1') == '1'
    single = kv.get('bt') == 'single'
    mock = fmt == 'mock'
    pbf = fmt == 'pbf'
    usepool = pbf and b.env.get('OSMIUM_USE_POOL_THREADS_FOR_PBF_PARSING', 'on').lower() not in ('off', 'false', 'no', '0')
    data = f['bytes']
    cuts = kv.get('cuts', '-')
    bounds = ([int(x) for x in cuts.split(',')] if cuts != '-' else [])
    bounds = sorted({c for c in bounds if 0 < c < len(data)}) + [len(data)]
    if mock:
        script = kv.get('mp', '')
        if not re.fullmatch(r'[hiexb0-9]*', script) or not re.search(r'[ex]$', script):
            return None, 'mock-script-outside-model'
        first_b = script.find('b')
        first_in = min([p for p in (script.find('i'), script.find('e')) if p >= 0], default=-1)
        if first_b >= 0 and (first_in < 0 or first_in > first_b):
            return None, 'mock-script-outside-model'
        if 'h' not in script and 'x' not in script:
            return None, 'mock-script-outside-model'
        if 'x' in script and 'e' not in script.split('x')[0]:
            # a parser that throws before it has consumed its input: the model's parser faults are tied to the data
            return None, 'mock-script-outside-model'
        counts =[int(m) for m in re.findall(r'b(\d+)', script.split('x')[0])]
        n = sum(counts)
        types = 'n' * n
        chunk_end = [n] * len(bounds)
        single = True
        mask = 15
    else:
        types = ''.join(d[0] for d in f['ref'])
        n = len(types)
        offs = object_avail_offsets(f)
        if offs is None:
            return None, 'no-object-offsets'
        chunk_end = [sum(1 for o in offs if o <= e) for e in bounds]
    sel = [bool(TYPE_BIT[t] & mask) for t in types]
    blob_end = []
    if pbf:
        acc = 0
        for cnt in f.get('blob_counts', []):
            acc += cnt
            blob_end.append(acc)
        if acc != n:
            return None, 'no-blob-counts'
    workers = sorted({e[0] for e in ev if e[0] >= 200 and e[1] == 'worker-got'})
    iq, oq = queue_max(b.env, 'INPUT'), queue_max(b.env, 'OSMDATA')
    rfault = str(int(kv['fread']) - 1) if 'fread' in kv else '-'
    pfault = '-'
    if mock and 'x' in kv.get('mp', ''):
        pfault = str(n)
    cfg = ('cfg types=%s mask=%d chunks=%s pbf=%d blobs=%s usepool=%d workers=%s wq=0 iq=%d oq=%d single=%d rfault=%s cfault=%d pfault=%s bfault=-'
           % (types or '-', mask, ','.join(map(str, chunk_end)) or '-', pbf, ','.join(map(str, blob_end)) or '-', usepool,
              ','.join(map(str, workers)) or '-', iq, oq, single, rfault, 1 if 'fclose' in kv else 0, pfault))
    if not types:
        cfg = cfg.replace('types=-', 'types=')

    out = [cfg]

    def emit(t, tag, qid=0, arg='0', pl='-', mode='~'):
        out.append('%d %s %d %s %s %s' % (t, tag, qid, arg, pl, mode))

    by_thread = {}
    for i, e in enumerate(ev):
        by_thread.setdefault(e[0], []).append(i)
    pos = {}
    for t, idx in by_thread.items():
        for k, i in enumerate(idx):
            pos[i] = k

    def nxt(i, skip_q=()):
        """next raw event of the same thread (ignoring events of the queues in skip_q)"""
        idx = by_thread[ev[i][0]]
        for j in idx[pos[i] + 1:]:
            if ev[j][2] not in skip_q:
                return ev[j]
        return None

    LOCKED = ('push-full-waited', 'push-locked', 'pop-wait', 'pop-woken', 'pop-took', 'shutdown-locked')
    next_locked = {}
    for q in (1, 2):
        li = [i for i, e in enumerate(ev) if e[2] == q and e[1] in LOCKED]
        for a, c in zip(li, li[1:]):
            next_locked[a] = c

    def blocked(i):
        j = next_locked.get(i)
        return not (j is not None and ev[j][0] == ev[i][0] and ev[j][1] == 'pop-woken')

    def after_push_enter(i, t, q, qmax):
        """the unlocked test of m_in_use and the first size() of a push() that starts at raw event i"""
        e2 = nxt(i, skip_q=(3,) if q != 3 else ())
        went_on = e2 is not None and e2[2] == q and e2[1] in ('push-full-waited', 'push-locked')
        if went_on:
            emit(t, 'push-test', q, '1')
            if qmax:
                emit(t, 'push-size', q, '*', 'full' if e2[1] == 'push-full-waited' else 'space')
        else:
            emit(t, 'push-test', q, '0')
        return went_on

    def after_full_waited(i, t, q):
        e2 = nxt(i)
        if e2 is not None and e2[2] == q and e2[1] in ('push-full-waited', 'push-locked'):
            emit(t, 'push-size', q, '*', 'full' if e2[1] == 'push-full-waited' else 'space')

    # ---------------------------------------------------------------- consumer observations
    groups = []     # levels (object counts) of the futures that delivered something, in order
    for serial, frm, ds in b.bufs:
        if frm == 'q':
            groups.append([len(ds)])
        elif groups:
            groups[-1].append(len(ds))
        else:
            raise Cannot('back buffer before any queue buffer')
    exp_idx = [i for i in range(n) if sel[i]]
    if sum(sum(g) for g in groups) > len(exp_idx):
        return None, 'more-objects-than-expected'
    hdr_ok = any(c == 'header' and r[:1] == ['ok'] for c, r in b.api)
    hdr_thrown = any(c == 'header' and r[:2] == ['throw', 'InjectedError.%s' % r[1].split('.')[-1]] for c, r in b.api if len(r) > 1)

    # ---------------------------------------------------------------- parser plan
    p_pushes = [i for i in by_thread.get(2, []) if ev[i][1] == 'push-enter' and ev[i][2] == 2]
    p_threw = any(ev[i][1] == 'mock-throw' for i in by_thread.get(2, []))
    r_threw = any(ev[i][1] in ('d-read-throw', 'd-close-throw') for i in by_thread.get(1, []))
    # an exception of the real parser that no hook marks (e.g. the input looks truncated because the read thread was
    # stopped early) is a hypothesis of the caller: validated by the model like everything else
    # exc_mode: 'auto' = the parser ended with an exception iff a hook marked one (decompressor / mock parser);
    # 'none' = it ended normally although the read thread failed (it stopped before it got there: a PBF parser
    # stops when the osmdata queue is shut down); 'own' = it raised an exception of its own that no hook marks
    marked = p_threw or r_threw
    own_exc = exc_mode == 'own' and not marked
    has_exc = {'auto': marked, 'none': False, 'own': True}[exc_mode]
    npush = len(p_pushes)
    if npush < (2 if has_exc else 1):
        return None, 'parser-pushes-missing'
    ndata = npush - (2 if has_exc else 1)
    kinds = ['data'] * ndata + (['exc'] if has_exc else []) + ['eod']
    if pbf and ndata > len(blob_end):
        raise Cannot('more data futures than blobs')
    # levels per data push (object index lists); None = unknown (never delivered)
    levels = [None] * ndata
    cursor = 0
    if pbf:
        gi = 0
        a = 0
        for j in range(ndata):
            e_j = [i for i in range(a, blob_end[j]) if sel[i]]
            a = blob_end[j]
            if not e_j:
                levels[j] = [[]]
                continue
            if gi < len(groups):
                g = groups[gi]
                gi += 1
                if sum(g) > len(e_j):
                    raise Cannot('delivered levels do not match the blob')
                lv = []
                p = 0
                for cnt in g:
                    lv.append(e_j[p:p + cnt])
                    p += cnt
                if p < len(e_j):
                    lv.append(e_j[p:])   # the consumer stopped inside this future
                levels[j] = lv
            else:
                levels[j] = [e_j]
    else:
        for j, g in enumerate(groups):
            if j >= ndata:
                raise Cannot('more delivered futures than data pushes')
            lv = []
            for cnt in g:
                lv.append(exp_idx[cursor:cursor + cnt])
                cursor += cnt
            levels[j] = lv

    st = {'next': 0, 'avail': 0, 'cur': [], 'nested': [], 'hdr': False, 'blob': 0, 'inputs': 0, 'nout': 0, 'nin': 0}
    r_enq = []      # values enqueued by the read thread, in order: ('chunk', i) / ('exc',) / ('eod',)

    def ensure_header():
        if not st['hdr'] and not hdr_thrown:
            emit(2, 'p-header')
            st['hdr'] = True

    if hdr_ok:
        ensure_header()     # header() returned the header: the promise was set; the model may set it at once

    def parse_one(grow):
        i = st['next']
        if i >= st['avail']:
            raise Cannot('plan needs object %d but only %d are available' % (i, st['avail']))
        ensure_header()
        emit(2, 'p-obj', 0, '1' if grow else '0')
        if sel[i]:
            if grow and st['cur']:
                st['nested'].append(st['cur'])
                st['cur'] = [i]
            else:
                st['cur'].append(i)
        st['next'] = i + 1

    def parse_until_selected(grow):
        while st['next'] < n and not sel[st['next']]:
            parse_one(False)
        parse_one(grow)

    def parse_level_sequence(lv):
        """bring (nested, cur) to exactly lv[:-1], lv[-1]"""
        flat = [x for l in lv for x in l]
        have = [x for l in st['nested'] for x in l] + st['cur']
        if have != flat[:len(have)]:
            raise Cannot('parser buffer %s is not a prefix of the future %s' % (have, flat))
        # which level are we in
        done = len(have)
        starts = set()
        p = 0
        for l in lv[:-1]:
            p += len(l)
            starts.add(p)
        for k in range(done, len(flat)):
            parse_until_selected(k in starts and k > 0)
            if st['next'] - 1 != flat[k]:
                raise Cannot('object order mismatch')
        if [l for l in st['nested']] + [st['cur']] != [list(l) for l in lv]:
            raise Cannot('level structure mismatch %s vs %s' % (st['nested'] + [st['cur']], lv))

    def plan_data_push(j):
        # the final flush happens after the parser has seen the end of its input
        last_data = j == ndata - 1 and not has_exc and st.get('input_done', False)
        lv = levels[j]
        if pbf:
            b_i = st['blob']
            split = lv if lv is not None else [[]]
            ensure_header()
            return ('blob', ';'.join(','.join(map(str, l)) or '-' for l in split), b_i)
        if lv is None:
            if last_data:
                while st['next'] < st['avail']:
                    parse_one(False)
                if not st['cur']:
                    raise Cannot('final flush with an empty buffer')
                kind = 'p-flush-final'
            elif single:
                if not st['cur']:
                    parse_until_selected(False)
                kind = 'p-new-buf'
            else:
                if not st['cur']:
                    parse_until_selected(False)
                parse_until_selected(True)
                kind = 'p-flush-nested'
        else:
            if last_data:
                parse_level_sequence(lv)
                while st['next'] < st['avail']:
                    if sel[st['next']]:
                        raise Cannot('selected objects after the final buffer')
                    parse_one(False)
                kind = 'p-flush-final'
            elif len(lv) == 1 and not (single and mock):
                nxt_sel = next((i for i in range(lv[0][-1] + 1, n) if sel[i]), None)
                if single and (nxt_sel is None or types[nxt_sel] != types[lv[0][-1]] or nxt_sel >= st['avail']):
                    parse_level_sequence(lv)
                    kind = 'p-new-buf'
                else:
                    parse_level_sequence(lv)
                    parse_until_selected(True)
                    kind = 'p-flush-nested'
            else:
                if not single:
                    raise Cannot('multi-level future that is not the final flush')
                parse_level_sequence(lv)
                kind = 'p-new-buf'
        emit(2, kind)
        if kind == 'p-flush-nested':
            st['nested'].pop(0)
        else:
            st['nested'], st['cur'] = [], []
        return ('push',)

    # ---------------------------------------------------------------- walk the raw trace
    c_state = {'status': 'okay', 'hdr_got': False, 'sd': 0, 'in_read': False, 'call': None}
    api_iter = iter(b.api)
    api_results = [(c, r) for c, r in b.api if c in ('header', 'read', 'close')]
    api_pos = {'k': 0}
    buf_iter = iter(b.bufs)
    delivered = {'k': 0}
    push_k = {'k': 0}
    pending_blob = {}
    pool_push_seen = {'k': 0}
    last_tag = {}

    def res_of(call):
        c, r = api_results[api_pos['k']]
        api_pos['k'] += 1
        if c != call:
            raise Cannot('API log out of step: %s vs %s' % (c, call))
        return r

    def exc_code(r):
        w = r[1] if len(r) > 1 else ''
        if w.startswith('InjectedError.'):
            return 'exc:' + w.split('.')[1].split('[')[0]
        if w.startswith('osmium::io_error'):
            return 'ioerror'
        return 'exc:9'

    for i, (t, tag, q, arg, payload) in enumerate(ev):
        if q == 3 and not (t == 2 and tag == 'push-locked') and tag != 'worker-got':
            continue
        if t == 1:
            if tag == 'd-read':
                emit(1, 'r-test-done', 0, '0')
            elif tag == 'd-read-data':
                emit(1, 'r-read', 0, '0', 'chunk:%d' % payload, '!')
                st['r_val'] = ('chunk', payload)
            elif tag == 'd-read-eof':
                emit(1, 'r-read', 0, '0', 'eod', '!')
            elif tag == 'd-read-throw':
                emit(1, 'r-read', 0, '0', 'exc:1', '!')
                st['r_val'] = ('exc',)
            elif tag in ('d-close', 'd-close-throw'):
                if last_tag.get(1) != 'd-read-eof':
                    emit(1, 'r-test-done', 0, '1')
                emit(1, 'r-close-dec', 0, '1' if tag == 'd-close' else '0', '-', '!')
                st['r_val'] = ('eod',) if tag == 'd-close' else ('exc',)
            elif tag == 'push-enter' and q == 1:
                emit(1, 'push-enter', 1, '0', str(2 * st['nin']), '!')
                st['nin'] += 1
                if not after_push_enter(i, 1, 1, iq):
                    emit(1, 'r-set')
                    if st.get('r_val') == ('exc',):
                        st['r_val'] = ('eod',)
            elif tag == 'push-full-waited' and q == 1:
                emit(1, 'push-full-waited', 1, str(arg), '-', '!')
                after_full_waited(i, 1, 1)
            elif tag == 'push-locked' and q == 1:
                emit(1, 'push-locked', 1, str(arg), '*', '!')
                emit(1, 'r-set')
                r_enq.append(st.get('r_val'))
                if st.get('r_val') == ('exc',):
                    st['r_val'] = ('eod',)
            last_tag[1] = tag
        elif t == 2:
            if q == 1:
                if tag == 'pop-wait':
                    emit(2, 'p-in-use', 0, '1')
                    if blocked(i):
                        emit(2, 'pop-block', 1, '0', '-', '!')
                        st['p_blocked'] = True
                    else:
                        emit(2, 'pop-now', 1, str(arg), '*', '!')
                        st['p_blocked'] = False
                        st['p_took'] = arg > 0
                elif tag == 'pop-woken':
                    if st.get('p_blocked'):
                        emit(2, 'pop-wake', 1, str(arg), '*', '!')
                        st['p_blocked'] = False
                        st['p_took'] = arg > 0
                    if st.get('p_took'):
                        emit(2, 'p-get', 0, '0', '*')
                        v = r_enq[st['inputs']] if st['inputs'] < len(r_enq) else None
                        st['inputs'] += 1
                        if v and v[0] == 'chunk':
                            st['avail'] = chunk_end[v[1]] if v[1] < len(chunk_end) else st['avail']
                        elif v and v[0] == 'eod':
                            st['input_done'] = True
                        st['p_took'] = False
                    elif 'p_took' in st and tag == 'pop-woken' and arg == 0:
                        st['input_done'] = True
                elif tag == 'shutdown-flag':
                    emit(2, 'sd-enter', 1)
                    emit(2, 'sd-flag', 1, '0', '-', '^')
                    emit(2, 'sync', 0, '0', '-', '!')
                elif tag == 'shutdown-locked':
                    emit(2, 'sd-locked', 1, '0', '-', '!')
            elif q == 3 and tag == 'push-locked':
                # Pool::submit enqueued the job of the next blob
                j = push_k['k'] + pool_push_seen['k']
                if j >= ndata:
                    raise Cannot('submit without a data future')
                kind = plan_data_push(j)
                out.append('2 p-blob 0 0 %s !' % kind[1])
                st['next'] = blob_end[st['blob']]
                st['blob'] += 1
                pool_push_seen['k'] += 1
            elif tag == 'mock-throw':
                emit(2, 'p-throw')
            elif tag == 'push-enter' and q == 2:
                k = push_k['k']
                kind = kinds[k] if k < len(kinds) else None
                if kind is None:
                    raise Cannot('unexpected push')
                if kind == 'data':
                    if usepool:
                        if pool_push_seen['k'] <= 0:
                            raise Cannot('future pushed without a submit')
                        pool_push_seen['k'] -= 1
                    else:
                        r = plan_data_push(k)
                        if r[0] == 'blob':
                            emit(2, 'p-blob', 0, '0', r[1])
                            st['next'] = blob_end[st['blob']]
                            st['blob'] += 1
                elif kind == 'exc':
                    if own_exc:
                        out[0] = out[0].replace('pfault=-', 'pfault=%d' % st['next'])
                        emit(2, 'p-throw')
                    emit(2, 'p-catch')
                elif kind == 'eod' and not has_exc:
                    if mask != 0 or True:
                        while st['next'] < st['avail'] and not pbf:
                            if sel[st['next']]:
                                raise Cannot('selected object %d never pushed' % st['next'])
                            parse_one(False)
                    ensure_header()
                    if st['cur']:
                        raise Cannot('buffer not empty at the end of run()')
                    emit(2, 'p-run-end')
                emit(2, 'push-enter', 2, '0', str(2 * st['nout'] + 1), '!')
                st['nout'] += 1
                push_k['k'] += 1
                st['p_kind'] = kind
                if not after_push_enter(i, 2, 2, oq):
                    if not (kind == 'data' and usepool):
                        emit(2, 'p-set')
            elif tag == 'push-full-waited' and q == 2:
                emit(2, 'push-full-waited', 2, str(arg), '-', '!')
                after_full_waited(i, 2, 2)
            elif tag == 'push-locked' and q == 2:
                emit(2, 'push-locked', 2, str(arg), '*', '!')
                if not (st.get('p_kind') == 'data' and usepool):
                    emit(2, 'p-set')
            last_tag[2] = tag
        elif t >= 200:
            if tag == 'worker-got' and arg == 1:
                emit(t, 'w-start', 0, '0', '-', '!')
                emit(t, 'w-done')
        elif t == 0:
            cs = c_state
            if tag == 'header-call':
                emit(0, 'c-header')
                cs['call'] = 'header'
                cs['res'] = res_of('header')
                if cs['status'] != 'error' and not cs['hdr_got']:
                    emit(0, 'c-header-get', 0, '0', '-', '^')
                    cs['hdr_got'] = True
            elif tag == 'header-return':
                r = cs['res']
                if r[0] == 'ok':
                    emit(0, 'c-ret', 0, '0', 'ok', '!')
                else:
                    code = exc_code(r)
                    if code != 'ioerror':
                        emit(0, 'c-join-r')
                        cs['status'] = 'error'
                    emit(0, 'c-ret', 0, '0', code, '!')
            elif tag == 'read-call':
                emit(0, 'c-read')
                cs['call'] = 'read'
                cs['res'] = res_of('read')
                cs['had_back'] = arg == 1
                cs['popping'] = False
            elif tag == 'pop-wait' and q == 2:
                emit(0, 'c-in-use', 0, '1')
                if blocked(i):
                    emit(0, 'pop-block', 2, '0', '-', '!')
                    cs['blocked'] = True
                else:
                    emit(0, 'pop-now', 2, str(arg), '*', '!')
                    cs['blocked'] = False
                    cs['took'] = arg > 0
                    cs['noelem'] = arg == 0
            elif tag == 'pop-woken' and q == 2:
                if cs.get('blocked'):
                    emit(0, 'pop-wake', 2, str(arg), '*', '!')
                    cs['blocked'] = False
                    cs['took'] = arg > 0
                    cs['noelem'] = arg == 0
                if cs.get('took'):
                    emit(0, 'c-get', 0, '0', '*', '^')
                    cs['took'] = False
            elif tag == 'shutdown-flag' and q == 2:
                emit(0, 'sd-enter', 2)
                emit(0, 'sd-flag', 2, '0', '-', '^')
                emit(0, 'sync', 0, '0', '-', '!')
            elif tag == 'shutdown-locked' and q == 2:
                emit(0, 'sd-locked', 2, '0', '-', '!')
                if cs['call'] == 'dtor':
                    cs['sd'] += 1
                    if cs['sd'] == 1:
                        emit(0, 'c-join-r')
                        emit(0, 'c-join-p')
            elif tag == 'read-return':
                r = cs['res']
                if r[0] == 'buf':
                    serial, frm, ds = next(buf_iter)
                    idx = exp_idx[delivered['k']:delivered['k'] + len(ds)] if not mock else list(range(delivered['k'], delivered['k'] + len(ds)))
                    delivered['k'] += len(ds)
                    emit(0, 'c-ret', 0, '0', 'data:' + (','.join(map(str, idx)) or '-'), '!')
                elif r[0] == 'eof':
                    if mask != 0 and cs['status'] == 'okay':
                        emit(0, 'c-join-r')
                    cs['status'] = 'eof'
                    emit(0, 'c-ret', 0, '0', 'eof', '!')
                else:
                    code = exc_code(r)
                    if code != 'ioerror':
                        emit(0, 'c-join-r')
                        cs['status'] = 'error'
                    emit(0, 'c-ret', 0, '0', code, '!')
            elif tag == 'close-call':
                emit(0, 'c-close', 0, '0', '-', '^')
                cs['call'] = 'close'
                cs['res'] = res_of('close')
            elif tag == 'close-return':
                emit(0, 'c-join-r')
                if cs['status'] != 'error':
                    cs['status'] = 'closed'
                else:
                    cs['status'] = 'closed'
                emit(0, 'c-ret', 0, '0', 'ok' if cs['res'][0] == 'ok' else exc_code(cs['res']), '!')
            elif tag == 'dtor-call':
                emit(0, 'c-dtor', 0, '0', '-', '^')
                cs['call'] = 'dtor'
                cs['sd'] = 0
    out.append('end')
    return out, None


def validate_traces(ctx, blocks, files, report):
    """Completes and validates the traces of the given blocks; returns the number validated."""
    texts = []
    owners = []
    for b in blocks:
        f = files.get(b.kv.get('data'))
        if b.end != 'ok':
            continue
        cands = []
        why = None
        for mode in ('auto', 'none', 'own'):
            try:
                lines, why = complete_trace(b, f, exc_mode=mode)
            except Cannot as e:
                lines, why = None, 'cannot-complete'
                if mode == 'auto':
                    ctx.count('trace-not-completed:%s' % str(e)[:60])
            except (StopIteration, IndexError):
                lines, why = None, 'cannot-complete'
            if lines is not None and lines not in cands:
                cands.append(lines)
            if why not in (None, 'cannot-complete', 'parser-pushes-missing'):
                break
        if not cands:
            ctx.count('trace-not-validated:%s' % why)
            continue
        for lines in cands:
            texts.append('\n'.join(lines))
        owners.append((b, cands))
    if not texts:
        return 0
    rc, outl, se = ctx.run_lines([ctx.model_exe('model_c05')], '\n'.join(texts) + '\n')
    if rc != 0 or len(outl) != len(texts):
        ctx.violation('model-driver', 'model driver failed: rc=%d, %d results for %d traces: %s' % (rc, len(outl), len(texts), se[-300:]),
                      {'kind': 'broken-correspondence'}, found_input=False)
        return 0
    nev = 0
    nrej = 0
    pos = 0
    for b, cands in owners:
        rs = outl[pos:pos + len(cands)]
        pos += len(cands)
        acc = [k for k, r in enumerate(rs) if r.startswith('accept')]
        lines = cands[acc[0]] if acc else cands[0]
        res = rs[acc[0]] if acc else rs[0]
        if acc and acc[0] > 0:
            ctx.count('trace:accepted-with-alternative-parser-ending')
        nev += len(b.events)
        if res.startswith('accept'):
            ctx.count('trace:accepted')
            fin = dict(x.split('=', 1) for x in res.split() if '=' in x)
            b.model_final = fin
            # the model's final state must agree with what the harness observed
            if fin.get('prefix') != '1' or fin.get('destroyed') != '1' or fin.get('delivered') != str(len(b.objects())):
                report('trace-final-state:%s' % b.kv.get('fmt'), 'trace of `%s` accepted but the final model state disagrees with the run: %s (harness delivered %d objects)'
                       % (b.line, res, len(b.objects())), {'kind': 'broken-correspondence', 'model_items': lines[:400]}, b, False)
        else:
            ctx.count('trace:rejected')
            nrej += 1
            report('trace-rejected:%s:%s' % (b.kv.get('fmt'), ' '.join(w for w in b.line.split() if w.split('=')[0] in ('stop', 'hdr', 'bt'))),
                   'the event trace of `%s` [%s] is not a run of the pipeline model: %s' % (b.line, env_str(b.env), res[:600]),
                   {'kind': 'broken-correspondence', 'model_items': lines[:600], 'rejected': res}, b, False)
    st = ctx.streams.setdefault('trace-vs-model', {'lines': 0, 'disagreements': 0})
    st['lines'] += nev
    st['disagreements'] += nrej
    return len(owners)
