"""C16 — object orderings are strict weak orders; CheckOrder agrees (DESIGN.md §3 C16).

1. proof stage: lean/Osmium/Props/C16.lean (all objects, all streams) built + axiom audit.
2. correspondence: real comparators / real CheckOrder (harness/c16.cpp) vs the compiled Lean
   model (lean/Driver/C16.lean) on the same op lines.
3. property monitors on the implementation alone (order laws on triples; sort → CheckOrder;
   CheckOrder vs an independent statement of "strictly ascending") — they provide the
   concrete failing input when 1 or 2 break.
"""
import itertools

IDS = [-(2 ** 63) + 1, -(2 ** 32), -2, -1, 0, 1, 2, 2 ** 32, 2 ** 63 - 1]
VERSIONS = [0, 1, 2, 2 ** 31 - 1]
TSS = [0, 1, 1000, 2 ** 32 - 1]


def obj_str(o):
    return '%d %d %d %d %d' % o


def id_key(i):
    return (1 if i > 0 else 0, abs(i))


def spec_ascending(seq):
    """independent statement of the property: strictly ascending by (type, id rule)"""
    ks = [({'n': 1, 'w': 2, 'r': 3}[k],) + id_key(i) for k, i in seq]
    return all(a < b for a, b in zip(ks, ks[1:]))


def run(ctx):
    rng = ctx.rng
    quick = ctx.tier == 'quick'
    ctx.rule = ('cmp: all ordered pairs over the boundary grid (types x 9 ids x versions x timestamps x visible) + random pairs; '
                'chk: all sequences up to length 3 (quick) / 4 (thorough) over kinds x 9 boundary ids + random long ones; '
                'triple/sortchk: law monitors on the implementation. distinct = distinct op lines; all are non-trivial '
                '(every line exercises a comparator or the checker on boundary ids)')

    # ---- 1. proofs ---------------------------------------------------------------
    proof_ok = ctx.proof_stage(exes=['model_c16'])

    # ---- 2. harness ----------------------------------------------------------------
    import vlib
    hbin, err = vlib.build_cpp('c16', ['c16.cpp'])
    if hbin is None:
        ctx.violation('harness-build', 'harness does not compile against the current tree: ' + err[-600:],
                      {'kind': 'harness-build', 'stderr': err}, found_input=False)
        return

    # ---- ops -------------------------------------------------------------------------
    if quick:
        grid = [(t, i, v, ts, vis) for t in (1, 2, 3) for i in IDS for v in (0, 1, 2) for ts in (0, 5, 9) for vis in (0, 1)]
    else:
        grid = [(t, i, v, ts, vis) for t in (1, 2, 3, 4) for i in IDS for v in VERSIONS for ts in TSS for vis in (0, 1)]
    full = [(t, i, v, ts, vis) for t in (1, 2, 3, 4) for i in IDS for v in VERSIONS for ts in TSS for vis in (0, 1)]
    ops = []
    if quick:
        for a in grid:
            for b in grid:
                ops.append('cmp %s %s' % (obj_str(a), obj_str(b)))
    else:
        # all pairs over the full grid is 1152^2 = 1.3M lines: fine for thorough
        for a in full:
            for b in full:
                ops.append('cmp %s %s' % (obj_str(a), obj_str(b)))
    nrand = 20000 if quick else 300000
    for _ in range(nrand):
        def ro():
            if rng.chance(1, 2):
                return rng.choice(full)
            i = rng.choice([rng.below(2 ** 63), -rng.below(2 ** 63), rng.below(10) - 5, rng.choice(IDS)])
            return (rng.choice([1, 2, 3, 4]), i, rng.choice(VERSIONS + [rng.below(2 ** 31)]),
                    rng.choice(TSS + [rng.below(2 ** 32)]), rng.below(2))
        ops.append('cmp %s %s' % (obj_str(ro()), obj_str(ro())))
    elems = [(k, i) for k in 'nwr' for i in IDS]
    maxlen = 3 if quick else 4
    chk_seqs = []
    for n in range(0, maxlen + 1):
        for seq in itertools.product(elems, repeat=n):
            chk_seqs.append(seq)
    for _ in range(2000 if quick else 50000):
        n = 2 + rng.below(30)
        seq = [(rng.choice('nwr'), rng.choice(IDS + [rng.below(100) - 50])) for _ in range(n)]
        if rng.chance(2, 3):
            seq.sort(key=lambda e: ({'n': 1, 'w': 2, 'r': 3}[e[0]],) + id_key(e[1]))
            if rng.chance(1, 2):
                # strictly sorted: drop duplicates
                seq = [e for j, e in enumerate(seq) if j == 0 or e != seq[j - 1]]
            if rng.chance(1, 4) and len(seq) > 2:
                j = rng.below(len(seq) - 1)
                seq[j], seq[j + 1] = seq[j + 1], seq[j]
        chk_seqs.append(tuple(seq))
    chk_ops = ['chk ' + ' '.join('%s:%d' % e for e in seq) for seq in chk_seqs]
    all_ops = ops + chk_ops
    for o in all_ops:
        ctx.note_case(o)
    ctx.count('op:cmp', len(ops))
    ctx.count('op:chk', len(chk_ops))
    ctx.sample(ops[7])
    ctx.sample(ops[-1])
    ctx.sample(chk_ops[len(chk_ops) // 2])
    ctx.sample(chk_ops[-1])
    text = '\n'.join(all_ops) + '\n'

    rc, impl, se = ctx.run_lines([hbin], text)
    if rc != 0:
        ctx.violation('harness-crash', 'harness exited %d: %s' % (rc, se[-500:]), {'kind': 'harness-crash', 'stderr': se[-2000:]}, found_input=False)
        return
    model = None
    if ctx.exe_build_ok:
        rc, model, se = ctx.run_lines([ctx.model_exe('model_c16')], text)
    # outcome histogram (branch coverage of the comparators / checker)
    for l in impl[:len(ops)]:
        ctx.count('cmp-result:' + l.replace(' ', ''))
    for l in impl[len(ops):]:
        ctx.count('chk-result:' + l)

    # ---- 3. property monitors on the implementation ------------------------------------
    # 3a. CheckOrder vs the independent statement of the property
    for seq, got in zip(chk_seqs, impl[len(ops):]):
        want = '1' if spec_ascending(seq) else '0'
        if got != want:
            ctx.violation('checkorder:' + ' '.join('%s:%d' % e for e in seq)[:120],
                          'CheckOrder %s the stream [%s] but it is %sstrictly ascending by (type, id rule)'
                          % ('accepts' if got == '1' else 'rejects', ' '.join('%s:%d' % e for e in seq), '' if want == '1' else 'not '),
                          {'kind': 'counterexample', 'op': 'chk ' + ' '.join('%s:%d' % e for e in seq), 'impl': got, 'expected': want,
                           'replay': 'echo "<op>" | <harness c16>'})
            break
    # 3a'. the relational operators offered on OSMObject describe ONE order: a > b iff b < a, a <= b iff not a > b,
    #      a >= b iff not a < b, a != b iff not a == b (judged on the implementation's own answers: the
    #      cmp line of (b, a) is looked up where the grid contains it)
    cmp_out = {}
    for o, r in zip(ops, impl[:len(ops)]):
        cmp_out[o] = r.split()
    nrel = 0
    for o, f in cmp_out.items():
        if len(f) < 10:
            continue
        lt, eq, gt, le, ge, ne = f[0], f[3], f[6], f[7], f[8], f[9]
        bad = None
        if ge != ('0' if lt == '1' else '1'):
            bad = 'a >= b is not the negation of a < b'
        elif le != ('0' if gt == '1' else '1'):
            bad = 'a <= b is not the negation of a > b'
        elif ne != ('0' if eq == '1' else '1'):
            bad = 'a != b is not the negation of a == b'
        else:
            w = o.split()
            rev = 'cmp ' + ' '.join(w[6:11]) + ' ' + ' '.join(w[1:6])
            g = cmp_out.get(rev)
            if g is not None and len(g) >= 10:
                nrel += 1
                if gt != g[0]:
                    bad = 'a > b differs from b < a'
                elif lt == '1' and g[7] == '1':
                    bad = 'a < b and b <= a hold at the same time'
        if bad:
            ctx.violation('relops:' + o[4:100], 'the relational operators on OSMObject do not describe one order: %s on `%s` -> %s' % (bad, o, ' '.join(f)),
                          {'kind': 'counterexample', 'op': o, 'impl': ' '.join(f)})
            break
    ctx.count('relops-pairs-with-reverse', nrel)
    # 3b. order laws on triples
    tgrid = [(t, i, v, ts, vis) for t in (1, 2) for i in IDS for v in (0, 1, 2, 2 ** 31 - 1) for ts in (0, 5, 9) for vis in (0, 1)]
    tri = []
    ntri = 60000 if quick else 2000000
    for _ in range(ntri):
        a, b, c = rng.choice(tgrid), rng.choice(tgrid), rng.choice(tgrid)
        # bias towards same (type,id) so that version/timestamp branches are reached
        if rng.chance(1, 2):
            b = (a[0], a[1]) + b[2:]
        if rng.chance(1, 2):
            c = (a[0], a[1]) + c[2:]
        tri.append('triple %s %s %s' % (obj_str(a), obj_str(b), obj_str(c)))
    srt = []
    for _ in range(2000 if quick else 50000):
        n = 1 + rng.below(12)
        objs = [rng.choice(full[:864]) for _ in range(n)]  # types 1..3
        srt.append('sortchk ' + ' '.join('%d:%d:%d:%d:%d' % o for o in objs))
    mon_ops = tri + srt
    rc, mon, se = ctx.run_lines([hbin], '\n'.join(mon_ops) + '\n')
    ctx.count('op:triple', len(tri))
    ctx.count('op:sortchk', len(srt))
    for o in mon_ops:
        ctx.note_case(o)
    for o, r in zip(mon_ops, mon):
        if o.startswith('triple'):
            if r != 'ok':
                ctx.violation('orderlaw:' + r + ':' + o[7:90], 'order law violated by the implementation: %s on %s' % (r, o),
                              {'kind': 'counterexample', 'op': o, 'impl': r})
                break
    for o, r in zip(mon_ops, mon):
        if o.startswith('sortchk'):
            if r == 'sorted-accepted 0 distinct 1':
                ctx.violation('sortchk:' + o[8:100], 'a collection of distinct objects sorted with operator< is rejected by CheckOrder: ' + o,
                              {'kind': 'counterexample', 'op': o, 'impl': r})
                break

    # ---- correspondence diff ---------------------------------------------------------------
    if model is not None:
        dis = ctx.diff_streams('c16-model-vs-impl', all_ops, impl, model)
        if dis and not ctx.violations:
            i, op, a, b = dis[0]
            ctx.violation('correspondence:' + op[:100],
                          'model and implementation disagree (%d lines, first: `%s` impl=%s model=%s) and no law violation was found on the implementation around it'
                          % (len(dis), op, a, b),
                          {'kind': 'broken-correspondence', 'stream': 'c16-model-vs-impl', 'first': dis[:5]}, found_input=False)
    elif proof_ok:
        ctx.violation('model-driver-build', 'model driver does not build', {'kind': 'broken-correspondence'}, found_input=False)
