"""C08 — Writer produces the complete file or throws; OS write errors are never lost
(DESIGN.md §3 C08).

1. proof stage: lean/Osmium/Props/C08.lean (reliable_write for all schedules; the three
   compressors over library contracts; the Writer / write thread / pool machine for ALL
   interleavings: close-ok ⇒ complete, any fault ⇒ exception, error state refuses data, no
   stuck state) built + axiom audit.
2. correspondence, on the REAL library (harness/c08.cpp: the real Writer, real zlib / libbz2 /
   stdio, with write/fsync/close/dup/open/fdopen interposed for the output fd only):
   a. `rw`      the real reliable_write vs the model on write schedules (short, EINTR, errors,
                the 100 MiB max_write split): exact diff.
   b. `seq`     comp=none: the sequence of OS calls, the bytes accepted, the final file length
                and the error class for a fault at offset o vs the model's sequential run:
                exact diff.
   c. `explore` the observed per-call outcome pattern (which of operator()/flush()/close()
                threw what) must be a member of the set the model reaches over ALL
                interleavings for that scenario (no timing-dependent alarms by construction).
3. property monitors on the implementation alone (M1..M5 below) — they give the failing input.
"""
import os
import re

import vlib

ERRNOS = [28, 27, 5]            # ENOSPC, EFBIG, EIO
SCRIPT = 'b3,i2,f,b2,c'


# ---------------------------------------------------------------------------------------
# harness line parsing
# ---------------------------------------------------------------------------------------

class Run:
    def __init__(self, op, line):
        self.op = op
        self.line = line
        self.ok = line.startswith('run ')
        f = dict(w.split('=', 1) for w in line.split()[1:] if '=' in w)
        self.f = f
        self.ctor = f.get('ctor', '?')
        self.calls = [] if f.get('calls', '-') == '-' else f['calls'].split(';')
        self.file = int(f.get('file', '-1'))
        self.decode = f.get('decode', '?')
        self.nobj = int(f.get('nobj', '0'))
        self.match = f.get('match') == '1'
        w = [int(x) for x in f.get('w', '0/0/0/0/0').split('/')]
        self.wcalls, self.wbytes, self.wfaults, self.weintr, self.wshort = w
        self.fscalls, self.fsfaults = [int(x) for x in f.get('fs', '0/0').split('/')]
        self.clcalls, self.clfaults = [int(x) for x in f.get('cl', '0/0').split('/')]
        self.late = int(f.get('late', '0'))
        self.hang = f.get('hang', '0') != '0'
        self.chunks = [int(x) for x in f['chunks'].split(',')] if f.get('chunks') else []

    def raised(self):
        return [c for c in self.calls if c.startswith('exc:')]

    def first_loud(self):
        """index and text of the first call that raised or is close()"""
        kinds = self.op_calls()
        for i, c in enumerate(self.calls):
            if c.startswith('exc:') or (i < len(kinds) and kinds[i] == 'c'):
                return i, c
        return None, None

    def op_calls(self):
        m = re.search(r'script=(\S+)', self.op)
        return [x[0] for x in (m.group(1) if m else SCRIPT).split(',')]


def norm_call(c, lib):
    """canonical outcome name shared with the model driver"""
    if c == 'ok':
        return 'ok'
    if c.startswith('ok:'):
        return 'ok:0' if c == 'ok:0' else 'ok:N'
    if c.startswith('exc:sys:'):
        return 'exc:wt' if lib else c
    if c.startswith('exc:gzip') or c.startswith('exc:bzip2'):
        return 'exc:wt'
    if c in ('exc:pbf', 'exc:mock'):
        return 'exc:enc'
    return c            # exc:io, exc:other


def norm_model_pattern(p, lib):
    out = []
    for c in p.split(';'):
        if lib and c.startswith('exc:sys:'):
            c = 'exc:wt'
        out.append(c)
    return ';'.join(out)


# ---------------------------------------------------------------------------------------
# abstract script (what each call pushes into the output queue), per format
# ---------------------------------------------------------------------------------------

def obj_type(g):
    return 'r' if g % 7 == 0 else ('w' if g % 3 == 0 else 'n')


def abstract_script(fmt, script, mock=None, pbf_fail=False, area_skipped=False):
    """-> (hdr enc, [call strings], number of data chunks in a fault-free run)
    Encodes which futures each API call pushes (see lean/Driver/C08.lean `explore`)."""
    d = 'x' if pbf_fail else 'd'
    hdr = {'opl': '-', 'xml': 'D', 'pbf': d, 'mock': '-'}[fmt]
    if mock == 'hdr':
        hdr = '!'
    calls = []
    g = 0                       # global object counter
    pending = 0                 # objects in the Writer's internal buffer
    pbf_type, pbf_count = None, 0
    blk = 0                     # mock block counter

    def wb(nobjs, first_g):
        """what write_buffer does for objects first_g .. first_g+nobjs-1"""
        nonlocal pbf_type, pbf_count, blk
        if fmt == 'pbf':
            out = ''
            for gg in range(first_g, first_g + nobjs):
                t = obj_type(gg)
                if pbf_type != t:
                    if pbf_count > 0:
                        out += d
                    pbf_type, pbf_count = t, 0
                pbf_count += 1
            return out or '-'
        if fmt == 'mock':
            blk += 1
            if mock == 'buf%d' % blk:
                return '!'
            if mock == 'blk%d' % blk:
                return 'x'
            if mock == 'empty%d' % blk:
                return 'z'
            return 'd'
        return 'd'

    pend_first = 0
    for c in script.split(','):
        k, n = c[0], int(c[1:] or 0)
        if k == 'b':
            ib = '_'
            if pending:
                ib = wb(pending, pend_first)
                pending = 0
            e = wb(n, g + 1)
            g += n
            calls.append('P%s/%s' % (ib, e))
        elif k == 'a':              # a buffer holding only an Area: encodes to "" in opl/xml
            ib = '_'
            if pending:
                ib = wb(pending, pend_first)
                pending = 0
            if fmt == 'pbf':
                e = '-'
            elif fmt == 'mock':
                e = wb(1, g + 1)
            else:
                # current tree (fix fb588a3): write_buffer skips a buffer without writable objects
                # ('-', the model's main line `repairedMachine`).  Pre-fix behaviour: the block is
                # encoded as "" = the end-of-data marker ('z'); if that ever comes back the M3
                # monitor raises empty-block-ends-output:<fmt> (regression probe)
                e = '-' if area_skipped else 'z'
            calls.append('P%s/%s' % (ib, e))
        elif k == 'i':
            if pending == 0:
                pend_first = g + 1
            pending += n
            g += n
            calls.append('I_')
        elif k == 'f':
            ib = '_'
            if pending:
                ib = wb(pending, pend_first)
                pending = 0
            calls.append('F%s' % ib)
        elif k == 'c':
            ib = '_'
            if pending:
                ib = wb(pending, pend_first)
                pending = 0
            if fmt == 'xml':
                end = 'D'
            elif fmt == 'pbf':
                end = d if pbf_count > 0 else '-'
                pbf_count = 0
            elif fmt == 'mock' and mock == 'end':
                end = '!'
            else:
                end = '-'
            calls.append('C%s/%s' % (ib, end))
    nchunks = sum(s.count('d') + s.count('D') for s in calls) + hdr.count('d') + hdr.count('D')
    return hdr, calls, nchunks


# ---------------------------------------------------------------------------------------

class Checker:
    def __init__(self, ctx, hbin):
        self.ctx = ctx
        self.hbin = hbin
        self.rundir = os.path.join(vlib.BUILD, 'c08_run_%d' % os.getpid())
        self.explore_cache = {}
        self.pending_explore = []

    def harness(self, ops, timeout=1800):
        """run op lines through the real library; one process per batch, a few batches in
        parallel (each with its own scratch directory; RLIMIT_FSIZE is per process)"""
        from concurrent.futures import ThreadPoolExecutor
        B = 400
        batches = [ops[i:i + B] for i in range(0, len(ops), B)]

        def one(arg):
            k, batch = arg
            d = '%s_%d' % (self.rundir, k % 4)

            def call(ops_, wd):
                try:
                    return self.ctx.run_lines([self.hbin, d, str(wd)], '\n'.join(ops_) + '\n', timeout=timeout)
                except Exception as e:      # subprocess timeout: the watchdog itself failed
                    return 98, [], repr(e)

            done = []
            rest = list(batch)
            rc, se = 0, ''
            while rest:
                rc, lines, se = call(rest, int(os.environ.get("C08_WATCHDOG", "20")))
                if rc == 3 and lines and 'hang=1' in lines[-1] and len(lines) <= len(rest):
                    # the 20 s watchdog fired: a machine-wide stall looks the same as a hang, so the
                    # op is repeated alone with a 90 s watchdog; only a second hang is reported
                    i = len(lines) - 1
                    rc1, l1, se1 = call([rest[i]], 90)
                    if rc1 == 0 and len(l1) == 1:
                        self.ctx.count('watchdog-retry-ok')
                        done += lines[:i] + l1
                        rest = rest[i + 1:]
                        rc = 0
                        continue
                    done += lines
                    return 3, done, se + se1
                done += lines
                break
            return rc, done, se

        with ThreadPoolExecutor(max_workers=4) as ex:
            # batches k, k+4, k+8 … share a directory but never run at the same time only if
            # scheduled in waves: run in waves of 4
            results = []
            for w in range(0, len(batches), 4):
                results += list(ex.map(one, list(enumerate(batches))[w:w + 4]))
        out = []
        for batch, (rc, lines, se) in zip(batches, results):
            if rc != 0 or len(lines) != len(batch):
                bad = batch[len(lines) - 1] if 0 < len(lines) <= len(batch) and rc == 3 else (batch[len(lines)] if len(lines) < len(batch) else batch[-1])
                hang = rc == 3 or (lines and 'hang=1' in lines[-1])
                self.ctx.violation(('hang:' if hang else 'harness-crash:') + bad[:120],
                                   ('the Writer did not finish within the watchdog time (threads_finish) on `%s`' % bad) if hang else
                                   ('harness exited %d on/after `%s`: %s' % (rc, bad, se[-400:])),
                                   {'kind': 'counterexample' if hang else 'harness-crash', 'op': bad, 'stderr': se[-2000:],
                                    'last_line': lines[-1] if lines else ''}, found_input=hang)
                lines = lines + ['crashed'] * (len(batch) - len(lines))
            out += lines
        return out

    def model(self, ops):
        if not self.ctx.exe_build_ok:
            return None
        rc, lines, se = self.ctx.run_lines([self.ctx.model_exe('model_c08')], '\n'.join(ops) + '\n')
        if rc != 0 or len(lines) != len(ops):
            self.ctx.violation('model-driver-crash', 'model driver exited %d: %s' % (rc, se[-400:]),
                               {'kind': 'broken-correspondence'}, found_input=False)
            return None
        return lines

    # -- explore with cache -----------------------------------------------------------
    def explore_many(self, reqs):
        """reqs: list of explore op lines -> dict line -> set(patterns)"""
        todo = [r for r in dict.fromkeys(reqs) if r not in self.explore_cache]
        if todo:
            res = self.model(todo)
            if res is None:
                return None
            for r, l in zip(todo, res):
                m = re.match(r'explore n=(\d+) outcomes=(.*)$', l)
                if not m or 'STUCK' in l or 'LIMIT' in l:
                    self.ctx.violation('model-explore:' + r[:100], 'model exploration failed / found a stuck state: ' + l[:300],
                                       {'kind': 'broken-correspondence', 'op': r, 'model': l}, found_input=False)
                    self.explore_cache[r] = None
                    continue
                self.ctx.count('explore-states', int(m.group(1)))
                self.explore_cache[r] = set(x.strip() for x in m.group(2).split('|'))
        return self.explore_cache


def fault_chunk(chunks, o):
    """1-based index of the block whose write reaches beyond offset o (None: beyond the file)"""
    acc = 0
    for j, c in enumerate(chunks):
        acc += c
        if acc > o:
            return j + 1
    return None


def run(ctx):
    rng = ctx.rng
    quick = ctx.tier == 'quick'
    ctx.rule = ('rw: boundary + random write schedules (short counts, EINTR, errno, 100 MiB split); run: for each format (opl,xml,pbf) x '
                'compression (none,gzip,bzip2) x fsync yes/no: a fault-free run, then the first write reaching byte offset o fails for '
                '%s offsets o of the would-be output x errno {ENOSPC,EFBIG,EIO} x {whole-write, cut-at-o, transient}, fsync failure, every close '
                'call failing, short-write and EINTR schedules, RLIMIT_FSIZE (real kernel EFBIG, real glibc stdio), encoder failures '
                '(mock OutputFormat: header/buffer/pool task/end; PBF lz4 blobs without lz4), compressor constructor failures (dup, fdopen), '
                'queue bounds 1/2/20, private pools, schedule perturbation. distinct = distinct op lines; all inject a fault or check a full round trip'
                % ('~250 sampled (all if the file is shorter)' if quick else 'ALL'))
    ctx.assumptions += [
        'glibc stdio does not call write(2) through the PLT; for libbz2 the harness bridges fdopen() to a fopencookie stream whose write '
        'callback re-implements _IO_new_file_write (loop until written or error) on the interposed write(); real-stdio runs use RLIMIT_FSIZE',
        'library contracts (parameters of the proofs): zlib gz layer — gzwrite != 0 means the whole block was taken, a failed underlying '
        'write makes gzwrite return 0 or surfaces no later than gzclose_w != Z_OK; libbz2 on stdio — BZ2_bzWrite / BZ2_bzWriteClose64 report '
        'BZ_IO_ERROR when fwrite/fflush/ferror fail, nbytes_out = bytes handed to stdio; fclose reports the flush/close error',
        'Queue operations are atomic in WriterSM (their lock structure is C19)',
        "threads_finish_progress is proved in the model where a blocked thread has no step (the real push on a full queue polls with a 10 ms timed wait); the harness watchdog checks actual termination",
    ]

    # ---- 1. proofs ---------------------------------------------------------------
    proof_ok = ctx.proof_stage(exes=['model_c08'])

    # ---- 2. harness ----------------------------------------------------------------
    hbin, err = vlib.build_cpp('c08', ['c08.cpp'], flags=['-rdynamic'], libs=vlib.DEFAULT_LIBS + ['-ldl'])
    if hbin is None:
        ctx.violation('harness-build', 'harness does not compile against the current tree: ' + err[-600:],
                      {'kind': 'harness-build', 'stderr': err}, found_input=False)
        return
    ck = Checker(ctx, hbin)

    # ---- 2a. reliable_write ---------------------------------------------------------
    rw_ops = ['rw 0 -', 'rw 1 -', 'rw 10 -', 'rw 10 k3,i,k2,e28', 'rw 10 i,i,i,k10', 'rw 10 e28', 'rw 10 k9,e5', 'rw 10 k10',
              'rw 10 k11', 'rw 5 k0,k0,k3', 'rw 7 k1,k1,k1,k1,k1,k1,k1', 'rw 7 k1,i,k1,i,k1,e27', 'rw 104857600 -',
              'rw 104857601 -', 'rw 104857610 k5,i', 'rw 209715201 -' if not quick else 'rw 104857610 k104857600,k3,e28']
    for _ in range(300 if quick else 20000):
        size = rng.choice([rng.below(40), rng.below(40), rng.below(5000), 1 + rng.below(3)])
        toks = []
        for _ in range(rng.below(9)):
            r = rng.below(10)
            if r < 5:
                toks.append('k%d' % (1 + rng.below(max(1, size + 2))))
            elif r < 7:
                toks.append('i')
            elif r < 8:
                toks.append('k0')
            else:
                toks.append('e%d' % rng.choice(ERRNOS))
        # a trailing run of k0 would spin forever in the real code (documented): end with progress
        while toks and toks[-1] == 'k0':
            toks.pop()
        rw_ops.append('rw %d %s' % (size, ','.join(toks) or '-'))
    impl = ck.harness(rw_ops)
    mod = ck.model(rw_ops)
    for o, l in zip(rw_ops, impl):
        ctx.note_case(o)
        ctx.count('rw-result:' + (re.search(r'res=(\w+)', l).group(1) if 'res=' in l else 'crash'))
        if 'inorder=0' in l:
            ctx.violation('rw-order:' + o, 'reliable_write presented bytes out of order / not the buffer: %s -> %s' % (o, l),
                          {'kind': 'counterexample', 'op': o, 'impl': l})
    if mod is not None:
        dis = ctx.diff_streams('c08-rw-model-vs-impl', rw_ops, impl, mod)
        if dis:
            i, op, a, b = dis[0]
            ctx.violation('correspondence:' + op[:100], 'reliable_write: model and implementation disagree (%d lines, first `%s` impl=%s model=%s)'
                          % (len(dis), op, a, b), {'kind': 'broken-correspondence', 'stream': 'c08-rw', 'first': dis[:5]}, found_input=False)
    # the documented non-termination: a kernel that answers 0 forever
    spin = ck.harness(['rw 5 ' + ','.join(['k0'] * 250)])[0]
    ctx.extra['reliable_write_spins_on_zero'] = spin[-60:]
    ctx.count('rw-spin-observed', 1 if 'runaway=1' in spin else 0)

    # ---- 2b. which layers go through the PLT ------------------------------------------
    probes = ['probe comp=none stdio=cookie', 'probe comp=gz stdio=cookie', 'probe comp=bz2 stdio=cookie', 'probe comp=bz2 stdio=real']
    pres = ck.harness(probes)
    ctx.extra['probe'] = dict(zip(probes, pres))
    for p, l in zip(probes, pres):
        m = re.search(r'interposed_bytes=(\d+) file=(\d+)', l)
        want_all = 'stdio=real' not in p
        if not m or (want_all and m.group(1) != m.group(2)):
            ctx.violation('interposer:' + p, 'the interposer does not see the writes of this layer: %s -> %s' % (p, l),
                          {'kind': 'broken-correspondence', 'op': p, 'impl': l}, found_input=False)

    # ---- 2c. scenarios -----------------------------------------------------------------
    big = 'b40,i30,f,b60,i10,b50,c' if quick else 'b200,i100,f,b250,i50,b200,c'       # thorough: ~50 KiB of OPL
    scripts = {'small': SCRIPT, 'big': big}
    combos = [(fmt, comp, fs) for fmt in ('opl', 'xml', 'pbf') for comp in ('none', 'gz', 'bz2') for fs in (0, 1)]

    # fault-free baselines (with trace) for both scripts
    base_ops = []
    for name, sc in scripts.items():
        for fmt, comp, fs in combos:
            base_ops.append('run fmt=%s comp=%s fsync=%d script=%s trace=1' % (fmt, comp, fs, sc))
    base_res = [Run(o, l) for o, l in zip(base_ops, ck.harness(base_ops))]
    base = {}
    for r in base_res:
        ctx.note_case(r.op)
        check_monitors(ctx, r, None)
        m = re.match(r'run fmt=(\w+) comp=(\w+) fsync=(\d) script=(\S+)', r.op)
        base[(m.group(1), m.group(2), int(m.group(3)), m.group(4))] = r
    # abstract scripts must predict the number of blocks handed to the compressor
    for (fmt, comp, fs, sc), r in base.items():
        if comp == 'none' and r.ok:
            hdr, calls, n = abstract_script(fmt, sc)
            if n != len(r.chunks):
                ctx.violation('abstract-script:%s:%s' % (fmt, sc), 'the per-format push model predicts %d blocks, the real Writer wrote %d (%s)'
                              % (n, len(r.chunks), r.line[-200:]), {'kind': 'broken-correspondence', 'op': r.op}, found_input=False)

    ops = []        # (op line, meta)
    def add(fmt, comp, fs, sc, fault, extra='', meta=None):
        op = 'run fmt=%s comp=%s fsync=%d script=%s fault=%s%s' % (fmt, comp, fs, sc, fault, (' ' + extra) if extra else '')
        ops.append((op, dict(fmt=fmt, comp=comp, fs=fs, sc=sc, fault=fault, **(meta or {}))))

    for (fmt, comp, fs, sc), r in sorted(base.items()):
        if not r.ok or r.file <= 0:
            continue
        N = r.file
        if sc == SCRIPT:
            if quick:
                want = 125
                offs = set([0, 1, N - 1, N - 2] + [sum(r.chunks[:i]) + d for i in range(len(r.chunks) + 1) for d in (-1, 0, 1)])
                while len(offs) < min(want, N):
                    offs.add(rng.below(N))
            else:
                offs = set(range(N))
        else:
            # larger output: buffer boundaries of stdio (4096/8192), zlib gz (8192/16384/32768), bz2 (5000) +-1, block boundaries, and a stride
            offs = set()
            for bsz in (4096, 5000, 8192, 16384, 32768):
                for kk in range(1, N // bsz + 1):
                    offs.update([kk * bsz - 1, kk * bsz, kk * bsz + 1])
            acc = 0
            for c in r.chunks[:200]:
                acc += c
                offs.update([acc - 1, acc, acc + 1])
            if quick:
                offs = set(rng.choice(sorted(offs)) for _ in range(12)) if offs else set()
                offs.update(rng.below(N) for _ in range(8))
            else:
                # ~2500 offsets per (format, compression, fsync): every `stride`-th byte
                offs.update(range(0, N, max(1, N // 2500)))
        for o in sorted(x for x in offs if 0 <= x < N):
            if quick:
                variants = [(rng.choice(ERRNOS), rng.choice(['', ':p', ':t', ':pt']))]
            else:
                variants = [(e, rng.choice(['', ':p', ':t', ':pt'])) for e in ERRNOS]
                if sc != SCRIPT:
                    variants = [(ERRNOS[o % 3], rng.choice(['', ':p']))]
            for e, mode in variants:
                extra = ''
                if rng.chance(1, 3):
                    extra = 'qmax=%d' % rng.choice([1, 2, 3])
                if rng.chance(1, 4):
                    extra += (' ' if extra else '') + 'pool=%d' % rng.choice([1, 2])
                if rng.chance(1, 2):
                    extra += (' ' if extra else '') + 'perturb=%d' % (1 + rng.below(1 << 30))
                add(fmt, comp, fs, sc, 'w@%d:%d%s' % (o, e, mode), extra, {'o': o})
        if sc == SCRIPT:
            # fsync / close / short / eintr / rlimit
            for e in ERRNOS:
                add(fmt, comp, fs, sc, 'fsync:%d' % e)
                for k in (1, 2):
                    add(fmt, comp, fs, sc, 'close:%d:%d' % (k, e))
            for m_ in (1, 7, 100):
                add(fmt, comp, fs, sc, 'short:%d' % m_, 'perturb=%d' % (1 + rng.below(1000)))
            add(fmt, comp, fs, sc, 'eintr:2')
            add(fmt, comp, fs, sc, 'eintr:3+short:5')
            add(fmt, comp, fs, sc, 'short:3+w@%d:28' % (N // 2), meta={'o': N // 2})
            for o in sorted(set([0, 1, N // 3, N // 2, N - 1] + ([rng.below(N) for _ in range(6)] if quick else list(range(0, N, 3))))):
                add(fmt, comp, fs, sc, 'rlimit@%d' % o, 'stdio=real' if comp == 'bz2' else '', {'o': o, 'rlimit': True})
            add(fmt, comp, fs, sc, 'rlimit@%d' % (N + 10), 'stdio=real' if comp == 'bz2' else '', {'o': N + 10, 'rlimit': True})
    # encoder failures (mock OutputFormat) and the real PBF encoder without lz4
    msc = 'b3,b2,i2,f,b1,c'
    for mk in ('none', 'hdr', 'buf1', 'buf2', 'buf3', 'blk1', 'blk2', 'blk3', 'blk4', 'end'):
        for q in ('', 'qmax=1', 'qmax=2 pool=1'):
            for _ in range(1 if quick else 10):
                op = 'run fmt=mock comp=none fsync=0 script=%s mock=%s %s perturb=%d' % (msc, mk, q, 1 + rng.below(1 << 30))
                ops.append((op, dict(fmt='mock', comp='none', fs=0, sc=msc, fault='none', mock=mk)))
    for comp in ('none', 'gz', 'bz2'):
        op = 'run fmt=pbf comp=%s fsync=0 script=%s pbfopt=pbf_compression=lz4' % (comp, SCRIPT)
        ops.append((op, dict(fmt='pbf', comp=comp, fs=0, sc=SCRIPT, fault='none', pbf_fail=True)))
    # compressor constructor failures
    for fmt in ('opl', 'xml', 'pbf'):
        ops.append(('run fmt=%s comp=gz fsync=0 script=%s fault=dup' % (fmt, SCRIPT), dict(fmt=fmt, comp='gz', fs=0, sc=SCRIPT, fault='dup', ctor=True)))
        ops.append(('run fmt=%s comp=bz2 fsync=0 script=%s fault=fdopen' % (fmt, SCRIPT), dict(fmt=fmt, comp='bz2', fs=0, sc=SCRIPT, fault='fdopen', ctor=True)))
    # regression probes for the fixed defect empty-block-ends-output (fb588a3): a buffer holding only an Area
    # (Props: close_ok_all_handed_over holds for the repaired writer; the pre-fix variant is refuted)
    for fmt in ('opl', 'xml', 'pbf'):
        for sc in ('b2,a1,b2,c', 'a1,b2,c'):
            ops.append(('run fmt=%s comp=none fsync=0 script=%s' % (fmt, sc), dict(fmt=fmt, comp='none', fs=0, sc=sc, fault='none', area=True)))
    ops.append(('run fmt=mock comp=none fsync=0 script=%s mock=empty2' % msc, dict(fmt='mock', comp='none', fs=0, sc=msc, fault='none', mock='empty2', area=True)))

    lines = ck.harness([o for o, _ in ops])
    runs = [Run(o, l) for (o, _), l in zip(ops, lines)]

    # ---- property monitors ------------------------------------------------------------------
    for r, (_, meta) in zip(runs, ops):
        ctx.note_case(r.op)
        if not r.ok:
            continue
        check_monitors(ctx, r, meta, base)
        ctx.count('fault:' + re.sub(r'[0-9]+', 'N', meta['fault']) + ':' + meta['comp'])
        fl = r.first_loud()[1] or 'none'
        kinds = r.op_calls()
        idx = r.first_loud()[0]
        where = 'ctor' if r.ctor != 'ok' else ('none' if idx is None else {'b': 'operator()', 'i': 'operator()(item)', 'a': 'operator()', 'f': 'flush()', 'c': 'close()'}[kinds[idx]])
        ctx.count('first-loud:%s:%s' % (where, re.sub(r':[0-9]+', '', fl)))
    ctx.extra['faults_fired'] = {
        'write': sum(r.wfaults for r in runs if r.ok), 'fsync': sum(r.fsfaults for r in runs if r.ok),
        'close': sum(r.clfaults for r in runs if r.ok), 'eintr': sum(r.weintr for r in runs if r.ok),
        'short_writes': sum(r.wshort for r in runs if r.ok), 'runs': len(runs)}
    for r in runs[:3] + runs[len(runs) // 2: len(runs) // 2 + 2]:
        ctx.sample(r.op + '  ->  ' + r.line[:160])

    # ---- correspondence: seq (exact, comp=none) ------------------------------------------------
    seq_ops, seq_impl, seq_src = [], [], []
    nbig_seq = 0
    for r, (_, meta) in zip(runs, ops):
        if not r.ok or meta['comp'] != 'none' or meta['fmt'] == 'mock' or meta.get('rlimit') or meta.get('area') or meta.get('pbf_fail'):
            continue
        b = base.get((meta['fmt'], 'none', meta['fs'], meta['sc']))
        if b is None or not b.ok:
            continue
        if meta['sc'] != SCRIPT:
            # the model materialises the file as a byte list: compare a sample of the long runs
            nbig_seq += 1
            if nbig_seq > (60 if quick else 600) and nbig_seq % 29 != 0:
                continue
        seq_ops.append('seq comp=none fsync=%d chunks=%s fault=%s' % (meta['fs'], ','.join(map(str, b.chunks)), meta['fault']))
        loud = r.first_loud()[1] or 'none'
        res = loud if not loud.startswith('exc:io') else 'exc:io'
        seq_impl.append('seq res=%s file=%d w=%d/%d/%d fs=%d cl=%d' % (res, r.file, r.wcalls, r.wbytes, r.wfaults + r.fsfaults + r.clfaults, r.fscalls, r.clcalls))
        seq_src.append(r)
    if seq_ops:
        seq_model = ck.model(seq_ops)
        if seq_model is not None:
            dis = ctx.diff_streams('c08-seq-model-vs-impl', [s.op for s in seq_src], seq_impl, seq_model)
            if dis:
                i, op, a, b = dis[0]
                ctx.violation('correspondence:' + op[:110],
                              'OS-call sequence / file length / error class differ from the model (%d runs, first `%s`: impl `%s` model `%s`)' % (len(dis), op, a, b),
                              {'kind': 'broken-correspondence', 'stream': 'c08-seq', 'first': dis[:5]}, found_input=False)

    # ---- correspondence: explore (membership, all comps) ----------------------------------------
    reqs = []
    for r, (_, meta) in zip(runs, ops):
        if not r.ok or meta.get('ctor') or meta['sc'] not in (SCRIPT, msc, 'b2,a1,b2,c', 'a1,b2,c'):
            # interleavings are explored for the short scripts only (the state space of the long ones
            # is large; their runs are covered by the monitors and the exact `seq` comparison)
            reqs.append(None)
            continue
        hdr, calls, nch = abstract_script(meta['fmt'], meta['sc'], meta.get('mock'), meta.get('pbf_fail', False),
                                          area_skipped=bool(meta.get('area') and r.match))
        qm = re.search(r'qmax=(\d+)', r.op)
        qmax = max(2, int(qm.group(1))) if qm else 20      # util/config.hpp:99-101 clamps to >= 2
        lib = meta['comp'] != 'none'
        fails = []
        fault = meta['fault']
        b = base.get((meta['fmt'], 'none', meta['fs'], meta['sc']))
        if fault == 'none' or fault.startswith('short') and 'w@' not in fault or (fault.startswith('eintr') and not lib):
            fails = ['none']
        elif lib:
            # where a lower layer reports the error is the library's business: any block from the
            # faulty one on, or close.  Whether an error response was delivered at all is read
            # off the interposer's counters (RLIMIT_FSIZE: off the fault-free file size).
            delivered = r.wfaults + r.fsfaults + r.clfaults + r.weintr > 0
            if meta.get('rlimit'):
                bl = base.get((meta['fmt'], meta['comp'], meta['fs'], meta['sc']))
                delivered = bl is not None and meta['o'] < bl.file
            if delivered:
                fails = ['w%d:28' % j for j in range(1, nch + 1)] + ['fsync:28', 'close:28']
            else:
                fails = ['none']
        else:
            e = re.search(r':(\d+)', fault)
            if 'w@' in fault or meta.get('rlimit'):
                j = fault_chunk(b.chunks, meta['o']) if b is not None else None
                errno = 27 if meta.get('rlimit') else int(re.search(r'w@\d+:(\d+)', fault).group(1))
                fails = ['none'] if j is None else ['w%d:%d' % (j, errno)]
            elif fault.startswith('fsync'):
                fails = ['fsync:%s' % e.group(1)] if meta['fs'] else ['none']
            elif fault.startswith('close:1'):
                fails = ['close:%s' % re.search(r'close:1:(\d+)', fault).group(1)]
            else:
                fails = ['none']        # close:2 never happens with NoCompressor
        reqs.append(['explore qmax=%d hdr=%s script=%s fail=%s' % (qmax, hdr, ','.join(calls), f) for f in fails])
    flat = [x for rq in reqs if rq for x in rq]
    cache = ck.explore_many(flat)
    nmember = 0
    if cache is not None:
        for r, (_, meta), rq in zip(runs, ops, reqs):
            if not rq:
                continue
            lib = meta['comp'] != 'none'
            allowed = set()
            bad = False
            for q in rq:
                s = cache.get(q)
                if s is None:
                    bad = True
                    break
                allowed |= set(norm_model_pattern(p, lib) for p in s)
            if bad:
                continue
            obs = ';'.join(norm_call(c, lib) for c in r.calls)
            nmember += 1
            st = ctx.streams.setdefault('c08-explore-membership', {'lines': 0, 'disagreements': 0})
            st['lines'] += 1
            if obs not in allowed:
                st['disagreements'] += 1
                if os.environ.get('C08_DEBUG'):
                    vlib.log('EXPLORE-MISS %s | obs=%s | allowed=%s | %s' % (r.op, obs, ' | '.join(sorted(allowed)), r.line))
                if not any(v.found_input and r.op in str(v.what) for v in ctx.violations):
                    ctx.violation('correspondence:' + r.op[:110],
                                  'observed outcome pattern `%s` is not reachable in the model for any interleaving (allowed: %s) on `%s`'
                                  % (obs, ' | '.join(sorted(allowed))[:400], r.op),
                                  {'kind': 'broken-correspondence', 'stream': 'c08-explore', 'op': r.op, 'impl': r.line, 'model': sorted(allowed)},
                                  found_input=False)
    ctx.extra['explore_membership_checked'] = nmember
    ctx.extra['explore_scenarios'] = len(ck.explore_cache)
    if mod is None and proof_ok:
        ctx.violation('model-driver-build', 'model driver does not build', {'kind': 'broken-correspondence'}, found_input=False)
    for k in range(4):
        try:
            os.rmdir('%s_%d' % (ck.rundir, k))
        except OSError:
            pass


def check_monitors(ctx, r, meta, base=None):
    """M1..M5 on one run of the real library."""
    op = r.op
    if not r.ok:
        return
    key_op = re.sub(r' perturb=\d+', '', op)[4:]
    if r.hang:
        ctx.violation('hang:' + key_op[:120], 'threads did not finish: ' + r.line, {'kind': 'counterexample', 'op': op, 'impl': r.line})
        return
    meta = meta or dict(fault='none', comp='none')
    lib = meta.get('comp', 'none') != 'none'
    kinds = r.op_calls()
    if meta.get('ctor'):
        if r.ctor == 'ok':
            ctx.violation('ctor-fault-lost:' + key_op[:100], 'compressor constructor fault not reported: ' + r.line,
                          {'kind': 'counterexample', 'op': op, 'impl': r.line})
        return
    if r.ctor != 'ok':
        ctx.violation('ctor-threw:' + key_op[:100], 'Writer constructor threw without an injected constructor fault: ' + r.line,
                      {'kind': 'counterexample', 'op': op, 'impl': r.line})
        return
    fired = r.wfaults + r.fsfaults + r.clfaults + (r.weintr if lib else 0)
    early = fired - r.late
    injected_other = bool(meta.get('mock') not in (None, 'none') or meta.get('pbf_fail'))
    rlimit_hits = False
    if meta.get('rlimit') and base is not None:
        b = base.get((meta['fmt'], meta['comp'], meta['fs'], meta['sc']))
        rlimit_hits = b is not None and meta['o'] < b.file
    raised = r.raised()
    idx, loud = r.first_loud()
    close_idx = kinds.index('c') if 'c' in kinds else None
    # M3: close() returned normally as the first loud event  =>  complete valid file, right size
    if loud is not None and loud.startswith('ok:'):
        n = int(loud[3:])
        if not (r.decode == 'ok' and r.match and n == r.file):
            area = meta.get('area')
            key = ('empty-block-ends-output:' + meta['fmt']) if area else ('fault-lost:' + key_op[:110])
            if area and meta['fmt'] == 'mock':
                ctx.count('empty-block-ends-output:mock-encoder')
                return
            ctx.violation(key, 'close() returned %d without any exception but the file (size %d, decode=%s, %d objects, match=%d) is not the complete '
                          'file of the objects handed over: `%s` -> %s' % (n, r.file, r.decode, r.nobj, r.match, op, r.line),
                          {'kind': 'counterexample', 'op': op, 'impl': r.line, 'replay': 'echo "<op>" | <harness c08> <dir>'})
    # M2: a fault fired before close() finished (or the encoder failed)  =>  somebody threw
    if (early > 0 or rlimit_hits or (injected_other and meta.get('mock', '') [:5] != 'empty')) and not raised:
        ctx.violation('fault-lost:' + key_op[:110], 'a fault was injected (%d fired, %d late) but no call threw: `%s` -> %s' % (fired, r.late, op, r.line),
                      {'kind': 'counterexample', 'op': op, 'impl': r.line})
    # M1: nothing injected fired  =>  success, round trip
    if fired == 0 and not rlimit_hits and not injected_other and not meta.get('area'):
        if raised or not (r.decode == 'ok' and r.match) or loud is None or not loud.startswith('ok:') or int(loud[3:]) != r.file:
            ctx.violation('spurious-failure:' + key_op[:110], 'no fault fired, but the run did not succeed with a complete file: `%s` -> %s' % (op, r.line),
                          {'kind': 'counterexample', 'op': op, 'impl': r.line})
    # M4: after the first exception the Writer refuses data; close() throws or returns 0
    if raised:
        first = next(i for i, c in enumerate(r.calls) if c.startswith('exc:'))
        for i in range(first + 1, len(r.calls)):
            c = r.calls[i]
            if kinds[i] in 'biaf' and not c.startswith('exc:'):
                ctx.violation('error-state-accepts-data:' + key_op[:100], 'call %d (%s) succeeded after call %d threw: `%s` -> %s' % (i, kinds[i], first, op, r.line),
                              {'kind': 'counterexample', 'op': op, 'impl': r.line})
            if kinds[i] == 'c' and not (c.startswith('exc:') or c == 'ok:0'):
                ctx.violation('close-success-after-error:' + key_op[:100], 'close() returned %s after call %d threw: `%s` -> %s' % (c, first, op, r.line),
                              {'kind': 'counterexample', 'op': op, 'impl': r.line})
