"""C03 — assembled from per-format parts (tools/props/c03_<part>.py, each with run_part(ctx) and
MODULES = [Lean property modules], EXES = [model drivers]).  See DESIGN.md §3 C03."""
import importlib
import os

PARTS = ['pbf', 'text', 'o5m']


def run(ctx):
    here = os.path.dirname(os.path.abspath(__file__))
    parts = []
    only = os.environ.get('C03_PARTS')      # development aid: run a subset of the parts (evidence is then partial)
    for name in (only.split(',') if only else PARTS):
        if os.path.exists(os.path.join(here, 'c03_%s.py' % name)):
            parts.append(importlib.import_module('props.c03_%s' % name))
    if not parts:
        raise RuntimeError('no parts built for C03')
    modules = []
    exes = []
    for m in parts:
        modules += [x for x in getattr(m, 'MODULES', []) if x not in modules]
        exes += [x for x in getattr(m, 'EXES', []) if x not in exes]
    import time
    t0 = time.time()
    ctx.part_proof_ok = ctx.proof_stage(exes=exes, modules=modules)
    ctx.extra.setdefault('c03_seconds', {})['proof-stage'] = round(time.time() - t0, 1)
    rules = []
    for m in parts:
        m.run_part(ctx)
        if getattr(m, 'RULE', None):
            rules.append(m.RULE)
    ctx.rule = ' || '.join(rules)
