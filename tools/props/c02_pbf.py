"""C02, PBF part — the reader decodes every spec-conformant PBF file (DESIGN.md §3 C02).

Proof stage (dispatcher c02.py): lean/Osmium/Props/C02Pbf.lean.
run_part: the executable SPECIFICATION encoder `PbfSpec.encode` (lean/Osmium/Model/PbfSpec.lean, written from
osmformat.proto / the PBF wiki, not from libosmium's writer) produces files for random choice vectors
(field order per message, plain/dense, granularity, lat/lon offsets, date_granularity, optional-field omission,
version −1, unknown extra fields of every wire type in every message, BlobHeader.indexdata up to the 64 KiB
limit, unused/duplicate string-table entries, block and group splitting anywhere).  The REAL Reader and the MODEL
decoder read them; both must return exactly the described objects D (monitor: impl = D; correspondence: impl = model).
Zlib-compressed variants are produced by re-compressing the blobs here (python zlib) to cover the raw_size/zlib_data path.
"""
import math
import zlib

import vlib
from props import c01_pbf as P

MODULES = ['Osmium.Props.C02Pbf']
EXES = ['model_pbf']
RULE = ('PBF/C02: case = (choice vector, header, object sequence D representable under the choices); choice vectors: one coordinate at a time from the default '
        'plus random combinations of g in {1,10,25,50,100,200,1000,10000}, offsets (multiples of gcd(g,100), half of them not multiples of 100, up to ±10^11), date_granularity in {1,10,100,500,1000,2000,60000}, '
        'dense, omit-defaults, write-defaults, version −1, field-order seed, unknown extras, indexdata 0..65 500 bytes, string-table padding/duplicates, '
        'block sizes 1..n, group sizes 1..n; D as in C01 (ids/uids/timestamps at the boundaries) restricted to representable coordinates/timestamps; '
        'non-trivial = at least one object or a non-default choice')

UNDEF = P.UNDEF


def varint(n):
    out = bytearray()
    while n >= 0x80:
        out.append((n & 0x7f) | 0x80)
        n >>= 7
    out.append(n)
    return bytes(out)


def rd_varint(b, i):
    v = 0
    sh = 0
    while True:
        c = b[i]
        i += 1
        v |= (c & 0x7f) << sh
        sh += 7
        if not c & 0x80:
            return v, i


def fields(b):
    i = 0
    out = []
    while i < len(b):
        key, i = rd_varint(b, i)
        wt = key & 7
        if wt == 0:
            v, j = rd_varint(b, i)
        elif wt == 1:
            j = i + 8
        elif wt == 5:
            j = i + 4
        else:
            ln, i = rd_varint(b, i)
            j = i + ln
        out.append((key >> 3, wt, b[i:j], (v if wt == 0 else None)))
        i = j
    return out


def recompress(data, order):
    """re-frame every raw blob as zlib (raw_size + zlib_data, in the given field order)"""
    out = bytearray()
    i = 0
    while i < len(data):
        hs = int.from_bytes(data[i:i + 4], 'big')
        hdr = data[i + 4:i + 4 + hs]
        ds = [f[3] for f in fields(hdr) if f[0] == 3 and f[1] == 0][0]
        typ = [f[2] for f in fields(hdr) if f[0] == 1 and f[1] == 2][0]
        blob = data[i + 4 + hs:i + 4 + hs + ds]
        raw = [f[2] for f in fields(blob) if f[0] == 1 and f[1] == 2][0]
        z = zlib.compress(raw)
        a = b'\x10' + varint(len(raw))
        c = b'\x1a' + varint(len(z)) + z
        nb = (a + c) if order == 0 else (c + a)
        nh = b'\x0a' + varint(len(typ)) + typ + b'\x18' + varint(len(nb))
        out += len(nh).to_bytes(4, 'big') + nh + nb
        i += 4 + hs + ds
    return bytes(out)


class Choices:
    def __init__(self, **kw):
        self.d = dict(g=100, la=0, lo=0, dg=1000, dense=0, wd=0, od=0, vm=0, seed=0, ex=0, ix=-1, pad=0, dup=0, split='', rest=8000, gs=8000)
        self.d.update(kw)

    def s(self):
        return ' '.join('%s=%s' % (k, v) for k, v in self.d.items() if not (k == 'split' and v == ''))

    def nondefault(self):
        return self.s() != Choices().s()


def repr_coord(rng, g, off):
    """a coordinate (1e-7 deg units, int32) representable with granularity g and offset off"""
    step = 100 // math.gcd(g, 100)
    # stored values s with off + g*s a multiple of 100 nanodegrees form the residue class s0 mod step
    # (it exists iff gcd(g, 100) divides off; offsets need NOT be multiples of 100 — seed C02-3)
    s0 = next((r for r in range(step) if (off + g * r) % 100 == 0), 0)
    for _ in range(50):
        s = s0 + step * (rng.below(2 ** 20) - 2 ** 19) if rng.chance(1, 2) else s0 + step * ((rng.below(2 ** 34) - 2 ** 33) // max(1, g // 100 + 1))
        c7 = (off + g * s) // 100
        if (off + g * s) % 100 == 0 and -2 ** 31 <= c7 < 2 ** 31 and c7 != UNDEF:
            return c7
    return off // 100 if -2 ** 31 <= off // 100 < 2 ** 31 else 0


def repr_ts(rng, dg):
    step = dg // math.gcd(dg, 1000)
    return step * rng.below((2 ** 32 - 1) // step + 1) if rng.chance(3, 4) else rng.choice([0, step, (2 ** 32 - 1) // step * step])


def gen_case(rng, ch, nobj=None):
    g, la, lo, dg = ch.d['g'], ch.d['la'], ch.d['lo'], ch.d['dg']
    hist = rng.chance(1, 3)
    objs = []
    for _ in range(rng.below(12) if nobj is None else nobj):
        o = P.gen_obj(rng)
        # DELTA-coded sint64 arrays: the spec can only express differences that fit into an int64
        lim = lambda v: v if abs(v) <= 2 ** 61 else (2 ** 61 if v > 0 else -2 ** 61)
        o['id'] = lim(o['id'])
        if o['kind'] == 'w':
            o['nodes'] = [(lim(r), l) for r, l in o['nodes']]
        if o['kind'] == 'r':
            o['members'] = [(t, lim(r), role) for t, r, role in o['members']]
        o['timestamp'] = repr_ts(rng, dg)
        if not hist:
            o['visible'] = True
        if o['kind'] == 'n':
            o['loc'] = (UNDEF, UNDEF) if not o['visible'] else (repr_coord(rng, g, lo), repr_coord(rng, g, la))
        elif o['kind'] == 'w':
            withloc = rng.chance(1, 3)
            o['nodes'] = [(r, (repr_coord(rng, g, lo), repr_coord(rng, g, la)) if withloc else (UNDEF, UNDEF)) for r, _ in o['nodes']]
        objs.append(o)
    box = []
    if rng.chance(1, 2):
        a = (rng.below(3600000001) - 1800000000, rng.below(1800000001) - 900000000)
        b = (rng.below(3600000001) - 1800000000, rng.below(1800000001) - 900000000)
        box = [((min(a[0], b[0]), min(a[1], b[1])), (max(a[0], b[0]), max(a[1], b[1])))]
    h = {'generator': rng.choice([b'spec', b'', 'gén'.encode()]), 'hist': hist, 'boxes': box}
    return h, objs


def choice_vectors(rng, quick):
    cs = [Choices()]
    singles = [dict(dense=1), dict(g=1), dict(g=10), dict(g=1000), dict(g=10000), dict(g=25), dict(la=100, lo=-700), dict(la=-10 ** 11, lo=10 ** 11), dict(dg=1), dict(dg=10),
               dict(dg=2000), dict(dg=60000), dict(wd=1), dict(od=1), dict(od=1, dense=1), dict(vm=1), dict(vm=1, dense=1), dict(seed=1), dict(seed=2, dense=1), dict(seed=3, ex=1),
               dict(ex=1), dict(ex=2, dense=1), dict(ix=0), dict(ix=1), dict(ix=150), dict(ix=65500), dict(ix=65517), dict(pad=1), dict(pad=9, dup=1), dict(dup=1, dense=1),
               dict(split='1', rest=1), dict(split='2,3', rest=4), dict(gs=1), dict(gs=2, dense=1), dict(rest=3, gs=2)]
    cs += [Choices(**s) for s in singles]
    # offsets that are not multiples of 100 nanodegrees (legal: coordinates are offset + granularity*stored)
    cs += [Choices(g=50, la=50, lo=-50), Choices(g=10, la=30, lo=-99999999970, dense=1), Choices(g=1, la=1, lo=-1),
           Choices(g=25, la=-75, lo=25, dense=1), Choices(g=1000, la=-700, lo=300), Choices(g=20, la=60, lo=-40, dense=1, wd=1)]
    for _ in range(360 if quick else 6000):
        g = rng.choice([1, 10, 25, 50, 100, 100, 200, 1000, 10000])
        unit = 100 if rng.chance(1, 2) else math.gcd(g, 100)
        kw = dict(g=g, la=unit * (rng.below(2001) - 1000) * rng.choice([1, 1, 10 ** 6]),
                  lo=unit * (rng.below(2001) - 1000) * rng.choice([1, 1, 10 ** 6]), dg=rng.choice([1, 10, 100, 500, 1000, 1000, 2000, 60000]), dense=rng.below(2), wd=rng.below(2),
                  od=rng.below(2), vm=rng.below(2), seed=rng.below(1000), ex=rng.below(3), ix=rng.choice([-1, -1, 0, 7, 200, 5000, 65400]), pad=rng.below(4), dup=rng.below(2),
                  split=','.join(str(1 + rng.below(4)) for _ in range(rng.below(3))), rest=1 + rng.below(9), gs=1 + rng.below(6))
        cs.append(Choices(**kw))
    return cs


def run_part(ctx):
    rng = ctx.rng
    quick = ctx.tier == 'quick'
    hbin = P.build(ctx)
    if hbin is None:
        return
    scratch = P.scratch_dir('c02pbf')
    try:
        hbin = P.private_copy(hbin, scratch)
        _run(ctx, rng, quick, hbin, scratch)
    finally:
        P.cleanup(scratch)


def _run(ctx, rng, quick, hbin, scratch):
    ctx.assumptions += ['PBF/C02: PbfSpec.encode is my reading of fileformat.proto / osmformat.proto / the PBF wiki page',
                        'PBF/C02: bool fields are written as one-byte varints (protozero get_bool looks at the first byte only)']
    cases = []
    for ch in choice_vectors(rng, quick):
        h, objs = gen_case(rng, ch)
        cases.append((ch, h, objs))
    # files of a few bytes: header only, one empty-ish object per kind
    for kind in 'nwr':
        cases.append((Choices(od=1), {'generator': b'', 'hist': False, 'boxes': []},
                      [dict(P.gen_obj(rng, kind), version=0, timestamp=0, changeset=0, uid=0, user=b'', tags=[], visible=True, **({'loc': (0, 0)} if kind == 'n' else {}),
                            **({'nodes': []} if kind == 'w' else {}), **({'members': []} if kind == 'r' else {}))]))
    spec_ops = ['spec %s | %s' % (ch.s(), ' | '.join([P.dump_header(h)] + [P.dump(o) for o in objs])) for ch, h, objs in cases]
    files = P.run_model(ctx, spec_ops)
    if files is None:
        ctx.violation('model-driver-build:pbf', 'model_pbf does not run the spec encoder', {'kind': 'broken-correspondence'}, found_input=False)
        return
    bad = [(op, f) for op, f in zip(spec_ops, files) if f.startswith('bad-op')]
    if bad:
        ctx.violation('spec-encoder-rejects-case', 'driver rejected `%s`' % P.short(bad[0][0]), {'kind': 'check-error'}, found_input=False)
        return
    # zlib variants of a subset (python recompression): raw_size before/after zlib_data
    zcases = []
    for i in range(0, len(cases), 7 if quick else 3):
        zcases.append((i, recompress(bytes.fromhex(files[i]) if files[i] != '-' else b'', i % 2).hex()))
    dec_ops = ['dec N1W1R1M1 ' + f for f in files] + ['dec N1W1R1M1 ' + z for _, z in zcases]
    exp = ['ok ' + ' | '.join([P.dump_header(h)] + [P.dump(o) for o in objs]) for _, h, objs in cases]
    exp += [exp[i] for i, _ in zcases]
    impl = P.run_impl(ctx, hbin, scratch, dec_ops + ['walk ' + f for f in files])
    if impl is None:
        return
    walks = impl[len(dec_ops):]
    impl = impl[:len(dec_ops)]
    model = P.run_model(ctx, dec_ops[:len(files)])
    for k, (op, got, e) in enumerate(zip(dec_ops, impl, exp)):
        ch, h, objs = cases[k] if k < len(cases) else cases[zcases[k - len(cases)][0]]
        z = k >= len(cases)
        ctx.note_case(spec_ops[k] if not z else 'z' + spec_ops[zcases[k - len(cases)][0]], nontrivial=bool(objs) or ch.nondefault())
        ctx.count('spec:%s' % ('zlib' if z else 'raw'))
        for key in ('dense', 'wd', 'od', 'vm', 'ex', 'dup'):
            if ch.d[key]:
                ctx.count('choice:' + key)
        if ch.d['seed']:
            ctx.count('choice:field-order')
        if ch.d['g'] != 100 or ch.d['la'] or ch.d['lo']:
            ctx.count('choice:granularity/offset')
        if ch.d['dg'] != 1000:
            ctx.count('choice:date_granularity')
        if ch.d['ix'] >= 0:
            ctx.count('choice:indexdata' + ('>=128' if ch.d['ix'] >= 114 else ''))
        if got != e:
            ga, ea = got.split(' | '), e.split(' | ')
            first = next(((a, b) for a, b in zip(ga, ea) if a != b), (ga[len(ea):][:1], ea[len(ga):][:1]))
            # shrink the choice vector one coordinate at a time towards the default
            culprit = []
            if not z:
                base = Choices().d
                for key, v in ch.d.items():
                    if v != base[key]:
                        c2 = Choices(**ch.d)
                        c2.d[key] = base[key]
                        culprit.append(key)
            ctx.violation('pbf-spec-file-misread:%s' % ('zlib' if z else ','.join('%s=%s' % (k2, ch.d[k2]) for k2 in culprit)[:80]),
                          'a spec-conformant PBF file (%s) is not decoded to the objects it describes: first difference: got `%s` expected `%s`' % (ch.s(), P.short(str(first[0]), 1200), P.short(str(first[1]), 1200)),
                          {'kind': 'counterexample', 'spec_op': P.short(spec_ops[k] if not z else spec_ops[zcases[k - len(cases)][0]], 6000), 'file_hex': P.short(op, 8000), 'got': P.short(got, 3000), 'expected': P.short(e, 3000)})
        else:
            ctx.count('decode:ok')
    for wl in walks:
        if wl.startswith('W bad'):
            ctx.violation('spec-encoder-malformed', 'the framing walker cannot parse a spec-encoded file: ' + wl, {'kind': 'check-error'}, found_input=False)
            break
        kv = dict(x.split('=') for x in wl.split()[1:])
        ctx.count('hdrsize:%s' % ('<128' if int(kv['maxhdr']) < 128 else ('<32768' if int(kv['maxhdr']) < 32768 else '>=32768')))
    ctx.sample(P.short(spec_ops[5]))
    ctx.sample(P.short(spec_ops[len(spec_ops) // 2]))
    if model is not None:
        d = ctx.diff_streams('pbf-spec-files-impl-vs-model', [P.short(o, 300) for o in dec_ops[:len(files)]], [P.norm(x) for x in impl[:len(files)]], model)
        if d and not [v for v in ctx.violations if v.found_input]:
            ctx.violation('correspondence:pbf-decoder-spec', 'model decoder and real Reader disagree on a spec-encoded file (%d cases; first impl=%s model=%s)'
                          % (len(d), P.short(d[0][2]), P.short(d[0][3])), {'kind': 'broken-correspondence', 'first': [[P.short(str(z), 2000) for z in x] for x in d[:3]]}, found_input=False)
