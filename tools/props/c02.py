"""C02 — assembled from per-format parts (tools/props/c02_<part>.py, each with run_part(ctx) and
MODULES = [Lean property modules], EXES = [model drivers]).  See DESIGN.md §3 C02."""
import importlib
import os

PARTS = ['pbf', 'text', 'o5m']


def run(ctx):
    here = os.path.dirname(os.path.abspath(__file__))
    parts = []
    for name in PARTS:
        if os.path.exists(os.path.join(here, 'c02_%s.py' % name)):
            parts.append(importlib.import_module('props.c02_%s' % name))
    if not parts:
        raise RuntimeError('no parts built for C02')
    modules = []
    exes = []
    for m in parts:
        modules += [x for x in getattr(m, 'MODULES', []) if x not in modules]
        exes += [x for x in getattr(m, 'EXES', []) if x not in exes]
    ctx.part_proof_ok = ctx.proof_stage(exes=exes, modules=modules)
    rules = []
    for m in parts:
        m.run_part(ctx)
        if getattr(m, 'RULE', None):
            rules.append(m.RULE)
    ctx.rule = ' || '.join(rules)
