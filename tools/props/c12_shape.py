"""C12 — statement-shape tie: the control structure of the vector-based sparse map, of the mmap vector underneath it and
of NodeLocationsForWays, regenerated from /repo's source on every run (clang typed AST -> normalised statement
strings, the printer of tools/props/c15.py) into lean/Osmium/Generated/C12Shape.lean.  Props/C12.lean compares them with
the statement sequences Model/IndexMap.lean transcribes (`src_shape_*` theorems): a new data member, an early return in
sort(), a condition around push_back, a constructor that initialises more than the vector, a statement missing from
way() — each breaks a theorem by name.  Cached by the hash of /repo/include + this file + the printer."""
import hashlib
import json
import os

import vlib
from props import c15 as K

SHAPE_TU = '''#include <osmium/index/map/sparse_mem_array.hpp>
#include <osmium/index/map/sparse_mmap_array.hpp>
#include <osmium/index/map/sparse_file_array.hpp>
#include <osmium/index/map/dense_file_array.hpp>
#include <osmium/handler/node_locations_for_ways.hpp>
#include <osmium/osm/location.hpp>
namespace c12_inst {
using id_t_ = osmium::unsigned_object_id_type;
using map_t_ = osmium::index::map::Map<id_t_, osmium::Location>;
}
template class osmium::index::map::VectorBasedSparseMap<c12_inst::id_t_, osmium::Location, osmium::index::map::StdVectorWrap>;
template class osmium::index::map::VectorBasedSparseMap<c12_inst::id_t_, osmium::Location, osmium::detail::mmap_vector_file>;
template class osmium::detail::mmap_vector_file<std::pair<c12_inst::id_t_, osmium::Location>>;
template class osmium::detail::mmap_vector_base<std::pair<c12_inst::id_t_, osmium::Location>>;
template class osmium::handler::NodeLocationsForWays<c12_inst::map_t_, c12_inst::map_t_>;
'''
HEADERS = ['osmium/index/detail/vector_map.hpp', 'osmium/index/detail/mmap_vector_base.hpp',
           'osmium/index/detail/mmap_vector_file.hpp', 'osmium/index/detail/mmap_vector_anon.hpp',
           'osmium/index/map/sparse_mem_array.hpp', 'osmium/index/map/sparse_mmap_array.hpp',
           'osmium/index/map/sparse_file_array.hpp', 'osmium/handler/node_locations_for_ways.hpp']

# label -> (class name, substring that must occur in the type of the discriminating field / None, field)
CLASSES = {
    'sparse_vec': ('VectorBasedSparseMap', 'std::vector<', 'm_vector'),
    'sparse_file': ('VectorBasedSparseMap', 'mmap_vector_file', 'm_vector'),
    'mmap_base': ('mmap_vector_base', None, None),
    'mmap_file': ('mmap_vector_file', None, None),
    'nlfw': ('NodeLocationsForWays', None, None),
}
METHODS = [
    ('sparse_vec', 'set'), ('sparse_vec', 'sort'), ('sparse_vec', 'clear'), ('sparse_vec', 'get'), ('sparse_vec', 'get_noexcept'),
    ('sparse_vec', 'find_id'), ('sparse_vec', 'dump_as_list'),
    ('sparse_file', 'set'), ('sparse_file', 'sort'), ('sparse_file', 'clear'), ('sparse_file', 'get'), ('sparse_file', 'get_noexcept'),
    ('sparse_file', 'find_id'), ('sparse_file', 'dump_as_list'),
    ('mmap_base', 'push_back'), ('mmap_base', 'resize'), ('mmap_base', 'reserve'), ('mmap_base', 'shrink_to_fit'), ('mmap_base', 'clear'),
    ('nlfw', 'node'), ('nlfw', 'way'), ('nlfw', 'get_node_location'), ('nlfw', 'clear'), ('nlfw', 'ignore_errors'),
]
CTORS = ['sparse_vec', 'sparse_file', 'mmap_base', 'mmap_file', 'nlfw']


def _ctor_lines(m):
    """constructor -> 'params: a, b' + one 'init member(expr)' line per written initialiser + the body"""
    params = [x.get('name', '_') for x in K._kids(m) if x.get('kind') == 'ParmVarDecl']
    out = ['params ' + ', '.join(params)]
    for x in m.get('inner') or []:
        if x and x.get('kind') == 'CXXCtorInitializer':
            tgt = (x.get('anyInit') or {}).get('name') or ((x.get('baseInit') or {}).get('qualType') or '?')
            if x.get('baseInit'):
                tgt = 'base ' + K.short_type({'type': x['baseInit']})
            c = K._kids(x)
            ex = K.sk_ex(c[0]) if c else ''
            out.append('init %s = %s' % (tgt, ex))
    body = [x for x in K._kids(m) if x.get('kind') == 'CompoundStmt']
    if body:
        out += K.sk_st(body[0])
    return out


def extract(objs):
    out = {}
    for o in objs:
        for n, p in K._walk(o):
            if n.get('kind') != 'ClassTemplateSpecializationDecl' or not n.get('inner'):
                continue
            for label, (cname, sub, fld) in CLASSES.items():
                if n.get('name') != cname:
                    continue
                members = [m for m in n.get('inner') or [] if m]
                fields = [m for m in members if m.get('kind') == 'FieldDecl']
                if not any(m.get('kind') in ('CXXMethodDecl', 'CXXConstructorDecl') and any(x.get('kind') == 'CompoundStmt' for x in K._kids(m))
                           for m in members):
                    continue            # a declaration without instantiated bodies
                if sub is not None:
                    ft = [(m.get('type') or {}).get('desugaredQualType') or (m.get('type') or {}).get('qualType', '')
                          for m in fields if m.get('name') == fld]
                    if not ft or sub not in ft[0]:
                        continue
                rec = out.setdefault(label, {'fields': [], 'methods': {}, 'ctors': []})
                for m in members:
                    if m.get('kind') == 'FieldDecl' and m.get('name') not in rec['fields']:
                        init = [x for x in K._kids(m) if not x.get('kind', '').endswith('Comment')]
                        rec['fields'].append(m.get('name') + ((' = ' + K.sk_ex(init[-1])) if init else ''))
                    if m.get('kind') == 'CXXMethodDecl' and not m.get('isImplicit'):
                        body = [x for x in K._kids(m) if x.get('kind') == 'CompoundStmt']
                        if body and m.get('name') not in rec['methods']:
                            rec['methods'][m['name']] = K.sk_st(body[0])
                    if m.get('kind') == 'CXXConstructorDecl' and not m.get('isImplicit') and not m.get('explicitlyDefaulted'):
                        body = [x for x in K._kids(m) if x.get('kind') == 'CompoundStmt']
                        if body:
                            cl = _ctor_lines(m)
                            if cl not in rec['ctors']:
                                rec['ctors'].append(cl)
    return out


def regen_shape(ctx, path=None):
    """-> None or an error text; writes lean/Osmium/Generated/C12Shape.lean"""
    inc = os.path.join(vlib.REPO, 'include')
    h = hashlib.sha256()
    for rel in HEADERS:
        if not os.path.exists(os.path.join(inc, rel)):
            return 'missing header ' + rel
    h.update(vlib.repo_tree_hash().encode())      # any header change: 1.5 s of clang
    for fn in (os.path.abspath(__file__), os.path.abspath(K.__file__)):
        with open(fn, 'rb') as f:
            h.update(f.read())
    cache = os.path.join(vlib.BUILD, 'c12_shape-%s.json' % h.hexdigest()[:16])
    if os.path.exists(cache):
        with open(cache) as f:
            r = json.load(f)
    else:
        work = os.path.join(vlib.BUILD, 'c12_shape')
        os.makedirs(work, exist_ok=True)
        tu = os.path.join(work, 'tu-%d.cpp' % os.getpid())
        with open(tu, 'w') as f:
            f.write(SHAPE_TU)
        rc, so, se = vlib.sh(['clang++-14', '-std=gnu++17', '-fsyntax-only', '-I' + inc, '-D' + vlib.GUARD, '-DNDEBUG', '-Xclang',
                              '-ast-dump=json', '-Xclang', '-ast-dump-filter=osmium', tu], timeout=600)
        os.remove(tu)
        if rc != 0:
            return 'clang failed: ' + se[-600:]
        r = extract(K._sk_load(so))
        tmp = cache + '.tmp%d' % os.getpid()
        with open(tmp, 'w') as f:
            json.dump(r, f)
        os.rename(tmp, cache)
    S = K._lean_str
    lines = ['/- GENERATED by tools/props/c12_shape.py from /repo/include on every run (clang typed AST of index/detail/vector_map.hpp,',
             '   mmap_vector_base.hpp, mmap_vector_file.hpp, handler/node_locations_for_ways.hpp, instantiated for',
             '   <unsigned long, osmium::Location> -> normalised statement sequences: one string per statement, `if c` … `else` …',
             '   `endif`, `for x in r` … `endfor`; implicit casts / temporaries / comments / layout removed; `this->` dropped; NDEBUG;',
             '   a constructor = `params …`, one `init member = expr` per initialiser, then its body) — do not edit.  Core-only. -/',
             'namespace Osmium.Generated.C12Shape', '']
    for label in CLASSES:
        rec = r.get(label) or {'fields': ['<missing>'], 'methods': {}, 'ctors': []}
        lines += ['/-- the data members (with default member initialisers) of `%s` (%s) -/' % (CLASSES[label][0], label),
                  'def %s_fields : List String := [%s]' % (label, ', '.join(S(x) for x in rec['fields'])), '']
    for label in CTORS:
        rec = r.get(label) or {'ctors': [['<missing>']]}
        lines += ['/-- the user-written constructors of `%s` (%s) -/' % (CLASSES[label][0], label),
                  'def %s_ctors : List (List String) := [' % label +
                  ',\n'.join('\n  [' + ', '.join(S(x) for x in c) + ']' for c in sorted(rec['ctors'])) + ']', '']
    for label, m in METHODS:
        body = (r.get(label) or {'methods': {}})['methods'].get(m)
        if body is None:
            body = ['<missing>']
        lines += ['def %s_%s : List String := [' % (label, m)] + [',\n'.join('  ' + S(x) for x in body) + ']', '']
    lines += ['end Osmium.Generated.C12Shape', '']
    vlib.write_if_changed(path or os.path.join(vlib.LEAN, 'Osmium', 'Generated', 'C12Shape.lean'), '\n'.join(lines))
    if ctx is not None:
        ctx.count('shape-tie:methods', len(METHODS))
        ctx.count('shape-tie:classes', len(CLASSES))
    return None
