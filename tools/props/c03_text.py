"""C03, text part (XML + OPL) and the layout/builder tie — hostile XML / OPL input never causes memory
errors, aborts or hangs; what the builders write is exactly what Props/C03Layout.lean's `build` says.

proof (dispatcher): lean/Osmium/Props/C03Text.lean, Props/C03Layout.lean.
hostile tier (machinery shared with c03_pbf.py): the REAL osmium::io::Reader (harness/c03.cpp,
ASan+UBSan, NDEBUG and assertions, watchdog, guarded + library traversal).  Inputs:
  XML  valid documents from a python element-tree generator and from the real Writer; every prefix;
       byte mutations; structure-aware: every attribute dropped / duplicated / emptied / set to
       overflowing numbers / blown up (user, role, k, v, generator: 1024, 1025, 65534, 65535, 65536,
       70000 bytes); every element dropped / duplicated / moved into a wrong parent; <comment> without
       <text>, <text> without <comment>, two <text>; unclosed / mismatched elements; DOCTYPE + entity
       declarations ("billion laughs"), CDATA, processing instructions, comments, BOM, wrong encoding.
  OPL  valid lines from a python generator and the real Writer; every field truncated at every
       position; fields dropped / duplicated / reordered; over-long numbers; bad escapes; huge
       strings; NUL / CR / LF inside lines; very long lines.
  a sample of all of them wrapped in gzip / bzip2 by the harness.
Outcome class (objects / error) of both builds must equal model_text `rd`; for XML only inside the
domain of the model's tokenizer (no DOCTYPE / CDATA / PI / comments / non-UTF-8 declarations: expat
itself is outside the model).  model_c03 `xmlmon` replays the discussion-builder protocol monitor
(Model/HostileXml.lean) on the same documents: since repair 5690f83 it never reports a misuse
(theorem xml_reader_keeps_builder_protocol) and the real Reader never crashes there; prediction and the
real Reader's crash / guarded-walk hit must coincide in both directions (a revert of the repair shows
up here and, with the concrete input, in the regression probes of corpus/C03/xml_findings.ops).
Regression probes (`<hex> <stable key> <outcome of the repaired reader>`): comment without text -> ok
with an empty text, second <text> -> xml_error, error inside an open comment -> xml_error, user name
> 1024 bytes (XML and OPL) -> length_error; another outcome or a crash = REGRESSION of fix <commit>.
layout tie: random builder scripts -> real builders of BOTH builds (`lay`) vs `HostileLayout.build`
(model_c03 `lay`), byte-exact, and the guarded walk verdict vs the model's `decodeAll`; scripts may leave
the LAST comment of a discussion without text (finished by the destructor since 5690f83).
"""
import os
import re

from props import c03_pbf as hp

MODULES = ['Osmium.Props.C03Text', 'Osmium.Props.C03Layout']
EXES = ['model_text', 'model_c03']
RULE = ('text hostile tier: prefixes + byte mutations + element/attribute/field structure mutations of valid XML and OPL files on the real '
        'Reader (ASan+UBSan, NDEBUG and assertions, 10 s watchdog, guarded + library traversal); outcome class vs model_text; '
        'builder-protocol monitor model_c03 xmlmon vs real crashes; small-buffer builds (parser buffer 64..200 bytes): objects identical to the '
        'normal-size run; OPL cursor program (model_c03 oplcur) vs abstract line parser on every line; '
        'builder scripts: real builders vs HostileLayout.build byte-exact')

# ======================================================================================================
# XML
# ======================================================================================================


class El:
    def __init__(self, name, attrs=None, kids=None, text=None, selfclose=None):
        self.name = name
        self.attrs = list(attrs or [])
        self.kids = list(kids or [])
        self.text = text
        self.selfclose = selfclose

    def copy(self):
        return El(self.name, [tuple(a) for a in self.attrs], [k.copy() for k in self.kids], self.text, self.selfclose)


def esc(b):
    return b.replace(b'&', b'&amp;').replace(b'<', b'&lt;').replace(b'>', b'&gt;').replace(b'"', b'&quot;').replace(b'\n', b'&#xA;')


def ser_el(e, out, unclosed=None):
    out += b'<' + e.name
    for k, v in e.attrs:
        out += b' ' + k + b'="' + esc(v) + b'"'
    sc = e.selfclose if e.selfclose is not None else (not e.kids and e.text is None)
    if sc:
        out += b'/>'
        return
    out += b'>'
    if e.text is not None:
        out += esc(e.text)
    for k in e.kids:
        ser_el(k, out, unclosed)
    if unclosed is not e:
        out += b'</' + e.name + b'>'


def ser_doc(root, decl=b"<?xml version='1.0' encoding='UTF-8'?>\n", unclosed=None):
    out = bytearray(decl)
    ser_el(root, out, unclosed)
    return bytes(out)


WORDS = [b'highway', b'name', b'a', b'', b'x y', b'\xc3\xa4', b'yes', b'role', b'ref', b'\xf0\x9f\x98\x80', b'k=v', b'user1', b'bob', b'<&>"']


def rs(rng):
    return rng.choice(WORDS)


def ts(rng):
    return b'20%02d-%02d-%02dT%02d:%02d:%02dZ' % (rng.below(30), 1 + rng.below(12), 1 + rng.below(28), rng.below(24), rng.below(60), rng.below(60))


def gen_meta_attrs(rng, idv):
    a = [(b'id', b'%d' % idv)]
    if rng.below(5):
        a += [(b'version', b'%d' % (1 + rng.below(9))), (b'timestamp', ts(rng)), (b'uid', b'%d' % rng.below(9999)),
              (b'user', rs(rng)), (b'changeset', b'%d' % rng.below(99999))]
    if rng.below(4) == 0:
        a.append((b'visible', rng.choice([b'true', b'false'])))
    return a


def gen_tags(rng):
    return [El(b'tag', [(b'k', rs(rng) + b'%d' % i), (b'v', rs(rng))]) for i in range(rng.below(3))]


def gen_xml(rng, change=False):
    kids = []
    if rng.below(2):
        kids.append(El(b'bounds', [(b'minlon', b'-1.5'), (b'minlat', b'-2'), (b'maxlon', b'3'), (b'maxlat', b'4.25')]))
    idv = 1 + rng.below(100)
    objs = []
    for _ in range(1 + rng.below(2)):
        idv += 1
        objs.append(El(b'node', gen_meta_attrs(rng, idv) + [(b'lat', b'%d.%d' % (rng.below(90), rng.below(9999))), (b'lon', b'-%d.%d' % (rng.below(180), rng.below(999)))], gen_tags(rng)))
    for _ in range(rng.below(2)):
        idv += 1
        objs.append(El(b'way', gen_meta_attrs(rng, idv), [El(b'nd', [(b'ref', b'%d' % rng.below(999))]) for _ in range(1 + rng.below(3))] + gen_tags(rng)))
    for _ in range(rng.below(2)):
        idv += 1
        objs.append(El(b'relation', gen_meta_attrs(rng, idv),
                       [El(b'member', [(b'type', rng.choice([b'node', b'way', b'relation'])), (b'ref', b'%d' % rng.below(999)), (b'role', rs(rng))])
                        for _ in range(1 + rng.below(3))] + gen_tags(rng)))
    if not change:
        for _ in range(rng.below(3)):
            idv += 1
            ck = gen_tags(rng)
            nc = rng.below(3)
            if nc:
                ck.append(El(b'discussion', [], [El(b'comment', [(b'uid', b'%d' % rng.below(99)), (b'user', rs(rng)), (b'date', ts(rng))],
                                                    [El(b'text', [], [], rs(rng))]) for _ in range(nc)]))
            a = [(b'id', b'%d' % idv), (b'created_at', ts(rng)), (b'closed_at', ts(rng)), (b'num_changes', b'%d' % rng.below(50)),
                 (b'user', rs(rng)), (b'uid', b'%d' % rng.below(999))]
            if rng.below(2):
                a += [(b'min_lon', b'1'), (b'min_lat', b'2'), (b'max_lon', b'3'), (b'max_lat', b'4'), (b'comments_count', b'%d' % nc)]
            objs.append(El(b'changeset', a, ck))
    if change:
        secs = []
        for o in objs:
            secs.append(El(rng.choice([b'create', b'modify', b'delete']), [], [o]))
        return El(b'osmChange', [(b'version', b'0.6'), (b'generator', b'c03')], kids[:0] + secs)
    return El(b'osm', [(b'version', b'0.6'), (b'generator', b'c03')], kids + objs)


def walk_el(e, parent=None):
    yield e, parent
    for k in e.kids:
        for x in walk_el(k, e):
            yield x


def locate(root, target_index):
    for i, (e, p) in enumerate(walk_el(root)):
        if i == target_index:
            return e, p
    raise IndexError


BIGS = (65534, 65535, 65536, 70000)
NUMS = [b'', b'0', b'-1', b'4294967295', b'4294967296', b'9223372036854775807', b'9223372036854775808', b'-9223372036854775809',
        b'99999999999999999999999', b'1e5', b'0x10', b' 1', b'1 ', b'1.5', b'+1', b'abc']
COORDS = [b'', b'-', b'.', b'1e', b'1e99', b'181', b'-91', b'1.' + b'1' * 40, b'9' * 30, b'1e-99', b'0.0000000001', b'1,5', b'NaN', b'1e+5']
TSS = [b'', b'2020', b'2020-01-01T00:00:00', b'2020-13-01T00:00:00Z', b'2020-02-30T00:00:00Z', b'9999-12-31T23:59:59Z', b'1969-12-31T23:59:59Z',
       b'2106-02-07T06:28:16Z', b'2020-01-01T00:00:00.123Z', b'2020-01-01T00:00:00,5Z', b'2020-01-01 00:00:00Z', b'2020-01-01T00:00:00Zjunk',
       b'2020-01-01T00:00:00.', b'2020-01-01T00:00:00.Z']


def xml_mutations(rng, root, budget, bigbudget):
    muts = []
    big = []
    n = sum(1 for _ in walk_el(root))

    def mk(i, lab, fn, **kw):
        r = root.copy()
        e, p = locate(r, i)
        res = fn(e, p, r)
        if res is False:
            return
        muts.append((lab, ser_doc(r, **kw)))

    for i, (e0, p0) in enumerate(walk_el(root)):
        nm = e0.name.decode()
        for ai, (k, v) in enumerate(e0.attrs):
            an = '%s.%s' % (nm, k.decode())
            mk(i, 'attr-drop#' + an, lambda e, p, r, ai=ai: e.attrs.pop(ai))
            mk(i, 'attr-dup#' + an, lambda e, p, r, ai=ai: e.attrs.append(e.attrs[ai]))     # expat: duplicate attribute -> error
            mk(i, 'attr-empty#' + an, lambda e, p, r, ai=ai: e.attrs.__setitem__(ai, (e.attrs[ai][0], b'')))
            vals = NUMS if k in (b'id', b'version', b'uid', b'changeset', b'ref', b'num_changes', b'comments_count') else \
                COORDS if k in (b'lat', b'lon', b'minlon', b'minlat', b'maxlon', b'maxlat', b'min_lon', b'min_lat', b'max_lon', b'max_lat') else \
                TSS if k in (b'timestamp', b'created_at', b'closed_at', b'date') else \
                [b'true', b'false', b'', b'maybe', b'TRUE'] if k == b'visible' else \
                [b'node', b'way', b'relation', b'', b'x', b'changeset', b'n'] if k == b'type' else [b'0.6', b'0.5', b'', b'0.6 '] if k == b'version' and nm in ('osm', 'osmChange') else []
            for val in vals:
                mk(i, 'attr-val#%s=%s' % (an, val.decode()[:24]), lambda e, p, r, ai=ai, val=val: e.attrs.__setitem__(ai, (e.attrs[ai][0], val)))
            if k in (b'user', b'role', b'k', b'v', b'generator'):
                for L in (255, 256, 1024, 1025):
                    mk(i, 'attr-grow#%s=%d' % (an, L), lambda e, p, r, ai=ai, L=L: e.attrs.__setitem__(ai, (e.attrs[ai][0], b'u' * L)))
                for L in BIGS:
                    big.append((i, ai, an, L))
                mk(i, 'attr-utf8#' + an, lambda e, p, r, ai=ai: e.attrs.__setitem__(ai, (e.attrs[ai][0], b'\xf0\x9f\x98\x80' * 256 + b'x')))
                mk(i, 'attr-ctrl#' + an, lambda e, p, r, ai=ai: e.attrs.__setitem__(ai, (e.attrs[ai][0], b'a\x01b\tc&#0;')))
        if p0 is not None:
            mk(i, 'el-drop#' + nm, lambda e, p, r: p.kids.remove(e))
            mk(i, 'el-dup#' + nm, lambda e, p, r: p.kids.insert(p.kids.index(e), e.copy()))
            mk(i, 'el-unclosed#' + nm, lambda e, p, r: e.__setattr__('selfclose', False), unclosed=None)
            # move into another parent
            for j in sorted(set(rng.below(n) for _ in range(3))):
                if j != i:
                    def move(e, p, r, j=j):
                        tgt, _ = locate(r, j)
                        if tgt is e or any(x is tgt for x, _ in walk_el(e)):
                            return False
                        p.kids.remove(e)
                        tgt.kids.append(e)
                        tgt.selfclose = None
                    mk(i, 'el-move#%s' % nm, move)
            mk(i, 'el-rename#' + nm, lambda e, p, r: e.__setattr__('name', rng.choice([b'node', b'way', b'relation', b'changeset', b'tag', b'nd', b'member', b'discussion', b'comment', b'text', b'bounds', b'bbox', b'foo', b'osm', b'create'])))
            mk(i, 'el-text#' + nm, lambda e, p, r: (e.__setattr__('text', b'some text'), e.__setattr__('selfclose', None)))
        if e0.name == b'comment':
            mk(i, 'comment-without-text', lambda e, p, r: e.__setattr__('kids', []))
            mk(i, 'comment-two-texts', lambda e, p, r: e.kids.append(El(b'text', [], [], b'second')))
            mk(i, 'comment-text-selfclosed', lambda e, p, r: e.__setattr__('kids', [El(b'text')]))
            mk(i, 'comment-empty-not-selfclosed', lambda e, p, r: (e.__setattr__('kids', []), e.__setattr__('selfclose', False)))
            mk(i, 'comment-longtext', lambda e, p, r: e.__setattr__('kids', [El(b'text', [], [], b'lorem ipsum ' * 3000)]))
        if e0.name == b'discussion':
            mk(i, 'text-without-comment', lambda e, p, r: e.kids.insert(0, El(b'text', [], [], b'orphan')))
            mk(i, 'discussion-twice', lambda e, p, r: p.kids.append(e.copy()))
            mk(i, 'discussion-tag-discussion', lambda e, p, r: (p.kids.append(El(b'tag', [(b'k', b'a'), (b'v', b'b')])), p.kids.append(e.copy())))
        if e0.name == b'changeset':
            mk(i, 'changeset-comment-direct', lambda e, p, r: e.kids.append(El(b'comment', [(b'uid', b'1'), (b'user', b'u')], [El(b'text', [], [], b't')])))
            mk(i, 'changeset-empty-discussion', lambda e, p, r: e.kids.append(El(b'discussion')))
        if e0.name in (b'node', b'way', b'relation'):
            mk(i, 'obj-nested', lambda e, p, r: e.kids.append(e.copy()))
            mk(i, 'obj-many-tags', lambda e, p, r: e.kids.extend(El(b'tag', [(b'k', b'k%d' % t), (b'v', b'v' * 200)]) for t in range(400)))
    # document-level
    doc = ser_doc(root)
    body = doc[doc.index(b'\n') + 1:]
    muts += [
        ('doc-nodecl', body),
        ('doc-bom', b'\xef\xbb\xbf' + doc),
        ('doc-latin1', b"<?xml version='1.0' encoding='ISO-8859-1'?>\n" + body.replace(b'\xc3\xa4', b'\xe4')),
        ('doc-utf16decl', b"<?xml version='1.0' encoding='UTF-16'?>\n" + body),
        ('doc-unknown-encoding', b"<?xml version='1.0' encoding='x-klingon'?>\n" + body),
        ('doc-doctype', b"<?xml version='1.0'?>\n<!DOCTYPE osm>\n" + body),
        ('doc-entity', b"<?xml version='1.0'?>\n<!DOCTYPE osm [<!ENTITY a \"aaaa\">]>\n" + body.replace(b'generator="c03"', b'generator="&a;"')),
        ('doc-entity-bomb', b"<?xml version='1.0'?>\n<!DOCTYPE osm [<!ENTITY a \"aaaaaaaaaa\"><!ENTITY b \"&a;&a;&a;&a;&a;&a;&a;&a;&a;&a;\"><!ENTITY c \"&b;&b;&b;&b;&b;&b;&b;&b;&b;&b;\">"
                            b"<!ENTITY d \"&c;&c;&c;&c;&c;&c;&c;&c;&c;&c;\"><!ENTITY e \"&d;&d;&d;&d;&d;&d;&d;&d;&d;&d;\"><!ENTITY f \"&e;&e;&e;&e;&e;&e;&e;&e;&e;&e;\">]>\n"
         + body.replace(b'generator="c03"', b'generator="&f;&f;&f;"')),
        ('doc-external-entity', b"<?xml version='1.0'?>\n<!DOCTYPE osm [<!ENTITY x SYSTEM \"file:///etc/passwd\">]>\n" + body.replace(b'generator="c03"', b'generator="&x;"')),
        ('doc-comment', doc.replace(b'<osm', b'<!-- hello --><osm', 1)),
        ('doc-pi', doc.replace(b'<osm', b'<?php x ?><osm', 1)),
        ('doc-cdata', doc.replace(b'</osm>', b'<![CDATA[ <node/> ]]></osm>')),
        ('doc-trailing-garbage', doc + b'<osm/>'),
        ('doc-trailing-nul', doc + b'\x00\x00'),
        ('doc-two-roots', doc + doc),
        ('doc-deep', doc.replace(b'</osm>', b'<a>' * 3000 + b'</a>' * 3000 + b'</osm>')),
        ('doc-undefined-entity', doc.replace(b'generator="c03"', b'generator="&nope;"')),
        ('doc-charref-big', doc.replace(b'generator="c03"', b'generator="&#x110000;&#0;&#xD800;"')),
        ('doc-mismatch', doc.replace(b'</osm>', b'</osmx>')),
        ('doc-empty', b''),
        ('doc-only-decl', b"<?xml version='1.0'?>"),
        ('doc-noversion', doc.replace(b' version="0.6"', b'', 1)),
    ]
    if len(muts) > budget:
        keep = [m for m in muts if m[0].startswith(('comment-', 'text-', 'discussion-', 'changeset-', 'doc-'))]
        rest = [m for m in muts if not m[0].startswith(('comment-', 'text-', 'discussion-', 'changeset-', 'doc-'))]
        rng.shuffle(rest)
        muts = keep + rest[:max(budget - len(keep), 0)]
    rng.shuffle(big)
    # always try the user attribute first (F13c), then others
    big.sort(key=lambda t: 0 if t[2].endswith('.user') else 1)
    for i, ai, an, L in big[:bigbudget]:
        r = root.copy()
        e, p = locate(r, i)
        e.attrs[ai] = (e.attrs[ai][0], b'u' * L)
        muts.append(('attr-grow#%s=%d' % (an, L), ser_doc(r)))
    return muts


TOKENIZER_DOMAIN_EXCLUDES = (b'<!', b'<?php', b'\xef\xbb\xbf', b'&')


def xml_in_model_domain(label, d):
    """the model's tokenizer covers plain well-formed element markup; DOCTYPE, comments, CDATA, PIs,
    BOM, foreign encodings, references other than the five predefined ones handled by the writer: expat only"""
    if label.startswith(('doc-', 'bytes', 'prefix', 'writer-bytes', 'writer-prefix', 'corpus')):
        return False
    if label.startswith(('attr-ctrl', 'attr-dup', 'el-text', 'el-unclosed')):
        return False
    return True


# ======================================================================================================
# OPL
# ======================================================================================================

def opl_esc(b):
    out = bytearray()
    for c in b.decode('utf-8'):
        o = ord(c)
        if c in ' ,=@%\n\t' or o < 0x21 or o > 0x7e and o < 0xa1:
            out += b'%%%x%%' % o
        else:
            out += c.encode()
    return bytes(out)


def gen_opl_fields(rng, kind, idv):
    f = [(kind, b'%d' % idv)]
    if kind != b'c':
        f += [(b'v', b'%d' % (1 + rng.below(9))), (b'd', rng.choice([b'V', b'D'])), (b'c', b'%d' % rng.below(9999)), (b't', ts(rng)),
              (b'i', b'%d' % rng.below(9999)), (b'u', opl_esc(rs(rng)))]
    else:
        f += [(b'k', b'%d' % rng.below(99)), (b's', ts(rng)), (b'e', ts(rng)), (b'd', b'%d' % rng.below(9)), (b'i', b'%d' % rng.below(9999)), (b'u', opl_esc(rs(rng)))]
        f += [(b'x', b'1.5'), (b'y', b'2'), (b'X', b'3'), (b'Y', b'4.25')]
    f.append((b'T', b','.join(opl_esc(rs(rng) + b'%d' % i) + b'=' + opl_esc(rs(rng)) for i in range(rng.below(3)))))
    if kind == b'n':
        f += [(b'x', b'-%d.%d' % (rng.below(180), rng.below(9999))), (b'y', b'%d.%d' % (rng.below(90), rng.below(999)))]
    elif kind == b'w':
        f.append((b'N', b','.join(b'n%d' % rng.below(999) + (b'x1.5y2.5' if rng.below(4) == 0 else b'') for _ in range(rng.below(4)))))
    elif kind == b'r':
        f.append((b'M', b','.join(rng.choice([b'n', b'w', b'r']) + b'%d@' % rng.below(999) + opl_esc(rs(rng)) for _ in range(rng.below(4)))))
    return f


def ser_line(fields):
    return b' '.join(k + v for k, v in fields)


def gen_opl(rng):
    lines = []
    idv = 1 + rng.below(100)
    for kind in rng.choice([b'nwr', b'nnwrc', b'n', b'wrc', b'c', b'nrw']):
        idv += 1
        lines.append(gen_opl_fields(rng, bytes([kind]), idv))
    return lines


def ser_opl(lines):
    return b''.join(ser_line(l) + b'\n' for l in lines)


OPL_VALS = [b'', b'-', b'%', b'%%', b'%zz%', b'%123456789%', b'%0%', b'%d800%', b'%110000%', b'%20', b'a=b=c', b'a,b', b',', b'=', b'@', b'x' * 1024, b'x' * 1025,
            b'99999999999999999999999', b'-99999999999999999999', b'4294967296', b'2020-01-01T00:00:00Z', b'2020-01-01T00:00:00.5Z', b'2020-01-01T00:00:0', b'V', b'X',
            b'1e99', b'1.', b'.5', b'n1', b'n1x', b'n1xy', b'n1x1y', b'n1,', b'n', b'w1@', b'n1@a,', b'x1@', b'n-1@%%', b'\xff\xfe', b'\xc3']


def opl_mutations(rng, lines, budget, bigbudget):
    muts = []
    big = []
    for li, fields in enumerate(lines):
        def put(lab, newfields, li=li):
            nl = list(lines)
            if newfields is None:
                del nl[li]
            else:
                nl[li] = newfields
            muts.append((lab, ser_opl(nl)))

        for fi, (k, v) in enumerate(fields):
            fn = '%s.%s' % (fields[0][0].decode(), k.decode())
            for cut in range(len(v) + 1):
                put('field-trunc#%s@%d' % (fn, cut), fields[:fi] + [(k, v[:cut])] + fields[fi + 1:])
            # line truncated inside this field (no following fields)
            for cut in sorted(set([0, len(v) // 2, max(len(v) - 1, 0)])):
                put('line-trunc#%s@%d' % (fn, cut), fields[:fi] + [(k, v[:cut])])
            put('field-drop#' + fn, fields[:fi] + fields[fi + 1:])
            put('field-dup#' + fn, fields[:fi + 1] + [fields[fi]] + fields[fi + 1:])
            if fi:
                put('field-first#' + fn, [fields[0], fields[fi]] + fields[1:fi] + fields[fi + 1:])
                put('field-swap#' + fn, fields[:fi - 1] + [fields[fi], fields[fi - 1]] + fields[fi + 1:] if fi > 1 else fields)
            for val in OPL_VALS:
                put('field-val#%s=%s' % (fn, val.decode('latin-1')[:20]), fields[:fi] + [(k, val)] + fields[fi + 1:])
            put('field-key#' + fn, fields[:fi] + [(rng.choice([b'Z', b'q', b'', b'%', b'\x01', b'N', b'M', b'T', b'x']), v)] + fields[fi + 1:])
            put('field-tab#' + fn, fields[:fi] + [(b'\t' + k, v)] + fields[fi + 1:])
            put('field-nul#' + fn, fields[:fi] + [(k, v[:len(v) // 2] + b'\x00' + v[len(v) // 2:])] + fields[fi + 1:])
            put('field-cr#' + fn, fields[:fi] + [(k, v[:len(v) // 2] + b'\r' + v[len(v) // 2:])] + fields[fi + 1:])
            if k in (b'u', b'T', b'M'):
                for L in (1024, 1025, 4000):
                    val = {b'u': b'u' * L, b'T': b'k' * L + b'=v', b'M': b'n1@' + b'r' * L}[k]
                    put('field-grow#%s=%d' % (fn, L), fields[:fi] + [(k, val)] + fields[fi + 1:])
                if k == b'T':
                    put('field-manytags#' + fn, fields[:fi] + [(k, b','.join(b'k%d=%s' % (t, b'v' * 300) for t in range(300)))] + fields[fi + 1:])
                for L in BIGS:
                    big.append((li, fi, fn, L))
        put('line-drop', None)
        put('line-nospace', [(k, v) for k, v in fields[:1]] + [(b'', b''.join(k + v for k, v in fields[1:]))])
        put('line-type', [(rng.choice([b'x', b'a', b'', b'#', b'N', b' ']), fields[0][1])] + fields[1:])
        put('line-spaces', [(b'  ' + k, v) for k, v in fields])
        put('line-long', fields + [(b'T', b','.join(b'key%d=%s' % (t, b'v' * 1000) for t in range(200)))])
    doc = ser_opl(lines)
    muts += [('doc-nonl', doc[:-1]), ('doc-crlf', doc.replace(b'\n', b'\r\n')), ('doc-cr', doc.replace(b'\n', b'\r')), ('doc-blank', b'\n\n' + doc + b'\n\n'),
             ('doc-comment', b'# comment\n' + doc), ('doc-empty', b''), ('doc-nul', b'\x00'), ('doc-onlynl', b'\n'), ('doc-space', b' \n'),
             ('doc-longline', b'n1 T' + b','.join(b'k%d=v' % t for t in range(30000)) + b'\n'),
             ('doc-hugeline', b'n1 u' + b'x' * 1200000 + b'\n')]
    if len(muts) > budget:
        rng.shuffle(muts)
        muts = muts[:budget]
    big.sort(key=lambda t: 0 if t[2].endswith('.u') else 1)
    for li, fi, fn, L in big[:bigbudget]:
        fields = lines[li]
        k = fields[fi][0]
        val = {b'u': b'u' * L, b'T': b'k' * L + b'=v', b'M': b'n1@' + b'r' * L}[k]
        nl = list(lines)
        nl[li] = fields[:fi] + [(k, val)] + fields[fi + 1:]
        muts.append(('field-grow#%s=%d' % (fn, L), ser_opl(nl)))
    return muts


# ======================================================================================================
# models
# ======================================================================================================

def run_model_lines(ctx, exe_name, lines, nchunks=14):
    import concurrent.futures
    exe = ctx.model_exe(exe_name)
    res = [None] * len(lines)
    if not lines:
        return res
    size = (len(lines) + nchunks - 1) // nchunks

    def work(lo):
        rc, outs, se = ctx.run_lines([exe], '\n'.join(lines[lo:lo + size]) + '\n')
        return lo, rc, outs, se

    with concurrent.futures.ThreadPoolExecutor(max_workers=nchunks) as ex:
        for lo, rc, outs, se in ex.map(work, range(0, len(lines), size)):
            if rc != 0 or len(outs) != len(lines[lo:lo + size]):
                raise RuntimeError('%s failed: rc %s, %d of %d lines; %s' % (exe_name, rc, len(outs), len(lines[lo:lo + size]), se[-300:]))
            for k, o in enumerate(outs):
                res[lo + k] = o
    return res


def text_model_classes(ctx, fmt, datas, modelled):
    idx = [i for i, d in enumerate(datas) if modelled[i]]
    outs = run_model_lines(ctx, 'model_text', ['rd %s md=31 %s' % (fmt, datas[i].hex() or '-') for i in idx])
    res = [None] * len(datas)
    for i, o in zip(idx, outs):
        res[i] = 'ok' if o.startswith('ok') else ('err' if o.startswith('err') else 'model:' + o[:20])
    return res


# ======================================================================================================
# builder scripts (layout tie)
# ======================================================================================================

def gen_script(rng, hostile):
    """-> token list for `lay` (harness/c03.cpp, Driver/C03.lean)"""
    kind = rng.choice(['N', 'W', 'R', 'A', 'C'])
    toks = [kind]

    def s(maxlen=12, nul=False):
        n = rng.below(maxlen + 1)
        b = bytes(rng.below(255) + 1 for _ in range(n))
        if nul and n:
            p = rng.below(n)
            b = b[:p] + b'\x00' + b[p + 1:]
        return b

    if rng.below(4):
        toks.append('u:' + (s(20).hex() or '-'))
    blocks = []
    for _ in range(rng.below(4)):
        c = rng.below(4)
        if c == 0:
            blocks.append(['T'] + ['k:%s=%s' % (s(nul=hostile and rng.below(6) == 0).hex() or '-', s(nul=hostile and rng.below(6) == 0).hex() or '-')
                                   for _ in range(rng.below(4))] + ['t'])
        elif c == 1:
            blocks.append(['L'] + ['n:%d:%d:%d' % (rng.below(2 ** 40) - 2 ** 39, rng.below(2 ** 32) - 2 ** 31, rng.below(2 ** 32) - 2 ** 31) for _ in range(rng.below(4))] + ['l'])
        elif c == 2:
            blocks.append(['M'] + ['m:%d:%d:%s' % (1 + rng.below(3), rng.below(2 ** 40) - 2 ** 39, s(nul=hostile and rng.below(6) == 0).hex() or '-') for _ in range(rng.below(4))] + ['e'])
        elif kind == 'C':
            b = ['D']
            for _ in range(rng.below(3)):
                b.append('c:%d:%d:%s' % (rng.below(2 ** 32), rng.below(2 ** 32), s().hex() or '-'))
                b.append('x:%s' % (s(40).hex() or '-'))
            if hostile and len(b) > 1 and rng.below(2) == 0:
                b.pop()      # the LAST comment has no text: ~ChangesetDiscussionBuilder finishes it (a missing text in the middle is API misuse no reader commits)
            blocks.append(b + ['d'])
    for b in blocks:
        toks += b
    return toks


def run_layout_tie(ctx, builds, n):
    """real builders (NDEBUG build) vs HostileLayout.build; guarded walk vs Layout.decodeAll"""
    rng = ctx.rng
    lines = []
    for i in range(n):
        lines.append('lay ' + ' '.join(gen_script(rng, hostile=(i % 3 == 0))))
    corpus = os.path.join(os.path.dirname(os.path.dirname(os.path.dirname(os.path.abspath(__file__)))), 'corpus', 'C03', 'layout.ops')
    if os.path.exists(corpus):
        with open(corpus) as fh:
            lines = [l.strip() for l in fh if l.strip() and not l.startswith('#')] + lines
    model = run_model_lines(ctx, 'model_c03', lines)
    # both builds: the scripts stay inside the builders' asserted call protocol (the last comment of a discussion may
    # lack its text: finished by the destructor since repair 5690f83; before, the assertion build aborted here)
    for bname, aflag, hbin in builds:
        res = hp.run_harness(hbin, lines)
        ndis = 0
        first = None
        for line, m, (out, crash) in zip(lines, model, res):
            ctx.note_case(bname + ' ' + line)
            if crash is not None:
                sig = hp.crash_signature(crash)
                key = 'xml-comment-without-text' if 'ChangesetDiscussionBuilder' in crash['stderr'] else 'layout-builder-crash:' + sig
                ctx.violation(key, '%sreal builders (%s) died on a builder script: %s'
                              % (hp.REGRESSIONS[key] + ' — ' if key in hp.REGRESSIONS else '', bname, sig),
                              {'kind': 'counterexample', 'op': line, 'build': bname, 'stderr': crash['stderr'][-3000:]})
                continue
            mw = m.split(' ')
            if aflag == '0':
                ctx.count('layout-verdict:' + (mw[1] if len(mw) > 1 else m)[:16])
            if m == 'err:length_error' or out == 'err:length_error':
                # a builder's own length check (set_user since bc6b907, add_tag, add_member, add_comment)
                if m != out:
                    ndis += 1
                    if first is None:
                        first = (line, out, m)
                continue
            # model line: "<hex> ok|oob <guards 0|1>"; harness: "<hex> ok|OOB:<where>"
            ow = out.split(' ')
            same_bytes = len(mw) >= 2 and len(ow) >= 2 and mw[0] == ow[0]
            same_verdict = len(mw) >= 2 and len(ow) >= 2 and (mw[1] == 'ok') == (ow[1] == 'ok')
            guards_sound = len(mw) < 3 or mw[2] != '1' or (len(ow) >= 2 and ow[1] == 'ok')
            if not (same_bytes and same_verdict and guards_sound):
                ndis += 1
                if first is None:
                    first = (line, out, m)
        st = ctx.streams.setdefault('layout-build-vs-real-builders-' + bname, {'lines': 0, 'disagreements': 0})
        st['lines'] += len(lines)
        st['disagreements'] += ndis
        if first is not None:
            ctx.violation('layout-correspondence:' + bname, 'HostileLayout.build / Layout.decodeAll and the real builders / guarded walk (%s) disagree on %d builder scripts; first: impl `%s` model `%s`'
                          % (bname, ndis, first[1][:300], first[2][:300]), {'kind': 'broken-correspondence', 'op': first[0], 'impl': first[1][:4000], 'model': first[2][:4000]}, found_input=False)


# ======================================================================================================
# xmlmon: builder-protocol predictions
# ======================================================================================================

def xmlmon(ctx, datas):
    outs = run_model_lines(ctx, 'model_c03', ['xmlmon %s' % (d.hex() or '-') for d in datas])
    return outs


def run_part(ctx):
    rng = ctx.rng
    quick = ctx.tier == 'quick'
    ctx.assumptions.append('text hostile tier: memory safety of the COMPILED code is established only for the inputs run (sanitizers), not proved; '
                           'expat, zlib, libbz2 and the allocator are outside the models; XML outcome classes are compared only inside the domain of the model tokenizer')
    builds = hp.build_harnesses(ctx)
    if builds is None:
        return
    if not ctx.exe_build_ok:
        ctx.violation('text-model-driver-build', 'model_text / model_c03 do not build', {'kind': 'broken-correspondence'}, found_input=False)
        return
    corpus_dir = os.path.join(os.path.dirname(os.path.dirname(os.path.dirname(os.path.abspath(__file__)))), 'corpus', 'C03')

    def corpus(prefix):
        out = []
        pr = {}
        if os.path.isdir(corpus_dir):
            for fn in sorted(os.listdir(corpus_dir)):
                if fn.startswith(prefix) and fn.endswith('.ops'):
                    with open(os.path.join(corpus_dir, fn)) as fh:
                        for l in fh:
                            l = l.strip()
                            if l and not l.startswith('#'):
                                w = l.split(' ', 2)
                                d = bytes.fromhex(w[0]) if w[0] != '-' else b''
                                out.append(('corpus:' + fn, d))
                                if len(w) == 3:
                                    pr[d] = (w[1], w[2])
        return out, pr

    # ---- XML ----------------------------------------------------------------------------------------
    hp.tick(ctx, 'xml:generate')
    inputs, probes = corpus('xml')
    labels = {}
    nbase = 7 if quick else 24
    for k in range(nbase):
        root = gen_xml(rng, change=(k % 5 == 4))
        data = ser_doc(root)
        inputs.append(('valid', data))
        if len(data) <= 1500:
            step = 1 if len(data) < 700 else 2
            for n in range(0, len(data), step):
                inputs.append(('prefix', data[:n]))
        else:
            for _ in range(300):
                inputs.append(('prefix', data[:rng.below(len(data))]))
        inputs += hp.byte_mutations(rng, data, 60 if quick else 300, interesting=(0, 0x3c, 0x3e, 0x22, 0x26, 0x2f, 0x80, 0xff, 0x0a))
        inputs += xml_mutations(rng, root, 330 if quick else 1200, 2 if quick else 10)
    wspecs = [(6 + rng.below(8), rng.below(2 ** 30), o) for o in (['', 'add_metadata=false'] if quick else ['', 'add_metadata=false', 'xml_change_format=true', 'locations_on_ways=true'] * 3)]
    for data in hp.gen_real(ctx, builds[0][2], 'xml', wspecs):
        inputs.append(('writer', data))
        for _ in range(80 if quick else 400):
            inputs.append(('writer-prefix', data[:rng.below(len(data))]))
        inputs += [('writer-' + l, d) for l, d in hp.byte_mutations(rng, data, 80 if quick else 400, interesting=(0, 0x3c, 0x3e, 0x22, 0x26, 0x2f, 0x80, 0xff))]
    for lab, d in inputs:
        labels.setdefault(d, lab)

    def xml_model(datas):
        return text_model_classes(ctx, 'xml', datas, [xml_in_model_domain(labels[d], d) for d in datas])

    xin, xouts = hp.hostile_run(ctx, 'xml', 'xml', builds, inputs, xml_model, types=23, probes=probes, comp_sample=40 if quick else 300)
    hp.smallbuf_run(ctx, 'xml', 'xml', xin, xouts, 23, select=hp.structure_label, share=2 if quick else None)
    # builder-protocol monitor of the model vs what really happened, both builds
    hp.tick(ctx, 'xml:xmlmon')
    mon = xmlmon(ctx, [d for _, d in xin])
    for bname, aflag, _ in builds:
        xout = xouts[aflag]
        nmis = 0
        first = None
        for (lab, d), m, (out, crash) in zip(xin, mon, xout):
            predicted = m.startswith('ub:') or (aflag == '1' and m.startswith('dbg:'))
            if aflag == '0':
                ctx.count('xmlmon:' + m.split(' ')[0])
            if m == 'tokerr' or not (xml_in_model_domain(lab, d) or lab in ('prefix', 'writer-prefix') or lab.startswith('corpus')):
                continue      # outside the tokenizer's domain (expat validates UTF-8, references, ...): no prediction
            happened = crash is not None or (out is not None and out.startswith('OOB:'))
            if predicted != happened:
                nmis += 1
                if first is None:
                    first = (lab, d, m, out if out is not None else hp.crash_signature(crash))
        st = ctx.streams.setdefault('xmlmon-vs-reader-' + bname, {'lines': 0, 'disagreements': 0})
        st['lines'] += sum(1 for m in mon if m != 'tokerr')
        st['disagreements'] += nmis
        if first is not None:
            lab, d, m, o = first
            ctx.violation('xmlmon-correspondence:' + bname, 'builder-protocol monitor (model_c03 xmlmon) and the real Reader (%s) disagree on %d XML inputs; first (mutation %s): model `%s`, reader `%s`'
                          % (bname, nmis, lab, m, o[:200]), {'kind': 'broken-correspondence', 'op': 'rd %s xml none 23 %s' % (aflag, d.hex()[:60000]), 'model': m, 'impl': o[:2000]}, found_input=False)

    # ---- OPL ----------------------------------------------------------------------------------------
    hp.tick(ctx, 'opl:generate')
    inputs, probes = corpus('opl')
    nbase = 5 if quick else 24
    for k in range(nbase):
        lines = gen_opl(rng)
        data = ser_opl(lines)
        inputs.append(('valid', data))
        for n in range(len(data)):
            inputs.append(('prefix', data[:n]))
        inputs += hp.byte_mutations(rng, data, 60 if quick else 300, interesting=(0, 0x20, 0x2c, 0x3d, 0x40, 0x25, 0x0a, 0x0d, 0x09, 0xff))
        inputs += opl_mutations(rng, lines, 700 if quick else 2500, 2 if quick else 9)
    wspecs = [(6 + rng.below(8), rng.below(2 ** 30), o) for o in (['', 'add_metadata=false'] if quick else ['', 'add_metadata=false', 'locations_on_ways=true'] * 3)]
    for data in hp.gen_real(ctx, builds[0][2], 'opl', wspecs):
        inputs.append(('writer', data))
        for _ in range(60 if quick else 300):
            inputs.append(('writer-prefix', data[:rng.below(len(data))]))
        inputs += [('writer-' + l, d) for l, d in hp.byte_mutations(rng, data, 80 if quick else 400, interesting=(0, 0x20, 0x2c, 0x3d, 0x40, 0x25, 0x0a, 0x0d))]

    def opl_model(datas):
        return text_model_classes(ctx, 'opl', datas, [len(d) < 200000 for d in datas])

    oin, oouts = hp.hostile_run(ctx, 'opl', 'opl', builds, inputs, opl_model, types=23, probes=probes, comp_sample=40 if quick else 300)
    hp.smallbuf_run(ctx, 'opl', 'opl', oin, oouts, 23, select=hp.structure_label, share=2 if quick else None)

    # ---- OPL: the cursor program of Model/HostileOpl.lean (subject of `opl_reads_in_bounds`) against the abstract
    # line parser Model/OplFmt.lean (the one compared with the real Reader above), on every line of every input
    hp.tick(ctx, 'opl:cursor-program')
    seen = set()
    olines = []
    for _, d in oin:
        for seg in re.split(b'[\n\r]', d):
            seg = seg.split(b'\x00', 1)[0]
            if seg and len(seg) <= (4096 if quick else 70000) and seg not in seen:
                seen.add(seg)
                olines.append(seg)
    couts = run_model_lines(ctx, 'model_c03', ['oplcur %s' % (l.hex() or '-') for l in olines])
    ndiff = 0
    first = None
    for l, o in zip(olines, couts):
        ctx.note_case('oplcur ' + l.hex())
        ctx.count('oplcur:' + o.split(' ')[0])
        if o != 'same':
            ndiff += 1
            if first is None:
                first = (l, o)
    ctx.streams['opl-cursor-program-vs-line-parser-model'] = {'lines': len(olines), 'disagreements': ndiff}
    if first is not None:
        ctx.violation('opl-cursor-program-correspondence', 'the OPL cursor program (Model/HostileOpl.lean, parseLineCur) and the abstract line parser '
                      '(Model/OplFmt.lean, parseLine) disagree on %d of %d lines; first: `%s` -> %s' % (ndiff, len(olines), first[0][:200].decode('latin-1'), first[1]),
                      {'kind': 'broken-correspondence', 'op': 'oplcur ' + first[0].hex(), 'model': first[1]}, found_input=False)

    # ---- layout tie -----------------------------------------------------------------------------------
    hp.tick(ctx, 'layout:tie')
    run_layout_tie(ctx, builds, 300 if quick else 6000)
    hp.tick(ctx, 'text:done')
