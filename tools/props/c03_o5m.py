"""C03, o5m part — hostile o5m input never causes memory errors, aborts or hangs (DESIGN.md §3 C03).

proof (dispatcher): lean/Osmium/Props/C03O5m.lean — `o5m_reads_in_bounds`: for every byte string
the decoder model never reads at/after the dataset's end or outside a table slot.
hostile tier (here): the REAL osmium::io::Reader (harness/o5m.cpp) built with ASan+UBSan, once
with -DNDEBUG and once with assertions, alarm() watchdog, every delivered object traversed
completely.  Inputs:
  * every prefix of valid files (from the Lean spec encoder),
  * single / double byte mutations,
  * structure-aware mutations driven by the encoder's token stream: every length / table-index /
    number field set to 0, 1, max, max+1, 2^63, 11-byte and truncated varints; NUL inserted in /
    removed from string positions; strings blown up to 253 / 1025 / 65534 / 65535 / 65536 bytes or
    prefixed with 0xff bytes; inline marker turned into a reference; dataset type / length damaged,
  * corpus/C03/o5m*.ops (regression seeds).
  * corpus/C03/o5m*.ops: regression probes `<hex> <stable key> <expected outcome>` — the inputs of
    the five repaired findings; a different outcome / crash raises VIOLATION with the stable key.
For every input: the outcome (objects or error kind) of both builds must equal the model's; a
sanitizer report, abort, crash or timeout is a violation with the input as replay (the theorem
o5m_hostile_safe says the model itself never yields oob/ub; should it, that is a violation too).
"""
import concurrent.futures
import os
import re
import subprocess

from props import c02_o5m as base
from props import c03_pbf as hp

MODULES = ['Osmium.Props.C03O5m']
EXES = ['model_o5m']
RULE = ('o5m hostile tier: prefixes + byte mutations + token-driven structure mutations of spec-encoder files, run on the real '
        'Reader (ASan+UBSan, NDEBUG and assertions, watchdog, full traversal) and the model; distinct = distinct (input, build); '
        'valid files + structure mutations again through harness/c03.cpp at normal and at 64..200-byte parser buffer sizes '
        '(objects must be identical); non-trivial = all (every input is a damaged or truncated o5m file)')

SAN_FLAGS = ['-fno-sanitize=signed-integer-overflow']   # DeltaDecode::update wraps by design (comment in util/delta.hpp)
MAXV = 2 ** 64 - 1


def parse_toks(toks):
    out = []
    for t in toks.split(','):
        if t.startswith('r:'):
            out.append(('r', bytes.fromhex(t[2:]) if t[2:] != '-' else b''))
        else:
            head, _, body = t.partition(':')
            typ = int(head[1:], 16)
            fields = []
            if body:
                for f in body.split(';'):
                    fields.append((f[0], bytes.fromhex(f[1:]) if f[1:] != '-' else b''))
            out.append(('d', typ, fields))
    return out


def build(toks, stale=None):
    """stale = (dataset index, length value) to write a wrong dataset length"""
    out = bytearray()
    for i, t in enumerate(toks):
        if t[0] == 'r':
            out += t[1]
        else:
            payload = b''.join(f[1] for f in t[2])
            ln = len(payload)
            if stale is not None and stale[0] == i:
                ln = stale[1]
            out += bytes([t[1]]) + base.uvar(ln) + payload
    return bytes(out)


def with_field(toks, di, fi, newbytes):
    t = toks[di]
    fields = list(t[2])
    if newbytes is None:
        del fields[fi]
    else:
        fields[fi] = (fields[fi][0], newbytes)
    return toks[:di] + [('d', t[1], fields)] + toks[di + 1:]


LONG11 = b'\xff' * 10 + b'\x01'


def structure_mutations(rng, toks, budget, bigbudget):
    """yield (label, bytes)"""
    muts = []
    big = []
    ds_idx = [i for i, t in enumerate(toks) if t[0] == 'd']
    for di in ds_idx:
        typ, fields = toks[di][1], toks[di][2]
        plen = sum(len(f[1]) for f in fields)
        # dataset level
        for v, lab in ((0, 'dslen=0'), (1, 'dslen=1'), (max(plen - 1, 0), 'dslen-1'), (plen + 1, 'dslen+1'), (MAXV, 'dslen=max'),
                       (2 ** 63, 'dslen=2^63'), (2 ** 32, 'dslen=2^32')):
            muts.append((lab, build(toks, stale=(di, v))))
        for nt in (0x10, 0x11, 0x12, 0xdb, 0xdc, 0xee, 0xf0, 0xff):
            if nt != typ:
                muts.append(('dstype=%02x' % nt, build(toks[:di] + [('d', nt, fields)] + toks[di + 1:]) if nt < 0xf0
                             else build(toks[:di] + [('r', bytes([nt]))] + toks[di:])))
        muts.append(('dsdrop', build(toks[:di] + toks[di + 1:])))
        muts.append(('dsdup', build(toks[:di] + [toks[di]] + toks[di:])))
        for fi, (k, b) in enumerate(fields):
            rest = sum(len(f[1]) for f in fields[fi + 1:])
            if k in ('l', 'i'):
                vals = [0, 1, 2, MAXV, MAXV - 1, 2 ** 63, 2 ** 63 - 1, 2 ** 32, 15000, 15001, 14999, rest, rest + 1, max(rest - 1, 0)]
                for v in vals:
                    muts.append(('%s=%d' % (k, v), build(with_field(toks, di, fi, base.uvar(v)))))
                muts.append((k + '=11bytes', build(with_field(toks, di, fi, LONG11))))
                muts.append((k + '=trunc', build(with_field(toks, di, fi, b'\x80'))))
                muts.append((k + '=drop', build(with_field(toks, di, fi, None))))
            elif k == 'n':
                for v in (0, MAXV, 2 ** 63, 2 ** 32 * 2 + 1, 4294967294, 4294967295 * 2):
                    muts.append(('n=%d' % v, build(with_field(toks, di, fi, base.uvar(v)))))
                muts.append(('n=11bytes', build(with_field(toks, di, fi, LONG11))))
                muts.append(('n=trunc', build(with_field(toks, di, fi, b'\x80'))))
                muts.append(('n=drop', build(with_field(toks, di, fi, None))))
            elif k == 'm':
                for v in (b'\x01', b'\x02', b'\x7f', b''):
                    muts.append(('m=%s' % (v.hex() or 'drop'), build(with_field(toks, di, fi, v if v else None))))
            elif k == 's':
                pos = sorted(set([0, 1, len(b) // 2, max(len(b) - 1, 0), len(b)] + [rng.below(len(b) + 1) for _ in range(2)]))
                for p in pos:
                    muts.append(('s+nul@%d' % p, build(with_field(toks, di, fi, b[:p] + b'\x00' + b[p:]))))
                for p in [i for i, c in enumerate(b) if c == 0]:
                    muts.append(('s-nul@%d' % p, build(with_field(toks, di, fi, b[:p] + b[p + 1:]))))
                    muts.append(('s!nul@%d' % p, build(with_field(toks, di, fi, b[:p] + b'\x41' + b[p + 1:]))))
                muts.append(('s=ff12+', build(with_field(toks, di, fi, b'\xff' * 12 + b))))
                muts.append(('s=trunc', build(with_field(toks, di, fi, b[:len(b) // 2]))))
                muts.append(('s=empty', build(with_field(toks, di, fi, b''))))
                nul = b.find(b'\x00')
                if nul >= 0:
                    for L in (250, 251, 253, 1024, 1025):
                        # grow the part after the first NUL (user name / tag value) and the part before it (key)
                        muts.append(('s.grow2=%d' % L, build(with_field(toks, di, fi, b[:nul + 1] + b'u' * L + b'\x00'))))
                    for L in (65534, 65535, 65536, 70000, 131071):
                        big.append(('s.grow2=%d' % L, di, fi, b[:nul + 1] + b'u' * L + b'\x00'))
                    for L in (253, 1025):
                        muts.append(('s.grow1=%d' % L, build(with_field(toks, di, fi, b'k' * L + b[nul:]))))
                    if typ == 0x12:
                        for L in (253, 1024, 1025):
                            muts.append(('s.growrole=%d' % L, build(with_field(toks, di, fi, b[:1] + b'r' * L + b'\x00'))))
    if len(muts) > budget:
        rng.shuffle(muts)
        muts = muts[:budget]
    rng.shuffle(big)
    for lab, di, fi, nb in big[:bigbudget]:
        muts.append((lab, build(with_field(toks, di, fi, nb))))
    return muts


def byte_mutations(rng, data, n):
    out = []
    if not data:
        return out
    for _ in range(n):
        b = bytearray(data)
        for _ in range(1 + rng.below(2)):
            p = rng.below(len(b))
            c = rng.below(6)
            if c == 0:
                b[p] = rng.below(256)
            elif c == 1:
                b[p] ^= 1 << rng.below(8)
            elif c == 2:
                b[p] = rng.choice([0, 1, 0x7f, 0x80, 0xff, 0xfe, 0x10, 0x11, 0x12])
            elif c == 3:
                del b[p]
            elif c == 4:
                b.insert(p, rng.below(256))
            else:
                b[p] = (b[p] + 1) & 0xff
        out.append(('bytes', bytes(b)))
    return out


def run_harness(hbin, lines, workers=12, chunk=400):
    """run op lines through the harness; survive crashes.  Returns list of (output or None, crash_info or None)"""
    results = [None] * len(lines)

    def work(lo, hi):
        i = lo
        while i < hi:
            p = subprocess.run([hbin], input=('\n'.join(lines[i:hi]) + '\n').encode(), capture_output=True,
                               env=dict(os.environ, ASAN_OPTIONS='detect_leaks=0:abort_on_error=0:allocator_may_return_null=1',
                                        UBSAN_OPTIONS='print_stacktrace=0'))
            outs = p.stdout.decode('latin-1').split('\n')
            if outs and outs[-1] == '':
                outs.pop()
            for k, o in enumerate(outs[:hi - i]):
                results[i + k] = (o, None)
            done = i + len(outs)
            if done >= hi and p.returncode == 0:
                return
            if done < hi:
                results[done] = (None, {'rc': p.returncode, 'stderr': p.stderr.decode('latin-1')[-6000:]})
            i = done + 1

    with concurrent.futures.ThreadPoolExecutor(max_workers=workers) as ex:
        futs = [ex.submit(work, lo, min(lo + chunk, len(lines))) for lo in range(0, len(lines), chunk)]
        for f in futs:
            f.result()
    return results


def crash_signature(info):
    se = info['stderr']
    m = re.search(r'([\w./-]+\.hpp):(\d+)(?::\d+)?: runtime error: ([^\n]{0,60})', se)
    if m:
        return 'ubsan:%s:%s:%s' % (os.path.basename(m.group(1)), m.group(2), re.sub(r'0x[0-9a-f]+', 'X', m.group(3)).replace(' ', '_')[:40])
    m = re.search(r'([\w./-]+\.hpp):(\d+): [^\n]*Assertion', se)
    if m:
        return 'assert:%s:%s' % (os.path.basename(m.group(1)), m.group(2))
    m = re.search(r'ERROR: AddressSanitizer: ([\w-]+)', se)
    if m:
        loc = re.search(r'#\d+ 0x[0-9a-f]+ in [^\n]*?(/repo/include/[\w./-]+|include/osmium/[\w./-]+):(\d+)', se)
        return 'asan:%s%s' % (m.group(1), (':%s:%s' % (os.path.basename(loc.group(1)), loc.group(2))) if loc else '')
    if info['rc'] in (-14, 142):
        return 'timeout'
    return 'rc%s' % info['rc']


def run_part(ctx):
    import vlib
    rng = ctx.rng
    quick = ctx.tier == 'quick'
    ctx.assumptions.append('o5m hostile tier: nothing is proved about the compiled code beyond the correspondence; UBSan runs without '
                           'signed-integer-overflow (DeltaDecode wraps by design); addresses < 2^47 assumed in the model of `data + length`')
    builds = []
    for name, nd in (('o5m_asan_n', True), ('o5m_asan_d', False)):
        hbin, err = vlib.build_cpp(name, ['o5m.cpp'], asan=True, ndebug=nd, flags=SAN_FLAGS)
        if hbin is None:
            ctx.violation('o5m-harness-build', 'o5m harness does not compile against the current tree: ' + err[-600:],
                          {'kind': 'harness-build', 'stderr': err}, found_input=False)
            return
        builds.append((name, '0' if nd else '1', hbin))
    if not ctx.exe_build_ok:
        ctx.violation('o5m-model-driver-build', 'model_o5m does not build', {'kind': 'broken-correspondence'}, found_input=False)
        return

    # ---- base files ---------------------------------------------------------------------------
    hp.tick(ctx, 'o5m:generate')
    seed0 = rng.below(2 ** 30)
    nbase = 30 if quick else 250
    specs = []
    for k in range(nbase):
        prof = [0, 0, 2, 4, 1][k % 5]
        specs.append((seed0 + k, prof, (1 + rng.below(2)) if prof == 4 else (2 + rng.below(6)), 1))
    files = base.gen_files(ctx, specs)
    inputs = []     # (label, bytes)
    probes = {}     # bytes -> (stable key, expected outcome)
    corpus_dir = os.path.join(vlib.ROOT, 'corpus', 'C03')
    if os.path.isdir(corpus_dir):
        for fn in sorted(os.listdir(corpus_dir)):
            if fn.startswith('o5m') and fn.endswith('.ops'):
                with open(os.path.join(corpus_dir, fn)) as fh:
                    for l in fh:
                        l = l.strip()
                        if l and not l.startswith('#'):
                            w = l.split(' ', 2)
                            d = bytes.fromhex(w[0]) if w[0] != '-' else b''
                            inputs.append(('corpus:' + fn, d))
                            if len(w) == 3:
                                probes[d] = (w[1], w[2])
    budget = 380 if quick else 700
    for f in files:
        data = bytes.fromhex(f['hex'])
        toks = parse_toks(f['toks'])
        assert build(toks) == data, 'token stream does not rebuild the file'
        inputs.append(('valid', data))
        if len(data) <= (260 if quick else 400):
            for n in range(len(data)):
                inputs.append(('prefix', data[:n]))
        else:
            for _ in range(60):
                inputs.append(('prefix', data[:rng.below(len(data))]))
        inputs += byte_mutations(rng, data, 50 if quick else 150)
        inputs += structure_mutations(rng, toks, budget, 2 if quick else 12)
    tiny = [d for d, _ in base.tiny_files()]
    for d in tiny[::3]:
        for n in range(len(d)):
            inputs.append(('prefix-tiny', d[:n]))
        inputs += byte_mutations(rng, d, 6)
    # de-duplicate
    seen = set()
    uniq = []
    for lab, d in inputs:
        if d not in seen:
            seen.add(d)
            uniq.append((lab, d))
    inputs = uniq
    for lab, _ in inputs:
        ctx.count('o5m-hostile-input:' + lab.split('=')[0].split('@')[0])
    ctx.extra['o5m_hostile_inputs'] = len(inputs)

    # a few inputs with an entity filter
    def rt_for(i):
        if inputs[i][1] in probes:
            return 7
        return 7 if i % 16 else [0, 1, 2, 4, 3, 5, 6, 7][(i // 16) % 8]

    hp.tick(ctx, 'o5m:harness+model')
    for bname, aflag, hbin in builds:
        lines = ['dec %s %d %s' % (aflag, rt_for(i), d.hex() or '-') for i, (_, d) in enumerate(inputs)]
        for l in lines:
            ctx.note_case(l)
        model = base.model_lines(ctx, lines)
        res = run_harness(hbin, lines)
        ctx.sample(lines[len(lines) // 2][:160])
        ndis = 0
        first_dis = None
        for i, ((lab, d), line, mod, (out, crash)) in enumerate(zip(inputs, lines, model, res)):
            cls = mod if not mod.startswith('ok') else 'ok'
            ctx.count('o5m-hostile-model-outcome:' + cls)
            replay = {'kind': 'counterexample', 'op': line if len(line) < 30000 else line[:30000] + '…', 'build': bname, 'mutation': lab, 'model': mod[:2000],
                      'replay': 'echo "<op>" | <harness %s (ASan+UBSan%s)>' % (bname, ', -DNDEBUG' if aflag == '0' else ', assertions on')}
            if crash is not None:
                sig = crash_signature(crash)
                ctx.count('o5m-hostile-crash:' + sig)
                replay['stderr'] = crash['stderr'][-3000:]
                replay['rc'] = crash['rc']
                if d in probes:
                    key = probes[d][0]
                    what = 'regression probe %s: real Reader (%s) died with %s (expected `%s`)' % (key, bname, sig, probes[d][1])
                elif mod.startswith('ub:'):
                    key = 'o5m-' + mod[3:]
                    what = 'model: %s; real Reader (%s): %s on a %d-byte o5m input (mutation %s)' % (mod, bname, sig, len(d), lab)
                else:
                    key = 'o5m-crash:' + sig
                    what = 'real Reader (%s) died with %s on a %d-byte o5m input (mutation %s); the model predicted `%s`' % (bname, sig, len(d), lab, mod[:80])
                ctx.violation(key, what, replay)
                continue
            if out is None:
                continue   # lost behind a crash (cannot happen: run_harness restarts after the crashing line)
            if d in probes and out != probes[d][1]:
                ctx.violation(probes[d][0], 'regression probe %s: real Reader (%s) gives `%s`, expected `%s` — the old behaviour is back'
                              % (probes[d][0], bname, out[:160], probes[d][1][:160]), dict(replay, impl=out[:2000], expected=probes[d][1]))
                continue
            if mod.startswith('ub:') or mod == 'oob':
                # cannot happen (theorem o5m_hostile_safe); kept as a monitor on the model itself
                ctx.violation('o5m-' + mod.replace('ub:', ''),
                              'model: %s — the decoder leaves defined behaviour on this %d-byte input (mutation %s); real Reader (%s) this time: `%s`'
                              % (mod, len(d), lab, bname, out[:120]), dict(replay, impl=out[:2000]))
                continue
            if out != mod:
                ndis += 1
                if first_dis is None:
                    first_dis = (line, out, mod, lab)
        st = ctx.streams.setdefault('o5m-c03-model-vs-reader-' + bname, {'lines': 0, 'disagreements': 0})
        st['lines'] += len(lines)
        st['disagreements'] += ndis
        if first_dis is not None:
            line, out, mod, lab = first_dis
            d = base.first_diff(out, mod) if out.startswith('ok') and mod.startswith('ok') else None
            ctx.violation('o5m-hostile-correspondence:' + bname,
                          'o5m model and real Reader (%s) disagree on %d hostile inputs; first (mutation %s): impl `%s` model `%s`'
                          % (bname, ndis, lab, (d[1] if d else out)[:200], (d[2] if d else mod)[:200]),
                          {'kind': 'broken-correspondence', 'op': line[:30000], 'impl': out[:3000], 'model': mod[:3000], 'build': bname},
                          found_input=False)

    # ---- small-buffer builds (machinery in c03_pbf.py): the parser's buffer starts at 64..200 bytes and grows while
    # objects are built; reference = the same `rd` op on the normal-size builds of harness/c03.cpp (guarded walk there too)
    cb = hp.build_harnesses(ctx)
    if cb is None:
        return
    hp.tick(ctx, 'o5m:smallbuf-reference')
    sel = [i for i, (lab, _) in enumerate(inputs) if hp.structure_label(lab) and not lab.startswith('prefix')]
    cap = 3000 if quick else 24000
    if len(sel) > cap:
        sel = [i for k, i in enumerate(sel) if inputs[i][0] == 'valid' or k % ((len(sel) + cap - 1) // cap) == 0]
    sin = [inputs[i] for i in sel]
    srt = [rt_for(i) for i in sel]
    ref = {}
    for bname, aflag, hbin in cb[:1]:       # NDEBUG build; the assertion small-buffer builds are compared with it as well
        lines = ['rd %s o5m none %d %s' % (aflag, srt[k], d.hex() or '-') for k, (_, d) in enumerate(sin)]
        ref[aflag] = hp.run_harness(hbin, lines)
        for k, ((lab, d), line, (out, crash)) in enumerate(zip(sin, lines, ref[aflag])):
            ctx.note_case(bname + ' ' + line)
            if crash is not None or (out is not None and (out.startswith('OOB:') or out == 'NONSTD')):
                hp.report(ctx, 'o5m', 'o5m', srt[k], bname, aflag, hbin, lab, d, line, None, out, crash)
    hp.smallbuf_run(ctx, 'o5m', 'o5m', sin, ref, lambda k: srt[k], share=3 if quick else 2)
