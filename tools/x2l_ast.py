"""clang JSON AST loading + indexing for tools/cxx2lean.py.

The dump is produced by ONE clang run (`-ast-dump=json -ast-dump-filter=osmium`), so that declaration
ids are consistent: a call / member reference is resolved to the callee's body through its id.
"""
import json


class Unsupported(Exception):
    """a construct outside the translated subset (message names file:line)"""


FUNC_KINDS = ('FunctionDecl', 'CXXMethodDecl', 'CXXConstructorDecl', 'CXXConversionDecl', 'CXXDestructorDecl')
RECORD_KINDS = ('CXXRecordDecl', 'ClassTemplateSpecializationDecl')


def load_objects(text):
    """the filtered dump is a sequence of JSON objects"""
    dec = json.JSONDecoder()
    i, n, objs = 0, len(text), []
    while i < n:
        while i < n and text[i] in ' \n\r\t':
            i += 1
        if i >= n:
            break
        o, i = dec.raw_decode(text, i)
        objs.append(o)
    return objs


def _targ_str(n):
    if 'type' in n:
        t = n['type']
        return t.get('desugaredQualType') or t.get('qualType')
    if 'value' in n:
        return str(n['value'])
    return '?'


class Index:
    """by_id: decl id -> node; every node gets `_file`, `_line` (presumed location, reconstructed: the
    JSON printer only emits file/line when they change), decls get `_q` (qualified name), `_parent`
    (enclosing decl node) and `_dep` (inside a template pattern)."""

    def __init__(self, objs):
        self.by_id = {}
        self.funcs = {}      # qualified name -> [nodes with a body]
        self.records = {}    # qualified name -> complete record node
        self.enums = {}      # qualified name / '(unnamed enum at f:l:c)' -> EnumDecl node
        self.redecl = {}     # previousDecl id -> [later redeclaration nodes]
        self.inline_ns = set()  # qualified names of inline namespaces
        self.tmpl_defaults = {}  # class template (qualified, without inline namespaces) -> default argument per parameter (or None)
        self._file = None
        self._line = None
        for o in objs:
            ctx = self.by_id.get(o.get('parentDeclContextId'))
            self._walk(o, list(ctx.get('_subscope', [])) if ctx else [], ctx if ctx and ctx.get('kind') != 'NamespaceDecl' else None, False)

    # ---- location reconstruction (document order) ---------------------------------------
    def _bare(self, loc):
        if not isinstance(loc, dict):
            return
        if 'spellingLoc' in loc or 'expansionLoc' in loc:
            for k in loc:                    # in emission order
                if k in ('spellingLoc', 'expansionLoc'):
                    self._bare(loc[k])
            return
        if 'file' in loc:
            self._file = loc['file']
        if 'line' in loc:
            self._line = loc['line']

    @staticmethod
    def _begin_offset(loc):
        if 'expansionLoc' in loc:
            loc = loc['expansionLoc']
        return loc.get('offset')

    def _walk(self, n, scope, parent, dep):
        kind = n.get('kind', '')
        got = False
        for k in list(n):                    # key order = emission order
            if k == 'loc':
                self._bare(n['loc'])
                if not got and n['loc']:
                    n['_file'], n['_line'] = self._file, self._line
                    got = True
            elif k == 'range':
                r = n['range']
                self._bare(r.get('begin'))
                if not got:
                    n['_file'], n['_line'] = self._file, self._line
                    got = True
                n['_bfile'] = self._file
                self._bare(r.get('end'))
                n['_efile'] = self._file
            elif k == 'inner':
                break
        if not got:
            n['_file'], n['_line'] = self._file, self._line
        isdecl = kind.endswith('Decl')
        sub_scope, sub_dep = scope, dep
        if isdecl:
            n['_parent'] = parent
            n['_dep'] = dep
            if 'id' in n:
                self.by_id[n['id']] = n
            if 'previousDecl' in n:
                self.redecl.setdefault(n['previousDecl'], []).append(n)
            name = n.get('name')
            if kind == 'NamespaceDecl':
                sub_scope = scope + [name or '(anonymous)']
                n['_subscope'] = sub_scope
                if n.get('isInline'):
                    self.inline_ns.add('::'.join(sub_scope))
            elif kind in RECORD_KINDS:
                nm = name or '(anonymous)'
                if kind == 'ClassTemplateSpecializationDecl':
                    args = [_targ_str(c) for c in n.get('inner', []) if c.get('kind') == 'TemplateArgument']
                    nm = '%s<%s>' % (nm, ', '.join(args))
                    n['_targs'] = args
                q = '::'.join(scope + [nm])
                n['_q'] = q
                n['_scope'] = list(scope)
                if n.get('completeDefinition') and not dep:
                    self.records.setdefault(q, n)
                    alias = self._without_inline(scope, nm)      # clang prints types without inline namespaces
                    if alias != q:
                        self.records.setdefault(alias, n)
                sub_scope = scope + [nm]
                n['_subscope'] = sub_scope
            elif kind in ('ClassTemplateDecl', 'FunctionTemplateDecl', 'ClassTemplatePartialSpecializationDecl',
                          'TypeAliasTemplateDecl', 'VarTemplateDecl'):
                # the first record/function child is the pattern (dependent); specialisations follow
                if kind == 'ClassTemplateDecl' and name:
                    # simple (non-dependent) default template arguments: clang omits them when it prints a type
                    ps = [c for c in n.get('inner', []) if c.get('kind', '').startswith('TemplateT') or c.get('kind') == 'NonTypeTemplateParmDecl']
                    defs = []
                    for c in ps:
                        t = (c.get('defaultArg') or {}).get('type') or {}
                        defs.append(t.get('desugaredQualType') or t.get('qualType'))
                    self.tmpl_defaults[self._without_inline(scope, name)] = defs
            elif kind == 'EnumDecl':
                q = '::'.join(scope + [name]) if name else None
                n['_q'] = q
                n['_scope'] = list(scope)
                if not dep:
                    if q:
                        self.enums.setdefault(q, n)
                    self.enums.setdefault('@%s:%s' % (n['_file'], n['_line']), n)
                if n.get('scopedEnumTag'):
                    sub_scope = scope + [name]
            elif kind in FUNC_KINDS:
                q = '::'.join(scope + [name or '?'])
                n['_q'] = q
                n['_scope'] = list(scope)
                if not dep and any(c.get('kind') == 'CompoundStmt' for c in n.get('inner', [])):
                    self.funcs.setdefault(q, []).append(n)
                sub_scope = scope + [name or '?']
            elif kind in ('EnumConstantDecl', 'VarDecl', 'FieldDecl'):
                n['_q'] = '::'.join(scope + [name or '?'])
                n['_scope'] = list(scope)
            parent_for_children = n
        else:
            parent_for_children = parent
        inner = n.get('inner')
        if inner:
            tmpl = kind in ('ClassTemplateDecl', 'FunctionTemplateDecl')
            first_pattern = True
            for c in inner:
                cd = sub_dep
                if tmpl and c.get('kind') in ('CXXRecordDecl',) + FUNC_KINDS and first_pattern:
                    cd = True
                    first_pattern = False
                elif kind == 'ClassTemplatePartialSpecializationDecl':
                    cd = True
                self._walk(c, sub_scope, parent_for_children, cd)

    def complete_defaults(self, s):
        """`ns::T<a>` -> `ns::T<a, d>` when clang left out the trailing default template arguments"""
        i = s.find('<')
        if i < 0 or not s.endswith('>') or s[:i] not in self.tmpl_defaults:
            return None
        args, depth, cur = [], 0, ''
        for ch in s[i + 1:-1]:
            if ch == ',' and depth == 0:
                args.append(cur.strip())
                cur = ''
                continue
            depth += ch in '<(' 
            depth -= ch in '>)'
            cur += ch
        args.append(cur.strip())
        defs = self.tmpl_defaults[s[:i]]
        if len(args) >= len(defs) or any(d is None or not d.replace(' ', '').isalnum() for d in defs[len(args):]):
            return None
        return '%s<%s>' % (s[:i], ', '.join(args + defs[len(args):]))

    def _without_inline(self, scope, nm):
        parts = []
        for i, c in enumerate(scope):
            if '::'.join(scope[:i + 1]) not in self.inline_ns:
                parts.append(c)
        return '::'.join(parts + [nm])

    # ---- lookups -------------------------------------------------------------------------
    def definition(self, node):
        """the redeclaration of a function that has the body"""
        if any(c.get('kind') == 'CompoundStmt' for c in node.get('inner', [])):
            return node
        seen, todo = set(), [node]
        while todo:
            x = todo.pop()
            if x['id'] in seen:
                continue
            seen.add(x['id'])
            if any(c.get('kind') == 'CompoundStmt' for c in x.get('inner', [])):
                return x
            todo += self.redecl.get(x['id'], [])
            if 'previousDecl' in x and x['previousDecl'] in self.by_id:
                todo.append(self.by_id[x['previousDecl']])
        return None

    def find_function(self, qname, sig=None):
        c = [f for f in self.funcs.get(qname, []) if sig is None or sig in f['type']['qualType']]
        if len(c) != 1:
            raise Unsupported('target %s%s: %d definitions found in the AST (need exactly 1): %s'
                              % (qname, ' ' + sig if sig else '', len(c), [f['type']['qualType'] for f in c]))
        return c[0]


class Sources:
    """source text of a node through the byte offsets clang reports"""

    def __init__(self):
        self.cache = {}

    def data(self, path):
        if path not in self.cache:
            with open(path, 'rb') as f:
                self.cache[path] = f.read()
        return self.cache[path]

    def text(self, node):
        r = node.get('range') or {}
        b, e = r.get('begin') or {}, r.get('end') or {}
        if 'expansionLoc' in b:
            b = b['expansionLoc']
        if 'expansionLoc' in e:
            e = e['expansionLoc']
        if 'offset' not in b or 'offset' not in e or node.get('_bfile') != node.get('_efile') or not node.get('_bfile'):
            return ''
        d = self.data(node['_bfile'])
        return d[b['offset']: e['offset'] + e.get('tokLen', 1)].decode('utf-8', 'replace')


def is_expr(n):
    k = n.get('kind', '')
    return not (k.endswith(('Decl', 'Attr', 'Comment')) or k in ('TemplateArgument', 'CXXCtorInitializer', 'CompoundStmt'))
