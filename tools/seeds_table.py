#!/usr/bin/env python3
"""Print the markdown table of seeded changes (from seeded/*/meta.json + notes.md) for DESIGN.md §9.3."""
import json, os, re, glob
ROOT = os.path.dirname(os.path.dirname(os.path.abspath(__file__)))
print('| seed | what the change is / what it needs to manifest | suite | demo clean/changed | caught by `check.py` | how |')
print('|---|---|---|---|---|---|')
for d in sorted(glob.glob(os.path.join(ROOT, 'seeded', '*'))):
    mp = os.path.join(d, 'meta.json')
    if not os.path.exists(mp):
        continue
    m = json.load(open(mp))
    c = m.get('confirmed', {})
    notes = ''
    np_ = os.path.join(d, 'notes.md')
    if os.path.exists(np_):
        txt = open(np_).read()
        txt = re.sub(r'[#*`|]', '', txt)
        txt = ' '.join(txt.split())
        notes = txt[:260]
    chk = c.get('checks', {})
    det = []
    how = []
    for p, r in chk.items():
        det.append('%s: %s' % (p, 'yes' if r.get('detected') else 'NO'))
        ls = [l for l in r.get('lines', []) if l.strip().startswith('what:')]
        if ls:
            how.append(re.sub(r'[|`]', '', ls[0].strip()[6:])[:200])
        nf = any('no-failing-input-found' in l for l in r.get('lines', []) if l.startswith('VIOLATION'))
        fi = any(l.startswith('VIOLATION') and 'no-failing-input-found' not in l for l in r.get('lines', []))
        if r.get('detected'):
            det[-1] += ' (concrete input)' if fi else ' (no-failing-input-found)'
    print('| %s | %s | %s | %s / %s | %s | %s |' % (m.get('id', os.path.basename(d)), notes, c.get('suite', '?'), c.get('demo_clean', '?'), c.get('demo_patched', '?'), '; '.join(det) or 'not run', ' / '.join(how)))
