#!/usr/bin/env python3
"""Regenerate §9 (build record) of DESIGN.md from what is on disk: enabled checks, evidence files,
KNOWN_FINDINGS.txt and the seeded changes.  The hand-written notes per property live in NOTES below."""
import glob
import json
import os
import re
import subprocess

ROOT = os.path.dirname(os.path.dirname(os.path.abspath(__file__)))
MARK = '## 9. Build record'

NOTES = {
    'C01': 'parts: PBF (Model/Pbf, PbfMsg, StringTable, Delta; byte-exact writer correspondence, cross reads, block-accounting stream, independent framing walker) and text (Model/OplFmt, XmlFmt over an explicit ExpatContract; byte-exact writers, cross reads, real-write→real-read monitor over options × compressions). Proved at full strength: delta/string-table/packed round trips; PBF Info, node, way, relation and dense-node round trips at field and byte level; pbf_block_roundtrip and pbf_file_roundtrip (decodeFile (encodeFile opts h objs) = (projectHeader, objs.map project) whenever the writer succeeds); header round trip with boxes; size estimate sound and block limits (≤ 8000 entities, blob ≤ 32 MiB or the writer raises — the proof exposed the 5-byte blob-size gap fixed in 77d5451); opl_roundtrip and opl_file_roundtrip; xml_roundtrip for nodes/ways/relations and changesets with discussions; xml_file_roundtrip over several buffers, header and change-file theorems (under ExpatContract). Known finding: xml-u32-max:changeset.',
    'C02': 'spec encoders with explicit choice vectors for PBF (field order, dense/plain, granularity, offsets, date granularity, unknown fields, indexdata, table layout, block splitting), o5m (inline vs back-reference per pair, table wrap-around, resets, unknown/sync/jump datasets, o5c) and OPL/XML renderers (attribute order, separators, escape styles, quoting, entity vs char-ref, line endings); files read by the real Reader and by the model decoders. Proved at full strength: pbf_decode_spec, o5m_table_ring + o5m_decode_spec, opl_decode_spec, xml_decode_spec (reader half for any XML-1.0-conformant event source + lexical half for the model tokenizer), field-order/unknown-field/any-rank lemmas, any BlobHeader size ≤ 64 KiB.',
    'C03': 'partial by design (compiled-code memory safety is established by sanitizer runs, not proved). 60 theorems over the layout/decoder/parser models, which follow the repaired source: (pbf) decoder total; every string handed to a builder is a NUL-free table entry of at most 1024 bytes; pbf_decoded_objects_guards / pbf_decoded_objects_wf: every object decoded from ANY byte string passes all builder guards and is traversed completely in bounds (premise item < 4 GiB, which the real code now enforces: fix 2935e9f was found by trying to discharge it); (xml) reader total over all expat event sequences, xml_reader_keeps_builder_protocol (no add_comment while one is pending, no text without a comment, no null builder), user names <= 1024; (opl/text) timestamp, coordinate, integer, string and escape parsers stop at the terminating NUL, next_utf8_codepoint never reads beyond it; (layout) wf_traverse_in_bounds, builders_traverse_complete, builders_produce_wf_partial (the builders themselves check neither NUL in tag strings nor a text-less comment in the middle of a discussion - no reader commits either); (o5m) decoder never reads at/after the dataset end or outside a table slot, no UB. Tie: real Reader under ASan+UBSan in NDEBUG and assertion builds with a watchdog on prefixes, byte mutations and model-driven structure mutations of valid files in four formats, guarded walk of every delivered buffer, outcome class equal to the models; builder scripts byte-exact against HostileLayout.build; regression probes with stable keys for every repaired defect; >4 GiB item probe on a sanitizer-free build.',
    'C04': "Model/Layout + Model/Buf (epochs model reallocation; raw pointers kept across calls become (epoch, offset); builder calls are micro programs whose only throwing step is reserve_space); 33 theorems, none _partial: capacity_independent for all scripts/capacities/modes yes|internal; buf_inv_bounds and buf_inv_aligned in EVERY reachable state (inductive invariant open_builders_sizes_congruent), destructors_never_throw, misaligned_only_inside_unaligned_list; purge_spec; stale-pointer theorems for the repaired ChangesetDiscussionBuilder (model follows 5690f83: pending comment finished in the destructor); built_bytes / built_bytes_sequence: the script of builder calls for an object commits exactly HostileLayout.build (bridge to C03's one-shot layout model), built_content: under the builders' Guards the committed bytes are Layout.WF and decode to what was passed in; set_field laws. Mode `no` for built_content and tree-level push_back/add_buffer content are monitored, not proved.",
    'C05': 'Model/Pipeline (read thread, parser thread with ParserWithBuffer nesting / PBF blob futures fulfilled by arbitrary workers, consumer with status machine and m_back_buffers; both queues are QueueSM machines of C19); 27 theorems, all WITHOUT a fault hypothesis since round 2: queue_of_futures_order against specAt (= deliver until the parser has passed a blob whose decode throws in a worker, deliverSkipping afterwards), order_in_every_state (also after shutdown, via the unpopped futures), delivered_is_prefix_any_fault (no hypothesis at all), delivered_before_fault (prefix of the objects before the faulty blob), exactly_once_in_order for every well-formed configuration, schedule/pool-size independence, faulty_blob_delivers_prefix_then_error, nested unwinding, mask = filtered subsequence, read_after_eof_fails; direct_* versions for a PBF file read through the fd (simulation). Tie = trace validation of real runs (scheduling validator finds an interleaving of the model consistent with the hook trace) + object-sequence monitor against the single-threaded decode over pool sizes, queue sizes, masks, buffers_type, four formats, blocks whose first object exceeds the initial buffer, undecodable first/middle/last blobs.',
    'C06': 'Model/Wire + Chunks + PbfFraming; theorems for all chunkings (OPL lines, PBF framing, o5m window + dataset loop, XML feed); harness drives the real line_by_line, PBFParser framing functions and O5mParser::ensure_bytes_available (-fno-access-control) and monitors the whole Reader behind a mock decompressor; o5m model = code after fix 4708c02.',
    'C07': 'same Pipeline machine with faults (j-th decompressor read, close, parser before/after header, blob decode in a worker) and an arbitrary client; 25 theorems: header_fulfilled_once, first_error_reported, fault_is_on_its_way, no_data_after_error, closed_reader_reads_nothing_more, no_stuck_state at FULL strength (the six wait-for invariants are now proved for all reachable states), bounded_progress (ranking function), api_call_returns_or_spins, busy_wait_never_forced, api_call_returns_thread_fair (every API call returns under per-thread weak fairness of the scheduler - the only remaining assumption), destructor_joins_all; fd/thread leaks observed by monitors (/proc/self/task, /proc/self/fd) under a 20 s watchdog for every stop point x fault point x queue/pool size; the PBF-file path that reads the fd directly is covered by the monitors only.',
    'C08': 'Model/WriterSM: OS fault oracle, reliable_write, compressor wrappers over library contracts (GzSpec, BzSpec), writer/pool/write-thread small-step machine; harness interposes write/fsync/close (fopencookie bridge for stdio) and injects persistent and transient faults at every offset; all six output formats; the empty-block guards of do_write / do_flush / every write_buffer are read off the source into Generated/C08Guards and the theorems are instantiated with that table (close_ok_all_handed_over_iff_guarded, current_tree_guards); Model/WriterSMQ = lock-granular refinement over the QueueSM of C19; found and repaired: debug/ids empty-block defect (699a6ee).',
    'C09': 'Model/Decomp with zlib/libbz2 as contract parameters; Fixes.all (= code after 20beb73, 0ac7ff4, d74b2ae) is the main line, Fixes.none kept with its refutation witnesses as regression documentation.',
    'C10': 'exact-integer geometry core (segment order, intersection decision, duplicate cancellation, sweep, orientation, permutation invariance) + ring building: m_locations (stable sort spec), find_split_locations (reported open ends = odd-degree nodes, m_split_locations = nodes of degree >= 4), the simple case (add_new_ring loop terminates, rings closed, >= 4 points, PARTITION the segments = even-odd fill, rings = connected components, independent of input order for any find_enclosing_ring), orientation of outer/inner rings, first ring outer, complex-case pieces (add_new_ring_complex + both cutting loops terminate; pieces are chains between split locations and partition the segments): 54 theorems. Not proved: which outer ring find_enclosing_ring picks (double arithmetic; 2 known findings), find_candidates/join_connected_rings search (1 known finding) - judged by the executable Valid/even-odd spec. Tie: `rb` stream prints locations list, split locations, simple-case rings with links and sums, complex pieces from the REAL BasicAssembler (-fno-access-control) and from the model, exact diff.',
    'C11': 'Model/RelMgr; global theorems for all configurations/relation sets/accepted histories: completed_exactly_once (+ at the last member), incomplete_listed, not_in_any_relation_reported, flush_threshold_irrelevant, members_available_in_callback, shared_member_kept_until_last, released_lookup_absent (code after 5127b06; pre-fix witness kept), stored_members_are_needed.',
    'C12': 'generic Laws structure + one refinement theorem instantiated per implementation; FlexMem for any threshold; mmap growth under the GrowOk contract (`_partial`).',
    'C13': 'coord_parse_exact / ts_roundtrip / ts_parse_valid_fields at full strength for the code after 5d92c23, b0f4fdb, b3b4a84, 2814835; old variants kept with refutations.',
    'C14': 'pass-through and entity tables regenerated from the source for all 0x110000 code points; OPL theorems full (after b6cf5c9); XML round trip `_partial` (XML Chars only: known finding).',
    'C15': 'full theorems after 7c7de5b / 9f963df; uint64 iteration only under the no-wrap hypothesis (`_partial`).',
    'C16': 'Model/Order; key-function characterisation of the five comparators, strict-weak-order theorems, CheckOrder accepts iff strictly ascending (invariant induction), sorted distinct collections accepted; all pairs over the boundary grid, all short streams, law monitors on triples.',
    'C17': 'parse∘emit theorems for WKB/EWKB/hex, WKT, GeoJSON; factory_spec / degenerate_rejected / double2string_fits full for the code after 5a3ae5e, e768562, d672e4f; printed digits of %.*f checked by execution only.',
    'C18': 'partial by design: tile range/monotonicity/nesting proved for all doubles over an abstract rounding (binary64 RNE instance proved), longitude round trip proved in binary64; lat_to_y accuracy/strict monotonicity/round trip = exhaustive execution (labelled exploration in the evidence).',
    'C19': 'Model/Mon + QueueSM + PoolSM at lock granularity; 23 theorems over all interleavings incl. pool_exactly_once, pool_destructor_joins_after_queued_tasks and pool_destructor_terminates (ranking function under a stated fairness notion); trace validation of real runs.',
    'C20': 'dispatch / iterator-compatibility / wrapper tables regenerated from the source by a dumper; apply_log, dispatch_shape, diffiter_spec and corollaries for all lists; 15 entry points x 27 handler kinds, all diff run-length patterns up to length 7.',
}


def sh(cmd):
    return subprocess.run(cmd, shell=True, stdout=subprocess.PIPE, stderr=subprocess.STDOUT, text=True).stdout


def main():
    p = os.path.join(ROOT, 'DESIGN.md')
    s = open(p).read()
    i = s.index(MARK)
    head = s[:i]
    enabled = set(json.load(open(os.path.join(ROOT, 'tools', 'manifest.d', '_enabled.json'))))
    props = [json.loads(l) for l in open(os.path.join(ROOT, 'properties.jsonl'))]
    out = [MARK + ' (round 1) — regenerated by tools/design_record.py', '',
           '### 9.1 State per property', '',
           '| id | claimed | obligations (theorems) discharged | quick evaluations | notes |', '|---|---|---|---|---|']
    for pr in props:
        pid = pr['id']
        ev = os.path.join(ROOT, 'evidence', pid + '.json')
        ob = ev_n = '–'
        if os.path.exists(ev):
            try:
                e = json.load(open(ev))
                c = e['coverage']
                ob = '%s/%s' % (c.get('discharged', '?'), c.get('obligations', '?'))
                ev_n = str(c.get('evaluations', '?')) + ' (%s)' % e.get('tier')
            except Exception:
                pass
        out.append('| %s | %s | %s | %s | %s |' % (pid, 'yes' if pid in enabled else 'not yet', ob, ev_n, NOTES.get(pid, '')))
    out += ['', '### 9.2 Findings confirmed by registered checks', '',
            'Every entry was reproduced on the real code by the registered check of the property (stable violation key + replay) before it was repaired or recorded. Repairs are single unguarded `fix:` commits in /repo; after each batch the 159-test suite was re-run (`tools/baseline_off.sh`). `known` entries are printed as `KNOWN-FINDING:` by the check and do not fail it.', '',
            '| status | property | commit / key | what failed |', '|---|---|---|---|']
    for l in open(os.path.join(ROOT, 'KNOWN_FINDINGS.txt')):
        l = l.strip()
        m = re.match(r'fixed:\s+property=(\S+)\s+(\S+)\s+(.*)', l)
        if m:
            out.append('| fixed | %s | %s | %s |' % (m.group(1), m.group(2), m.group(3).replace('|', '\\|')))
        m = re.match(r'known:\s+property=(\S+)\s+key=(\S+)\s+(.*)', l)
        if m:
            out.append('| known | %s | `%s` | %s |' % (m.group(1), m.group(2), m.group(3).replace('|', '\\|')))
    out += ['', 'Decisions worth recording: `xml-u32-max:changeset` is not repaired because the repository\'s own tests require `string_to_ulong("4294967295")` to throw; the C14 XML items cannot be repaired without a design decision (XML 1.0 cannot represent those characters); the three C10 ring-building items need a 60–90 line change of `find_enclosing_ring` / an exponential search bound and are recorded rather than patched. Observations outside a property\'s quantifier (not alarms): `const Item&` lambdas hidden by the wrapper fallback and `apply_diff(Buffer&)` not compiling (C20); `DenseMemArray<…,size_t>` value-initialising to 0 instead of the empty value (C12); `Queue::push()` can spin after `shutdown()` with ≥ 2 producers on a bounded queue (found by C19, handed to C07); o5m entity-filter desynchronisation (found by the o5m part, handed to C05).', '',
            '### 9.3 Seeded changes and which check catches them', '',
            'Each seed was written by a fresh sub-agent that saw only the property text and its own scratch worktree (nothing from /verif). `tools/seedtest.py` confirms it in a scratch worktree (existing suite passes with the change; the demonstration exits 0 on the clean tree and non-zero with the change), runs `check.py` against the changed tree and re-runs it on the clean tree afterwards. Where a seed was first missed or caught only as a correspondence break, the check was strengthened (noted in the last column or below).', '']
    out.append(sh('python3 %s' % os.path.join(ROOT, 'tools', 'seeds_table.py')).strip())
    out += ['', 'Strengthenings triggered by seeds: C16-1 (newest-first comparator with version 0) was first caught only as a model/implementation disagreement → added the rev-vs-lt consistency monitor and version 0 to the grids; C06-2 (o5m dataset-length varint split across chunks) was missed → generators now include datasets ≥ 128 bytes so multi-byte length varints are cut at every position; C04-1 (purge loop reading the successor after the memmove) was missed → purge scripts with small removed items followed by larger survivors; C12-1 (FlexMem loses the pair that triggers the switch) was caught only through the is_dense flag → every inserted id is probed after the switch; a false alarm of C19 in `vp check` (thread counting via /proc/self/task racing with thread exit) was removed by counting worker threads by name.', '']
    open(p, 'w').write(head + '\n'.join(out) + '\n')
    print('DESIGN.md §9 regenerated')


if __name__ == '__main__':
    main()
