// C04 harness: an op-script interpreter against the REAL osmium::memory::Buffer and the REAL
// builders.  The Lean model driver (lean/Driver/C04.lean) receives the same lines and must
// print the same output.  Build: ASan+UBSan, -DNDEBUG (tools/props/c04.py); run with
// ASAN_OPTIONS=malloc_fill_byte=190:max_malloc_fill_size=1073741824:detect_leaks=0 so that
// fresh heap memory has the deterministic content 0xbe (the model's `fill`).
//
// ======================= PROTOCOL (one op per line, one output line per op) ================
// State: two buffers buf0 (the one every op works on) and buf1 (auxiliary: source for
// add_buffer / push_back / full members; reach it with `swap`), a stack of open builders on
// buf0 (heap allocated, destroyed explicitly).
//
// Output of EVERY op:   <status> <cap> <written> <committed> <nnested>[ | <payload>]
//   the four numbers describe buf0 AFTER the op: buf0.capacity(), buf0.written(),
//   buf0.committed() and nnested = has_nested_buffers() ? 1 : 0 (the length of the private
//   m_next_buffer chain is not observable without modifying it).  An invalid buffer prints 0 0 0 0.
//   status: ok | buffer_is_full | bad-op | err:<exception class>
//     err:length_error | err:invalid_argument | err:logic_error | err:other  (the most derived of
//     these classes that matches; builders are NOT unwound, whatever the op did before it threw
//     stays done).  Only status ok carries a payload.
//   bad-op = the op is not applicable in this state (see each op), the op is unknown, the number
//   of arguments is wrong or an argument does not parse; state unchanged.
//     [harness rule] Before the first successful `init` both buffers are invalid: every op other
//     than `init` is bad-op then.
//     [harness rule] Integers are decimal, optional leading '-', nothing else; out of range for
//     the stated type = does not parse.  <hex...> is vh::unhex: an even number of hex digits or
//     '-' for the empty string.
//   After EVERY op with status ok for which SCRUB applies (rollback, clear, purge, purge0; NOT
//   after unwinding on buffer_is_full) the harness overwrites the dead memory
//   [written, capacity) of buf0 with 0xbe (std::memset on buf0.data()): harmless to the
//   library, it makes "uninitialised" bytes deterministic.
//
// init <cap0> <mode0> <cap1> <mode1> <fill> <f4fixed>
//      modes: no|yes|internal.  Destroys open builders (top first), then
//      buf0 = Buffer(cap0, mode0), buf1 = Buffer(cap1, mode1). fill/f4fixed are for the model only
//      (they must parse as unsigned integers).  [harness rule] cap > 2^30 does not parse.
// node | way | relation | area | changeset
//      bad-op unless the builder stack is empty.  Pushes new XBuilder{buf0}.
// taglist | wnl | outer | inner | rml | disc
//      stack empty: new XBuilder{buf0} (standalone);  else new XBuilder{buf0, top-of-stack}
//      (whatever kind the top of the stack is).
// set <field> <int...>      top of stack must be an object/changeset builder, else bad-op
//      n/w/r/a: id(i64) version(u32<2^31) deleted(0/1) ts(u32) uid(u32) cs(u32) removed(0/1)
//               node only: loc <x> <y> (raw int32: set_location(Location{int32 x, int32 y}))
//      changeset: id uid created closed nchanges ncomments (all u32) removed(0/1) ;
//               bounds <blx> <bly> <trx> <try>
//               (set_bounds(Box{Location{blx,bly}, Location{trx,try}}) with raw int32 coordinates;
//                construct the Box via its two-Location constructor)
//      a field that the kind on top of the stack does not have = bad-op.
// user <hex>                top must be an object/changeset builder: set_user(ptr, len)
//                           (len is passed as string_size_type, i.e. static_cast<uint16_t>(len))
// tag <hexk> <hexv>         top must be taglist: add_tag(k, klen, v, vlen)
// tags <hexk> <hexv>        same with the std::string overload
// nr <ref> <x> <y>          top must be wnl/outer/inner: add_node_ref(NodeRef{ref, Location{x,y}})
// member <type 1|2|3> <ref> <hexrole>       top must be rml: add_member(type, ref, role, len)
// memberf <type> <ref> <hexrole> <k>        same with full_member = k-th (0-based) committed top-level
//                                           item of buf1; bad-op if there is none or it is not n/w/r/a
// comment <date> <uid> <hexuser>            top must be disc: add_comment(Timestamp{date}, uid, c_str)
// ctext <hextext>                           top must be disc: add_comment_text(std::string)
//      [harness rule] ctext is bad-op unless this disc builder has a pending comment, i.e. the last
//      `comment`/`ctext` op executed on it (status ok or err:length_error) was `comment`.  Without
//      one the library dereferences a null m_comment (assert in debug builds): a precondition
//      violation, not a behaviour to compare.  `comment` after `comment` is executed as is.
// end                       bad-op if stack empty; destroys (delete) the top builder
// commit                    stack must be empty; payload = returned offset
// rollback | clear          stack must be empty; clear: payload = returned byte count
// add_buffer                stack must be empty; buf0.add_buffer(buf1)
// push_back <k>             stack must be empty; buf0.push_back(k-th committed top-level item of buf1);
//                           bad-op if there is no such item
// swap                      stack must be empty; buf0.swap(buf1)  (member swap)
// move                      stack must be empty; Buffer tmp{std::move(buf0)}; payload =
//                           "<cap> <written> <committed> <valid 0/1>" of the moved-from buf0; then
//                           buf0 = std::move(tmp)
// setrm <k> <0|1>           k-th committed top-level item (all types) of buf0: set_removed; bad-op if none
// purge                     stack must be empty; purge_removed(&cb); payload = "old>new,old>new" or "-"
// purge0                    stack must be empty; purge_removed() without callback
// nested                    payload "none" if !has_nested_buffers(), else get_last_nested() and
//                           payload = "<tree> | <hex>" of that buffer's committed data
// dump                      payload = "<tree> | <hex of buf0 [0,committed)>"
// hexdump                   payload = "<hex of buf0 [0,committed)>"     ('-' if committed == 0)
// dumpall                   pops ALL nested buffers (oldest first via get_last_nested) and prints
//                           payload = "<tree of oldest> <tree of next> ... <tree of buf0>" as ONE item
//                           sequence (items separated by one space, '-' if there is no item at all)
//      (nested, dump, hexdump, dumpall, setrm work with open builders too: they only look at
//       committed data.)
// attr_node <id> <version> <hexuser> <ntags> (<hexk> <hexv>)*
//      osmium::builder::add_node(buf0, _id(id), _version(version), _user(c_str), _tags(vector<pair<const char*,const char*>>))
//      (stack must be empty); payload = returned offset.  version: u32 < 2^31.
// attr_way <id> <hexuser> <nnodes> <ref>*       add_way(buf0, _id, _user, _nodes(vector<object_id_type>))
// attr_relation <id> <hexuser> <nmembers> (<type> <ref> <hexrole>)*   add_relation(buf0,_id,_user,_members(vector<member_type_string>))
// attr_changeset <id> <hexuser> <ncomments> (<date> <uid> <hexuser> <hextext>)*  add_changeset(buf0,_cid,_user,_comments(vector<comment_type>))
//      (all attr_* strings reach the library as C strings: a NUL byte in the hex ends them.
//       attr_relation types are 1|2|3 as in `member`.  All four need an empty stack.)
//
// buffer_is_full: when an op throws osmium::buffer_is_full the harness destroys ALL open builders
// (top first; their destructors run as in C++ stack unwinding) and prints status buffer_is_full.
// (attr_*: the builders live inside the library call and are unwound by C++ itself.)
//
// Tree dump (uses the REAL accessors: id(), user(), tags(), TagList/RelationMemberList/
// ChangesetDiscussion iterators, RelationMember::role()/full_member()/get_object(), ...):
//   top level: items separated by ' ', '-' if none.  Strings = hex of the C string, '-' if empty.
//   node            n{id,version,deleted,ts,uid,cs,x,y,hexuser,removed}[sub sub ...]
//   way/rel/area    w{id,version,deleted,ts,uid,cs,hexuser,removed}[...]      (letters w r a)
//   changeset       c{id,uid,created,closed,nchanges,ncomments,blx,bly,trx,try,hexuser,removed}[...]
//   tag_list        T{removed}(hexk=hexv,hexk=hexv)
//   way_node_list   W{removed}(ref:x:y,ref:x:y)   outer_ring O{..}(..)  inner_ring I{..}(..)
//                   (count = (byte_size-8)/16, indexed access, never pointer comparison with end())
//   member list     M{removed}(type:ref:hexrole:FULL,...)   FULL = '-' or the dump of the full member item
//                   (item types 0x13 and 0x23; type = numeric item_type of the member)
//   discussion      D{removed}(date:uid:hexuser:hextext,...)
//   anything else   ?{type,size}                  (numeric item_type, byte_size())
//   subitems are listed inside [...] separated by ' ' (nothing between the brackets if none).
//   deleted/removed print as 0/1, timestamps as their uint32 value, coordinates as raw int32.
// ==========================================================================================
#include "common.hpp"

#include <osmium/builder/attr.hpp>
#include <osmium/builder/builder.hpp>
#include <osmium/builder/osm_object_builder.hpp>
#include <osmium/memory/buffer.hpp>
#include <osmium/memory/item.hpp>
#include <osmium/osm/area.hpp>
#include <osmium/osm/box.hpp>
#include <osmium/osm/changeset.hpp>
#include <osmium/osm/item_type.hpp>
#include <osmium/osm/location.hpp>
#include <osmium/osm/node.hpp>
#include <osmium/osm/node_ref.hpp>
#include <osmium/osm/node_ref_list.hpp>
#include <osmium/osm/relation.hpp>
#include <osmium/osm/tag.hpp>
#include <osmium/osm/timestamp.hpp>
#include <osmium/osm/way.hpp>

#include <csignal>
#include <cstring>
#include <limits>
#include <sys/time.h>
#include <unistd.h>
#include <memory>
#include <stdexcept>
#include <utility>

using osmium::item_type;
using osmium::memory::Buffer;
using osmium::memory::Item;
namespace ob = osmium::builder;

// ---------------------------------------------------------------- state

static Buffer buf0;
static Buffer buf1;

enum class Kind { node, way, relation, area, changeset, taglist, wnl, outer, inner, rml, disc };

struct Open {
    Kind kind;
    ob::Builder* b;
    bool pending_comment; // disc only: add_comment() was called, add_comment_text() not yet
};

static std::vector<Open> stack;

// Builders have no virtual destructor: delete through the concrete type.
static void destroy(const Open& o) {
    switch (o.kind) {
        case Kind::node:      delete static_cast<ob::NodeBuilder*>(o.b); break;
        case Kind::way:       delete static_cast<ob::WayBuilder*>(o.b); break;
        case Kind::relation:  delete static_cast<ob::RelationBuilder*>(o.b); break;
        case Kind::area:      delete static_cast<ob::AreaBuilder*>(o.b); break;
        case Kind::changeset: delete static_cast<ob::ChangesetBuilder*>(o.b); break;
        case Kind::taglist:   delete static_cast<ob::TagListBuilder*>(o.b); break;
        case Kind::wnl:       delete static_cast<ob::WayNodeListBuilder*>(o.b); break;
        case Kind::outer:     delete static_cast<ob::OuterRingBuilder*>(o.b); break;
        case Kind::inner:     delete static_cast<ob::InnerRingBuilder*>(o.b); break;
        case Kind::rml:       delete static_cast<ob::RelationMemberListBuilder*>(o.b); break;
        case Kind::disc:      delete static_cast<ob::ChangesetDiscussionBuilder*>(o.b); break;
    }
}

static void unwind_all() {
    while (!stack.empty()) {
        const Open o = stack.back();
        stack.pop_back();
        destroy(o);
    }
}

static void scrub() {
    if (buf0 && buf0.written() < buf0.capacity()) {
        std::memset(buf0.data() + buf0.written(), 0xbe, buf0.capacity() - buf0.written());
    }
}

// ---------------------------------------------------------------- parsing

static bool parse_i64(const std::string& s, int64_t& out) {
    std::size_t i = 0;
    const bool neg = !s.empty() && s[0] == '-';
    if (neg) {
        i = 1;
    }
    if (i >= s.size() || s.size() - i > 19) {
        return false;
    }
    uint64_t v = 0;
    for (; i < s.size(); ++i) {
        if (s[i] < '0' || s[i] > '9') {
            return false;
        }
        v = v * 10 + static_cast<uint64_t>(s[i] - '0');
    }
    const uint64_t lim = static_cast<uint64_t>(std::numeric_limits<int64_t>::max());
    if (neg) {
        if (v > lim + 1) {
            return false;
        }
        out = v == lim + 1 ? std::numeric_limits<int64_t>::min() : -static_cast<int64_t>(v);
    } else {
        if (v > lim) {
            return false;
        }
        out = static_cast<int64_t>(v);
    }
    return true;
}

static bool parse_range(const std::string& s, int64_t lo, int64_t hi, int64_t& out) {
    return parse_i64(s, out) && out >= lo && out <= hi;
}

static bool parse_u32(const std::string& s, uint32_t& out) {
    int64_t v = 0;
    if (!parse_range(s, 0, 0xffffffffLL, v)) {
        return false;
    }
    out = static_cast<uint32_t>(v);
    return true;
}

static bool parse_i32(const std::string& s, int32_t& out) {
    int64_t v = 0;
    if (!parse_range(s, std::numeric_limits<int32_t>::min(), std::numeric_limits<int32_t>::max(), v)) {
        return false;
    }
    out = static_cast<int32_t>(v);
    return true;
}

static bool parse_bool(const std::string& s, bool& out) {
    if (s == "0") {
        out = false;
        return true;
    }
    if (s == "1") {
        out = true;
        return true;
    }
    return false;
}

static bool parse_size(const std::string& s, std::size_t& out) {
    int64_t v = 0;
    if (!parse_range(s, 0, std::numeric_limits<int64_t>::max(), v)) {
        return false;
    }
    out = static_cast<std::size_t>(v);
    return true;
}

static bool parse_mode(const std::string& s, Buffer::auto_grow& out) {
    if (s == "no") {
        out = Buffer::auto_grow::no;
    } else if (s == "yes") {
        out = Buffer::auto_grow::yes;
    } else if (s == "internal") {
        out = Buffer::auto_grow::internal;
    } else {
        return false;
    }
    return true;
}

static bool parse_member_type(const std::string& s, item_type& out) {
    if (s == "1") {
        out = item_type::node;
    } else if (s == "2") {
        out = item_type::way;
    } else if (s == "3") {
        out = item_type::relation;
    } else {
        return false;
    }
    return true;
}

// ---------------------------------------------------------------- dump

static std::string hs(const char* s) {
    return vh::hex(std::string{s});
}

static std::string b01(bool b) {
    return b ? "1" : "0";
}

template <typename T>
static std::string num(T v) {
    return std::to_string(v);
}

static void dump_item(const Item& it, std::string& out);

template <typename TIter>
static void dump_subitems(TIter first, const TIter& last, std::string& out) {
    out += '[';
    bool sep = false;
    for (; first != last; ++first) {
        if (sep) {
            out += ' ';
        }
        sep = true;
        dump_item(*first, out);
    }
    out += ']';
}

static void dump_object(char letter, const osmium::OSMObject& o, std::string& out) {
    out += letter;
    out += '{';
    out += num(o.id()) + ',' + num(o.version()) + ',' + b01(o.deleted()) + ',' +
           num(static_cast<uint32_t>(o.timestamp())) + ',' + num(o.uid()) + ',' + num(o.changeset()) + ',';
    if (o.type() == item_type::node) {
        const auto loc = static_cast<const osmium::Node&>(o).location();
        out += num(loc.x()) + ',' + num(loc.y()) + ',';
    }
    out += hs(o.user()) + ',' + b01(o.removed()) + '}';
    dump_subitems(o.cbegin(), o.cend(), out);
}

static void dump_changeset(const osmium::Changeset& c, std::string& out) {
    out += "c{";
    out += num(c.id()) + ',' + num(c.uid()) + ',' + num(static_cast<uint32_t>(c.created_at())) + ',' +
           num(static_cast<uint32_t>(c.closed_at())) + ',' + num(c.num_changes()) + ',' + num(c.num_comments()) + ',' +
           num(c.bounds().bottom_left().x()) + ',' + num(c.bounds().bottom_left().y()) + ',' +
           num(c.bounds().top_right().x()) + ',' + num(c.bounds().top_right().y()) + ',' +
           hs(c.user()) + ',' + b01(c.removed()) + '}';
    dump_subitems(c.cbegin(), c.cend(), out);
}

static void dump_node_refs(char letter, const osmium::NodeRefList& l, std::string& out) {
    out += letter;
    out += '{' + b01(l.removed()) + "}(";
    // never compare with end(): it runs away if the byte size is not 8 mod 16
    const std::size_t count = (l.byte_size() - sizeof(osmium::NodeRefList)) / sizeof(osmium::NodeRef);
    const osmium::NodeRef* refs = l.cbegin();
    for (std::size_t i = 0; i < count; ++i) {
        if (i) {
            out += ',';
        }
        out += num(refs[i].ref()) + ':' + num(refs[i].location().x()) + ':' + num(refs[i].location().y());
    }
    out += ')';
}

static void dump_item(const Item& it, std::string& out) {
    switch (it.type()) {
        case item_type::node:
            dump_object('n', static_cast<const osmium::OSMObject&>(it), out);
            return;
        case item_type::way:
            dump_object('w', static_cast<const osmium::OSMObject&>(it), out);
            return;
        case item_type::relation:
            dump_object('r', static_cast<const osmium::OSMObject&>(it), out);
            return;
        case item_type::area:
            dump_object('a', static_cast<const osmium::OSMObject&>(it), out);
            return;
        case item_type::changeset:
            dump_changeset(static_cast<const osmium::Changeset&>(it), out);
            return;
        case item_type::tag_list: {
            const auto& tl = static_cast<const osmium::TagList&>(it);
            out += "T{" + b01(tl.removed()) + "}(";
            bool sep = false;
            for (const osmium::Tag& tag : tl) {
                if (sep) {
                    out += ',';
                }
                sep = true;
                out += hs(tag.key()) + '=' + hs(tag.value());
            }
            out += ')';
            return;
        }
        case item_type::way_node_list:
            dump_node_refs('W', static_cast<const osmium::NodeRefList&>(it), out);
            return;
        case item_type::outer_ring:
            dump_node_refs('O', static_cast<const osmium::NodeRefList&>(it), out);
            return;
        case item_type::inner_ring:
            dump_node_refs('I', static_cast<const osmium::NodeRefList&>(it), out);
            return;
        case item_type::relation_member_list:
        case item_type::relation_member_list_with_full_members: {
            const auto& ml = static_cast<const osmium::RelationMemberList&>(it);
            out += "M{" + b01(ml.removed()) + "}(";
            bool sep = false;
            for (const osmium::RelationMember& m : ml) {
                if (sep) {
                    out += ',';
                }
                sep = true;
                out += num(static_cast<unsigned>(m.type())) + ':' + num(m.ref()) + ':' + hs(m.role()) + ':';
                if (m.full_member()) {
                    dump_item(m.get_object(), out);
                } else {
                    out += '-';
                }
            }
            out += ')';
            return;
        }
        case item_type::changeset_discussion: {
            const auto& d = static_cast<const osmium::ChangesetDiscussion&>(it);
            out += "D{" + b01(d.removed()) + "}(";
            bool sep = false;
            for (const osmium::ChangesetComment& c : d) {
                if (sep) {
                    out += ',';
                }
                sep = true;
                out += num(static_cast<uint32_t>(c.date())) + ':' + num(c.uid()) + ':' + hs(c.user()) + ':' + hs(c.text());
            }
            out += ')';
            return;
        }
        default:
            break;
    }
    out += "?{" + num(static_cast<unsigned>(it.type())) + ',' + num(it.byte_size()) + '}';
}

// Appends the committed top-level items of `buf` to `out` (separated by ' ', continuing a
// sequence if `out` is not empty).
static void dump_items(const Buffer& buf, std::string& out) {
    if (!buf) {
        return;
    }
    for (auto it = buf.cbegin<Item>(); it != buf.cend<Item>(); ++it) {
        if (!out.empty()) {
            out += ' ';
        }
        dump_item(*it, out);
    }
}

static std::string tree(const Buffer& buf) {
    std::string out;
    dump_items(buf, out);
    return out.empty() ? "-" : out;
}

static std::string hexdump(const Buffer& buf) {
    if (!buf) {
        return "-";
    }
    return vh::hex(std::string{reinterpret_cast<const char*>(buf.data()), buf.committed()});
}

// k-th (0-based) committed top-level item, all types; nullptr if there is none.
static Item* kth_item(Buffer& buf, std::size_t k) {
    if (!buf) {
        return nullptr;
    }
    for (auto it = buf.begin<Item>(); it != buf.end<Item>(); ++it, --k) {
        if (k == 0) {
            return &*it;
        }
    }
    return nullptr;
}

static bool is_nwra(item_type t) {
    return t == item_type::node || t == item_type::way || t == item_type::relation || t == item_type::area;
}

// ---------------------------------------------------------------- ops

struct PurgeCallback {
    std::vector<std::pair<std::size_t, std::size_t>> moves;

    void moving_in_buffer(std::size_t old_offset, std::size_t new_offset) {
        moves.emplace_back(old_offset, new_offset);
    }
};

static const char* const BAD = "bad-op";
static const char* const OK = "ok";

template <typename TBuilder>
static const char* set_object_field(TBuilder& b, const std::vector<std::string>& w) {
    const std::string& f = w[1];
    if (w.size() != 3) {
        return BAD;
    }
    if (f == "id") {
        int64_t v = 0;
        if (!parse_i64(w[2], v)) return BAD;
        b.set_id(static_cast<osmium::object_id_type>(v));
    } else if (f == "version") {
        int64_t v = 0;
        if (!parse_range(w[2], 0, 0x7fffffffLL, v)) return BAD;
        b.set_version(static_cast<osmium::object_version_type>(v));
    } else if (f == "deleted") {
        bool v = false;
        if (!parse_bool(w[2], v)) return BAD;
        b.set_deleted(v);
    } else if (f == "ts") {
        uint32_t v = 0;
        if (!parse_u32(w[2], v)) return BAD;
        b.set_timestamp(osmium::Timestamp{v});
    } else if (f == "uid") {
        uint32_t v = 0;
        if (!parse_u32(w[2], v)) return BAD;
        b.set_uid(static_cast<osmium::user_id_type>(v));
    } else if (f == "cs") {
        uint32_t v = 0;
        if (!parse_u32(w[2], v)) return BAD;
        b.set_changeset(static_cast<osmium::changeset_id_type>(v));
    } else if (f == "removed") {
        bool v = false;
        if (!parse_bool(w[2], v)) return BAD;
        b.set_removed(v);
    } else {
        return BAD;
    }
    return OK;
}

static const char* op_set(const std::vector<std::string>& w) {
    if (stack.empty() || w.size() < 3) {
        return BAD;
    }
    const Open& top = stack.back();
    switch (top.kind) {
        case Kind::node: {
            auto& b = *static_cast<ob::NodeBuilder*>(top.b);
            if (w[1] == "loc") {
                int32_t x = 0;
                int32_t y = 0;
                if (w.size() != 4 || !parse_i32(w[2], x) || !parse_i32(w[3], y)) return BAD;
                b.set_location(osmium::Location{x, y});
                return OK;
            }
            return set_object_field(b, w);
        }
        case Kind::way:
            return set_object_field(*static_cast<ob::WayBuilder*>(top.b), w);
        case Kind::relation:
            return set_object_field(*static_cast<ob::RelationBuilder*>(top.b), w);
        case Kind::area:
            return set_object_field(*static_cast<ob::AreaBuilder*>(top.b), w);
        case Kind::changeset: {
            auto& b = *static_cast<ob::ChangesetBuilder*>(top.b);
            const std::string& f = w[1];
            if (f == "bounds") {
                int32_t c[4] = {0, 0, 0, 0};
                if (w.size() != 6) return BAD;
                for (int i = 0; i < 4; ++i) {
                    if (!parse_i32(w[2 + i], c[i])) return BAD;
                }
                b.set_bounds(osmium::Box{osmium::Location{c[0], c[1]}, osmium::Location{c[2], c[3]}});
                return OK;
            }
            if (w.size() != 3) return BAD;
            if (f == "removed") {
                bool v = false;
                if (!parse_bool(w[2], v)) return BAD;
                b.set_removed(v);
                return OK;
            }
            uint32_t v = 0;
            if (f != "id" && f != "uid" && f != "created" && f != "closed" && f != "nchanges" && f != "ncomments") return BAD;
            if (!parse_u32(w[2], v)) return BAD;
            if (f == "id") {
                b.set_id(static_cast<osmium::changeset_id_type>(v));
            } else if (f == "uid") {
                b.set_uid(static_cast<osmium::user_id_type>(v));
            } else if (f == "created") {
                b.set_created_at(osmium::Timestamp{v});
            } else if (f == "closed") {
                b.set_closed_at(osmium::Timestamp{v});
            } else if (f == "nchanges") {
                b.set_num_changes(static_cast<osmium::num_changes_type>(v));
            } else {
                b.set_num_comments(static_cast<osmium::num_comments_type>(v));
            }
            return OK;
        }
        default:
            break;
    }
    return BAD;
}

static const char* op_user(const std::vector<std::string>& w) {
    std::string user;
    if (stack.empty() || w.size() != 2 || !vh::unhex(w[1], user)) {
        return BAD;
    }
    const Open& top = stack.back();
    const auto len = static_cast<osmium::string_size_type>(user.size());
    switch (top.kind) {
        case Kind::node:      static_cast<ob::NodeBuilder*>(top.b)->set_user(user.data(), len); return OK;
        case Kind::way:       static_cast<ob::WayBuilder*>(top.b)->set_user(user.data(), len); return OK;
        case Kind::relation:  static_cast<ob::RelationBuilder*>(top.b)->set_user(user.data(), len); return OK;
        case Kind::area:      static_cast<ob::AreaBuilder*>(top.b)->set_user(user.data(), len); return OK;
        case Kind::changeset: static_cast<ob::ChangesetBuilder*>(top.b)->set_user(user.data(), len); return OK;
        default: break;
    }
    return BAD;
}

static const char* op_open_object(Kind kind) {
    if (!stack.empty()) {
        return BAD;
    }
    ob::Builder* b = nullptr;
    switch (kind) {
        case Kind::node:      b = new ob::NodeBuilder{buf0}; break;
        case Kind::way:       b = new ob::WayBuilder{buf0}; break;
        case Kind::relation:  b = new ob::RelationBuilder{buf0}; break;
        case Kind::area:      b = new ob::AreaBuilder{buf0}; break;
        case Kind::changeset: b = new ob::ChangesetBuilder{buf0}; break;
        default: return BAD;
    }
    stack.push_back(Open{kind, b, false});
    return OK;
}

static const char* op_open_list(Kind kind) {
    ob::Builder* parent = stack.empty() ? nullptr : stack.back().b;
    ob::Builder* b = nullptr;
    switch (kind) {
        case Kind::taglist: b = new ob::TagListBuilder{buf0, parent}; break;
        case Kind::wnl:     b = new ob::WayNodeListBuilder{buf0, parent}; break;
        case Kind::outer:   b = new ob::OuterRingBuilder{buf0, parent}; break;
        case Kind::inner:   b = new ob::InnerRingBuilder{buf0, parent}; break;
        case Kind::rml:     b = new ob::RelationMemberListBuilder{buf0, parent}; break;
        case Kind::disc:    b = new ob::ChangesetDiscussionBuilder{buf0, parent}; break;
        default: return BAD;
    }
    stack.push_back(Open{kind, b, false});
    return OK;
}

static const char* op_attr(const std::vector<std::string>& w, std::string& payload) {
    using namespace osmium::builder::attr; // NOLINT(google-build-using-namespace)
    if (!stack.empty()) {
        return BAD;
    }
    const std::string& op = w[0];
    std::size_t offset = 0;
    if (op == "attr_node") {
        int64_t id = 0;
        int64_t version = 0;
        std::string user;
        std::size_t n = 0;
        if (w.size() < 5 || !parse_i64(w[1], id) || !parse_range(w[2], 0, 0x7fffffffLL, version) ||
            !vh::unhex(w[3], user) || !parse_size(w[4], n) || n > w.size() || w.size() != 5 + 2 * n) return BAD;
        std::vector<std::string> strs(2 * n);
        for (std::size_t i = 0; i < 2 * n; ++i) {
            if (!vh::unhex(w[5 + i], strs[i])) return BAD;
        }
        std::vector<std::pair<const char*, const char*>> tags;
        for (std::size_t i = 0; i < n; ++i) {
            tags.emplace_back(strs[2 * i].c_str(), strs[2 * i + 1].c_str());
        }
        offset = ob::add_node(buf0, _id(static_cast<osmium::object_id_type>(id)),
                              _version(static_cast<osmium::object_version_type>(version)),
                              _user(user.c_str()), _tags(tags));
    } else if (op == "attr_way") {
        int64_t id = 0;
        std::string user;
        std::size_t n = 0;
        if (w.size() < 4 || !parse_i64(w[1], id) || !vh::unhex(w[2], user) || !parse_size(w[3], n) ||
            n > w.size() || w.size() != 4 + n) return BAD;
        std::vector<osmium::object_id_type> refs;
        for (std::size_t i = 0; i < n; ++i) {
            int64_t ref = 0;
            if (!parse_i64(w[4 + i], ref)) return BAD;
            refs.push_back(ref);
        }
        offset = ob::add_way(buf0, _id(static_cast<osmium::object_id_type>(id)), _user(user.c_str()), _nodes(refs));
    } else if (op == "attr_relation") {
        int64_t id = 0;
        std::string user;
        std::size_t n = 0;
        if (w.size() < 4 || !parse_i64(w[1], id) || !vh::unhex(w[2], user) || !parse_size(w[3], n) ||
            n > w.size() || w.size() != 4 + 3 * n) return BAD;
        std::vector<member_type_string> members;
        for (std::size_t i = 0; i < n; ++i) {
            item_type type{};
            int64_t ref = 0;
            std::string role;
            if (!parse_member_type(w[4 + 3 * i], type) || !parse_i64(w[5 + 3 * i], ref) || !vh::unhex(w[6 + 3 * i], role)) return BAD;
            members.emplace_back(type, static_cast<osmium::object_id_type>(ref), std::move(role));
        }
        offset = ob::add_relation(buf0, _id(static_cast<osmium::object_id_type>(id)), _user(user.c_str()), _members(members));
    } else if (op == "attr_changeset") {
        uint32_t id = 0;
        std::string user;
        std::size_t n = 0;
        if (w.size() < 4 || !parse_u32(w[1], id) || !vh::unhex(w[2], user) || !parse_size(w[3], n) ||
            n > w.size() || w.size() != 4 + 4 * n) return BAD;
        std::vector<std::string> strs(2 * n);
        std::vector<comment_type> comments;
        for (std::size_t i = 0; i < n; ++i) {
            uint32_t date = 0;
            uint32_t uid = 0;
            if (!parse_u32(w[4 + 4 * i], date) || !parse_u32(w[5 + 4 * i], uid) ||
                !vh::unhex(w[6 + 4 * i], strs[2 * i]) || !vh::unhex(w[7 + 4 * i], strs[2 * i + 1])) return BAD;
            comments.emplace_back(osmium::Timestamp{date}, static_cast<osmium::user_id_type>(uid),
                                  strs[2 * i].c_str(), strs[2 * i + 1].c_str());
        }
        offset = ob::add_changeset(buf0, _cid(static_cast<osmium::changeset_id_type>(id)), _user(user.c_str()), _comments(comments));
    } else {
        return BAD;
    }
    payload = num(offset);
    return OK;
}

static const char* run(const std::vector<std::string>& w, std::string& payload) {
    if (w.empty()) {
        return BAD;
    }
    const std::string& op = w[0];

    if (op == "init") {
        std::size_t cap0 = 0;
        std::size_t cap1 = 0;
        std::size_t dummy = 0;
        Buffer::auto_grow m0{};
        Buffer::auto_grow m1{};
        constexpr std::size_t max_cap = std::size_t{1} << 30U;
        if (w.size() != 7 || !parse_size(w[1], cap0) || !parse_mode(w[2], m0) || !parse_size(w[3], cap1) ||
            !parse_mode(w[4], m1) || !parse_size(w[5], dummy) || !parse_size(w[6], dummy) ||
            cap0 > max_cap || cap1 > max_cap) return BAD;
        unwind_all();
        buf0 = Buffer{cap0, m0};
        buf1 = Buffer{cap1, m1};
        return OK;
    }

    if (!buf0) {
        return BAD; // nothing works before the first init
    }

    if (op == "node") return w.size() == 1 ? op_open_object(Kind::node) : BAD;
    if (op == "way") return w.size() == 1 ? op_open_object(Kind::way) : BAD;
    if (op == "relation") return w.size() == 1 ? op_open_object(Kind::relation) : BAD;
    if (op == "area") return w.size() == 1 ? op_open_object(Kind::area) : BAD;
    if (op == "changeset") return w.size() == 1 ? op_open_object(Kind::changeset) : BAD;

    if (op == "taglist") return w.size() == 1 ? op_open_list(Kind::taglist) : BAD;
    if (op == "wnl") return w.size() == 1 ? op_open_list(Kind::wnl) : BAD;
    if (op == "outer") return w.size() == 1 ? op_open_list(Kind::outer) : BAD;
    if (op == "inner") return w.size() == 1 ? op_open_list(Kind::inner) : BAD;
    if (op == "rml") return w.size() == 1 ? op_open_list(Kind::rml) : BAD;
    if (op == "disc") return w.size() == 1 ? op_open_list(Kind::disc) : BAD;

    if (op == "set") return op_set(w);
    if (op == "user") return op_user(w);

    if (op == "tag" || op == "tags") {
        std::string k;
        std::string v;
        if (stack.empty() || stack.back().kind != Kind::taglist || w.size() != 3 || !vh::unhex(w[1], k) || !vh::unhex(w[2], v)) return BAD;
        auto& b = *static_cast<ob::TagListBuilder*>(stack.back().b);
        if (op == "tag") {
            b.add_tag(k.data(), k.size(), v.data(), v.size());
        } else {
            b.add_tag(k, v);
        }
        return OK;
    }

    if (op == "nr") {
        int64_t ref = 0;
        int32_t x = 0;
        int32_t y = 0;
        if (stack.empty() || w.size() != 4 || !parse_i64(w[1], ref) || !parse_i32(w[2], x) || !parse_i32(w[3], y)) return BAD;
        const osmium::NodeRef nr{static_cast<osmium::object_id_type>(ref), osmium::Location{x, y}};
        switch (stack.back().kind) {
            case Kind::wnl:   static_cast<ob::WayNodeListBuilder*>(stack.back().b)->add_node_ref(nr); return OK;
            case Kind::outer: static_cast<ob::OuterRingBuilder*>(stack.back().b)->add_node_ref(nr); return OK;
            case Kind::inner: static_cast<ob::InnerRingBuilder*>(stack.back().b)->add_node_ref(nr); return OK;
            default: break;
        }
        return BAD;
    }

    if (op == "member" || op == "memberf") {
        const bool full = op == "memberf";
        item_type type{};
        int64_t ref = 0;
        std::string role;
        if (stack.empty() || stack.back().kind != Kind::rml || w.size() != (full ? 5U : 4U) ||
            !parse_member_type(w[1], type) || !parse_i64(w[2], ref) || !vh::unhex(w[3], role)) return BAD;
        const osmium::OSMObject* full_member = nullptr;
        if (full) {
            std::size_t k = 0;
            if (!parse_size(w[4], k)) return BAD;
            const Item* item = kth_item(buf1, k);
            if (!item || !is_nwra(item->type())) return BAD;
            full_member = static_cast<const osmium::OSMObject*>(item);
        }
        static_cast<ob::RelationMemberListBuilder*>(stack.back().b)
            ->add_member(type, static_cast<osmium::object_id_type>(ref), role.data(), role.size(), full_member);
        return OK;
    }

    if (op == "comment") {
        uint32_t date = 0;
        uint32_t uid = 0;
        std::string user;
        if (stack.empty() || stack.back().kind != Kind::disc || w.size() != 4 || !parse_u32(w[1], date) ||
            !parse_u32(w[2], uid) || !vh::unhex(w[3], user)) return BAD;
        auto& b = *static_cast<ob::ChangesetDiscussionBuilder*>(stack.back().b);
        try {
            b.add_comment(osmium::Timestamp{date}, static_cast<osmium::user_id_type>(uid), user.c_str());
        } catch (const std::length_error&) {
            stack.back().pending_comment = true; // m_comment was set before the user name was checked
            throw;
        }
        stack.back().pending_comment = true;
        return OK;
    }

    if (op == "ctext") {
        std::string text;
        if (stack.empty() || stack.back().kind != Kind::disc || w.size() != 2 || !vh::unhex(w[1], text) ||
            !stack.back().pending_comment) return BAD;
        stack.back().pending_comment = false; // the library resets m_comment first thing
        static_cast<ob::ChangesetDiscussionBuilder*>(stack.back().b)->add_comment_text(text);
        return OK;
    }

    if (op == "end") {
        if (stack.empty() || w.size() != 1) return BAD;
        const Open o = stack.back();
        stack.pop_back();
        destroy(o);
        return OK;
    }

    if (op == "nested") {
        if (w.size() != 1) return BAD;
        if (!buf0.has_nested_buffers()) {
            payload = "none";
            return OK;
        }
        const std::unique_ptr<Buffer> nb = buf0.get_last_nested();
        payload = tree(*nb) + " | " + hexdump(*nb);
        return OK;
    }

    if (op == "dump") {
        if (w.size() != 1) return BAD;
        payload = tree(buf0) + " | " + hexdump(buf0);
        return OK;
    }

    if (op == "hexdump") {
        if (w.size() != 1) return BAD;
        payload = hexdump(buf0);
        return OK;
    }

    if (op == "dumpall") {
        if (w.size() != 1) return BAD;
        std::string out;
        while (buf0.has_nested_buffers()) {
            const std::unique_ptr<Buffer> nb = buf0.get_last_nested();
            dump_items(*nb, out);
        }
        dump_items(buf0, out);
        payload = out.empty() ? "-" : out;
        return OK;
    }

    if (op == "setrm") {
        std::size_t k = 0;
        bool v = false;
        if (w.size() != 3 || !parse_size(w[1], k) || !parse_bool(w[2], v)) return BAD;
        Item* item = kth_item(buf0, k);
        if (!item) return BAD;
        item->set_removed(v);
        return OK;
    }

    // everything below needs an empty builder stack
    if (!stack.empty()) {
        return BAD;
    }

    if (op == "commit") {
        if (w.size() != 1) return BAD;
        payload = num(buf0.commit());
        return OK;
    }

    if (op == "rollback") {
        if (w.size() != 1) return BAD;
        buf0.rollback();
        scrub();
        return OK;
    }

    if (op == "clear") {
        if (w.size() != 1) return BAD;
        payload = num(buf0.clear());
        scrub();
        return OK;
    }

    if (op == "add_buffer") {
        if (w.size() != 1) return BAD;
        buf0.add_buffer(buf1);
        return OK;
    }

    if (op == "push_back") {
        std::size_t k = 0;
        if (w.size() != 2 || !parse_size(w[1], k)) return BAD;
        const Item* item = kth_item(buf1, k);
        if (!item) return BAD;
        buf0.push_back(*item);
        return OK;
    }

    if (op == "swap") {
        if (w.size() != 1) return BAD;
        buf0.swap(buf1);
        return OK;
    }

    if (op == "move") {
        if (w.size() != 1) return BAD;
        Buffer tmp{std::move(buf0)};
        payload = num(buf0.capacity()) + ' ' + num(buf0.written()) + ' ' + num(buf0.committed()) + ' ' + b01(static_cast<bool>(buf0));
        buf0 = std::move(tmp);
        return OK;
    }

    if (op == "purge") {
        if (w.size() != 1) return BAD;
        PurgeCallback cb;
        buf0.purge_removed(&cb);
        scrub();
        for (const auto& m : cb.moves) {
            if (!payload.empty()) {
                payload += ',';
            }
            payload += num(m.first) + '>' + num(m.second);
        }
        if (payload.empty()) {
            payload = "-";
        }
        return OK;
    }

    if (op == "purge0") {
        if (w.size() != 1) return BAD;
        buf0.purge_removed();
        scrub();
        return OK;
    }

    if (op == "attr_node" || op == "attr_way" || op == "attr_relation" || op == "attr_changeset") {
        return op_attr(w, payload);
    }

    return BAD;
}

static std::string process(const std::string& line) {
    const auto w = vh::words(line);
    std::string payload;
    std::string status;
    try {
        status = run(w, payload);
    } catch (const osmium::buffer_is_full&) {
        unwind_all();
        status = "buffer_is_full";
    } catch (const std::length_error&) {
        status = "err:length_error";
    } catch (const std::invalid_argument&) {
        status = "err:invalid_argument";
    } catch (const std::logic_error&) {
        status = "err:logic_error";
    } catch (const std::exception&) {
        status = "err:other";
    }
    std::string out = status + ' ' + num(buf0.capacity()) + ' ' + num(buf0.written()) + ' ' +
                      num(buf0.committed()) + ' ' + (buf0.has_nested_buffers() ? '1' : '0');
    if (status == OK) {
        if (!payload.empty()) {
            out += " | " + payload;
        }
    }
    return out;
}

// Watchdog on the CPU time of ONE op (independent of the load of the machine): an op that needs
// more than 4 s of CPU is a hang (e.g. an iterator that meets an item of size 0 never advances).
static void on_cpu_watchdog(int) {
    static const char msg[] = "HANG: op exceeded the CPU-time watchdog\n";
    ssize_t r = ::write(2, msg, sizeof(msg) - 1);
    (void)r;
    ::_exit(97);
}

static void arm_watchdog() {
    struct itimerval tv{};
    tv.it_value.tv_sec = 4;
    ::setitimer(ITIMER_PROF, &tv, nullptr);
}

int main() {
    // Like vh::line_loop, but flushes after every line so that nothing is lost when ASan aborts.
    std::ios::sync_with_stdio(false);
    std::signal(SIGPROF, on_cpu_watchdog);
    std::string line;
    while (std::getline(std::cin, line)) {
        arm_watchdog();
        std::string out = process(line);
        out += '\n';
        std::fwrite(out.data(), 1, out.size(), stdout);
        std::fflush(stdout);
    }
    unwind_all();
    std::fflush(stdout);
    return 0;
}
