// PBF harness for the C01/C02 parts: the REAL Writer / Reader driven by canonical object dumps.
//
//   enc <opts>[C<none|zlib|lz4>] | <hdr> | <obj> | …   real Writer -> hex of the file
//   dec <ropts> <hex>                                   real Reader on a memory buffer -> "ok <hdr> | <obj> | …" or "err:<what>"
//   inflate <hex>      re-frame a file with zlib/lz4 blobs as raw blobs (zlib/lz4 called directly)   -> hex
//   walk <hex>         independent framing walker (hand-written varint parser, no protozero/libosmium)
//                      -> "W blobs=<n> maxhdr=<bytes> maxblob=<bytes> maxraw=<bytes> maxent=<n>" or "W bad:<why>"
//   est <opts> | <hdr> | <obj> | …   the REAL PBFOutputFormat fed object by object (private members via -fno-access-control):
//                      -> "S <size()>:<count()> …" of the current PrimitiveBlock after every object (block accounting)
//   big <kind> <n> <k> <len> <opts>   stress the block accounting (F12): kind w = n ways with k unique <len>-byte tag values each,
//                      kind d = n dense nodes sharing k tags with <len>-byte values, kind r = n relations with k members with unique roles
//                      -> "B write=<ok|err> blobs=.. maxraw=.. maxent=.. read=<ok|err:what> objs=<n>"
// <opts> = D<0|1>M<0..31>H<0|1>L<0|1>, <ropts> = N<0|1>W<0|1>R<0|1>M<0|1>; <hdr>/<obj> = lines of harness/osm_dump.hpp.
#include "osm_dump.hpp"

#include <osmium/builder/osm_object_builder.hpp>
#include <osmium/io/pbf_input.hpp>
#include <osmium/io/pbf_output.hpp>
#include <osmium/io/reader.hpp>
#include <osmium/io/writer.hpp>
#include <osmium/memory/buffer.hpp>

#include <fstream>
#include <iterator>
#include <lz4.h>
#include <unistd.h>
#include <zlib.h>

static std::vector<std::string> split(const std::string& s, const std::string& sep) {
    std::vector<std::string> out;
    std::size_t p = 0;
    while (true) {
        const auto q = s.find(sep, p);
        if (q == std::string::npos) {
            out.push_back(s.substr(p));
            return out;
        }
        out.push_back(s.substr(p, q - p));
        p = q + sep.size();
    }
}

static std::string unhexs(const std::string& h) {
    std::string o;
    if (!vh::unhex(h, o)) throw std::runtime_error{"bad hex"};
    return o;
}

static osmium::Location parse_loc(const std::string& s) {
    const auto c = split(s, ",");
    if (c.size() != 2) throw std::runtime_error{"bad loc"};
    return osmium::Location{static_cast<int32_t>(std::stoll(c[0])), static_cast<int32_t>(std::stoll(c[1]))};
}

struct Opts {
    int dense = 1, md = 31, hist = 0, low = 0;
    std::string comp = "none";
};

static long num_after(const std::string& s, char c) {
    const auto p = s.find(c);
    if (p == std::string::npos) throw std::runtime_error{"bad opts"};
    return std::stol(s.substr(p + 1));
}

static Opts parse_opts(const std::string& s) {
    Opts o;
    o.dense = num_after(s, 'D');
    o.md = num_after(s, 'M');
    o.hist = num_after(s, 'H');
    o.low = num_after(s, 'L');
    const auto p = s.find('C');
    if (p != std::string::npos) o.comp = s.substr(p + 1);
    return o;
}

static std::string format_string(const Opts& o) {
    std::string md;
    if (o.md == 31) md = "all";
    else if (o.md == 0) md = "none";
    else {
        static const char* names[] = {"version", "timestamp", "changeset", "uid", "user"};
        for (int i = 0; i < 5; ++i) {
            if (o.md & (1 << i)) {
                if (!md.empty()) md += "+";
                md += names[i];
            }
        }
    }
    return std::string{"pbf,pbf_dense_nodes="} + (o.dense ? "true" : "false") + ",pbf_compression=" + o.comp +
           ",add_metadata=" + md + ",history=" + (o.hist ? "true" : "false") + ",locations_on_ways=" + (o.low ? "true" : "false");
}

template <typename B>
static std::size_t set_meta(B& b, const std::vector<std::string>& w) {
    auto& o = b.object();
    o.set_id(std::stoll(w.at(1)));
    o.set_version(static_cast<osmium::object_version_type>(std::stoul(w.at(2).substr(1))));
    o.set_visible(w.at(3) == "V");
    o.set_timestamp(osmium::Timestamp{static_cast<uint32_t>(std::stoul(w.at(4).substr(1)))});
    o.set_changeset(static_cast<osmium::changeset_id_type>(std::stoul(w.at(5).substr(1))));
    o.set_uid(static_cast<osmium::user_id_type>(std::stoul(w.at(6).substr(1))));
    const std::string user = unhexs(w.at(7));
    b.set_user(user.data(), static_cast<osmium::string_size_type>(user.size()));
    std::size_t i = 8;
    if (i < w.size() && w[i][0] == 'T') {
        osmium::builder::TagListBuilder tl{b};
        for (; i < w.size() && w[i][0] == 'T'; ++i) {
            const auto kv = split(w[i].substr(1), "=");
            if (kv.size() != 2) throw std::runtime_error{"bad tag"};
            const std::string k = unhexs(kv[0]);
            const std::string v = unhexs(kv[1]);
            tl.add_tag(k.data(), k.size(), v.data(), v.size());
        }
    }
    return i;
}

static void build_object(osmium::memory::Buffer& buf, const std::string& line) {
    const auto w = vh::words(line);
    if (w.empty()) throw std::runtime_error{"empty object"};
    if (w[0] == "n") {
        osmium::builder::NodeBuilder b{buf};
        const auto i = set_meta(b, w);
        if (i + 1 != w.size() || w[i][0] != 'L') throw std::runtime_error{"bad node"};
        b.object().set_location(parse_loc(w[i].substr(1)));
    } else if (w[0] == "w") {
        osmium::builder::WayBuilder b{buf};
        auto i = set_meta(b, w);
        if (i < w.size()) {
            osmium::builder::WayNodeListBuilder wnl{b};
            for (; i < w.size(); ++i) {
                const auto p = split(w[i].substr(1), "@");
                if (w[i][0] != 'N' || p.size() != 2) throw std::runtime_error{"bad way node"};
                wnl.add_node_ref(osmium::NodeRef{std::stoll(p[0]), parse_loc(p[1])});
            }
        }
    } else if (w[0] == "r") {
        osmium::builder::RelationBuilder b{buf};
        auto i = set_meta(b, w);
        if (i < w.size()) {
            osmium::builder::RelationMemberListBuilder rml{b};
            for (; i < w.size(); ++i) {
                const auto p = split(w[i].substr(1), ":");
                if (w[i][0] != 'M' || p.size() != 3) throw std::runtime_error{"bad member"};
                const std::string role = unhexs(p[2]);
                rml.add_member(static_cast<osmium::item_type>(std::stoi(p[0])), std::stoll(p[1]), role.data(), role.size());
            }
        }
    } else {
        throw std::runtime_error{"bad object kind"};
    }
    buf.commit();
}

static osmium::io::Header parse_header(const std::string& line) {
    const auto w = vh::words(line);
    if (w.size() < 3 || w[0] != "h") throw std::runtime_error{"bad header"};
    osmium::io::Header h;
    h.set("generator", unhexs(w[1]));
    for (std::size_t i = 3; i < w.size(); ++i) {
        const auto p = split(w[i].substr(1), ";");
        if (w[i][0] != 'B' || p.size() != 2) throw std::runtime_error{"bad box"};
        osmium::Box box;
        box.bottom_left() = parse_loc(p[0]);
        box.top_right() = parse_loc(p[1]);
        h.add_box(box);
    }
    return h;
}

static std::string slurp(const std::string& path) {
    std::ifstream in{path, std::ios::binary};
    return std::string{std::istreambuf_iterator<char>{in}, std::istreambuf_iterator<char>{}};
}

static std::string read_dump(const std::string& data, const std::string& ropts, std::size_t* count = nullptr) {
    osmium::osm_entity_bits::type bits = osmium::osm_entity_bits::nothing;
    if (num_after(ropts, 'N')) bits |= osmium::osm_entity_bits::node;
    if (num_after(ropts, 'W')) bits |= osmium::osm_entity_bits::way;
    if (num_after(ropts, 'R')) bits |= osmium::osm_entity_bits::relation;
    const auto rm = ropts.find('M', ropts.find('R'));
    const bool meta = rm == std::string::npos ? true : std::stol(ropts.substr(rm + 1)) != 0;
    std::string out;
    std::size_t n = 0;
    try {
        osmium::io::File file{data.data(), data.size(), "pbf"};
        osmium::io::Reader reader{file, bits, meta ? osmium::io::read_meta::yes : osmium::io::read_meta::no};
        out = "ok " + vh::dump_header(reader.header());
        while (osmium::memory::Buffer buffer = reader.read()) {
            for (const auto& e : buffer.select<osmium::OSMEntity>()) {
                ++n;
                if (!count) out += " | " + vh::dump_object(e);
            }
        }
        reader.close();
    } catch (const std::exception& e) {
        return std::string{"err:"} + e.what();
    }
    if (count) *count = n;
    return out;
}

// ---- independent framing walker -------------------------------------------------------------
struct Cur {
    const unsigned char* p;
    const unsigned char* e;
    bool bad = false;
    uint64_t varint() {
        uint64_t v = 0;
        for (int sh = 0; sh < 70; sh += 7) {
            if (p >= e) { bad = true; return 0; }
            const unsigned char c = *p++;
            v |= static_cast<uint64_t>(c & 0x7f) << sh;
            if (!(c & 0x80)) return v;
        }
        bad = true;
        return 0;
    }
    // next field: tag, wire type, and for LD the payload view; returns false at end / error
    bool field(uint32_t& tag, int& wt, uint64_t& val, Cur& sub) {
        if (p >= e || bad) return false;
        const uint64_t key = varint();
        if (bad) return false;
        tag = static_cast<uint32_t>(key >> 3);
        wt = static_cast<int>(key & 7);
        switch (wt) {
            case 0: val = varint(); return !bad;
            case 1: if (e - p < 8) { bad = true; return false; } p += 8; return true;
            case 5: if (e - p < 4) { bad = true; return false; } p += 4; return true;
            case 2: {
                const uint64_t len = varint();
                if (bad || static_cast<uint64_t>(e - p) < len) { bad = true; return false; }
                sub = Cur{p, p + len};
                p += len;
                return true;
            }
            default: bad = true; return false;
        }
    }
};

struct WalkResult {
    std::size_t blobs = 0, maxhdr = 0, maxblob = 0, maxraw = 0, maxent = 0;
    std::string bad;
    std::string reframed;   // the same file with every blob raw
};

static std::string frame_raw(const std::string& type, const std::string& raw) {
    auto put_varint = [](std::string& s, uint64_t v) {
        while (v >= 0x80) { s += static_cast<char>((v & 0x7f) | 0x80); v >>= 7; }
        s += static_cast<char>(v);
    };
    std::string blob;
    blob += static_cast<char>(0x0a);
    put_varint(blob, raw.size());
    blob += raw;
    std::string hdr;
    hdr += static_cast<char>(0x0a);
    put_varint(hdr, type.size());
    hdr += type;
    hdr += static_cast<char>(0x18);
    put_varint(hdr, blob.size());
    std::string out;
    const uint32_t n = static_cast<uint32_t>(hdr.size());
    out += static_cast<char>(n >> 24); out += static_cast<char>(n >> 16); out += static_cast<char>(n >> 8); out += static_cast<char>(n);
    return out + hdr + blob;
}

static std::size_t count_entities(Cur block) {
    std::size_t n = 0;
    uint32_t tag; int wt; uint64_t val; Cur sub{nullptr, nullptr};
    while (block.field(tag, wt, val, sub)) {
        if (tag == 2 && wt == 2) {
            Cur group = sub;
            uint32_t t2; int w2; uint64_t v2; Cur s2{nullptr, nullptr};
            while (group.field(t2, w2, v2, s2)) {
                if (w2 != 2) continue;
                if (t2 == 1 || t2 == 3 || t2 == 4) ++n;
                if (t2 == 2) {
                    Cur dense = s2;
                    uint32_t t3; int w3; uint64_t v3; Cur s3{nullptr, nullptr};
                    while (dense.field(t3, w3, v3, s3)) {
                        if (t3 == 1 && w3 == 2) {
                            for (const unsigned char* q = s3.p; q < s3.e; ++q) if (!(*q & 0x80)) ++n;
                        }
                    }
                }
            }
        }
    }
    return n;
}

static WalkResult walk(const std::string& data, bool reframe) {
    WalkResult r;
    const auto* p = reinterpret_cast<const unsigned char*>(data.data());
    const auto* e = p + data.size();
    while (p < e) {
        if (e - p < 4) { r.bad = "short-size"; return r; }
        const std::size_t hs = (static_cast<std::size_t>(p[0]) << 24) | (p[1] << 16) | (p[2] << 8) | p[3];
        p += 4;
        if (static_cast<std::size_t>(e - p) < hs) { r.bad = "short-header"; return r; }
        r.maxhdr = std::max(r.maxhdr, hs);
        Cur hdr{p, p + hs};
        p += hs;
        std::string type;
        uint64_t datasize = 0;
        uint32_t tag; int wt; uint64_t val = 0; Cur sub{nullptr, nullptr};
        while (hdr.field(tag, wt, val, sub)) {
            if (tag == 1 && wt == 2) type.assign(reinterpret_cast<const char*>(sub.p), sub.e - sub.p);
            if (tag == 3 && wt == 0) datasize = val;
        }
        if (hdr.bad) { r.bad = "header-format"; return r; }
        if (static_cast<uint64_t>(e - p) < datasize) { r.bad = "short-blob"; return r; }
        r.maxblob = std::max<std::size_t>(r.maxblob, datasize);
        Cur blob{p, p + datasize};
        p += datasize;
        std::string raw;
        bool have = false;
        uint64_t raw_size = 0;
        while (blob.field(tag, wt, val, sub)) {
            if (tag == 2 && wt == 0) raw_size = val;
            if (wt != 2) continue;
            if (tag == 1) { raw.assign(reinterpret_cast<const char*>(sub.p), sub.e - sub.p); have = true; }
            if (tag == 3) {
                raw.resize(raw_size);
                uLongf dl = raw_size;
                if (uncompress(reinterpret_cast<Bytef*>(&raw[0]), &dl, sub.p, sub.e - sub.p) != Z_OK || dl != raw_size) { r.bad = "zlib"; return r; }
                have = true;
            }
            if (tag == 6) {
                raw.resize(raw_size);
                const int n = LZ4_decompress_safe(reinterpret_cast<const char*>(sub.p), &raw[0], static_cast<int>(sub.e - sub.p), static_cast<int>(raw_size));
                if (n < 0 || static_cast<uint64_t>(n) != raw_size) { r.bad = "lz4"; return r; }
                have = true;
            }
        }
        if (blob.bad || !have) { r.bad = "blob-format"; return r; }
        r.maxraw = std::max(r.maxraw, raw.size());
        if (r.blobs > 0) {
            const auto* rp = reinterpret_cast<const unsigned char*>(raw.data());
            r.maxent = std::max(r.maxent, count_entities(Cur{rp, rp + raw.size()}));
        }
        if (reframe) r.reframed += frame_raw(type, raw);
        ++r.blobs;
    }
    return r;
}

static std::string walk_line(const WalkResult& r) {
    if (!r.bad.empty()) return "W bad:" + r.bad;
    return "W blobs=" + std::to_string(r.blobs) + " maxhdr=" + std::to_string(r.maxhdr) + " maxblob=" + std::to_string(r.maxblob) +
           " maxraw=" + std::to_string(r.maxraw) + " maxent=" + std::to_string(r.maxent);
}

int main(int argc, char** argv) {
    const std::string dir = argc > 1 ? argv[1] : ".";
    const std::string path = dir + "/pbf-" + std::to_string(::getpid()) + ".osm.pbf";
    return vh::line_loop([&](const std::string& line) -> std::string {
        try {
            const auto seg = split(line, " | ");
            const auto w = vh::words(seg[0]);
            if (w.empty()) return "bad-op";
            if (w[0] == "enc" && w.size() == 2 && seg.size() >= 2) {
                const Opts o = parse_opts(w[1]);
                std::string err;
                try {
                    osmium::io::File file{path, format_string(o)};
                    osmium::io::Writer writer{file, parse_header(seg[1]), osmium::io::overwrite::allow};
                    osmium::memory::Buffer buffer{1024 * 1024, osmium::memory::Buffer::auto_grow::yes};
                    for (std::size_t i = 2; i < seg.size(); ++i) {
                        build_object(buffer, seg[i]);
                        if (buffer.committed() > 512 * 1024) {
                            writer(std::move(buffer));
                            buffer = osmium::memory::Buffer{1024 * 1024, osmium::memory::Buffer::auto_grow::yes};
                        }
                    }
                    writer(std::move(buffer));
                    writer.close();
                } catch (const std::exception& e) {
                    err = std::string{"err:"} + e.what();
                }
                const std::string bytes = slurp(path);
                ::unlink(path.c_str());
                return err.empty() ? vh::hex(bytes) : err;
            }
            if (w[0] == "est" && w.size() == 2 && seg.size() >= 2) {
                const Opts o = parse_opts(w[1]);
                osmium::thread::Pool pool{1};
                osmium::io::detail::future_string_queue_type queue{0, "est"};
                const osmium::io::File file{"", format_string(o)};
                osmium::io::detail::PBFOutputFormat fmt{pool, file, queue};
                std::string out = "S";
                for (std::size_t i = 2; i < seg.size(); ++i) {
                    osmium::memory::Buffer buffer{64 * 1024, osmium::memory::Buffer::auto_grow::yes};
                    build_object(buffer, seg[i]);
                    for (const auto& item : buffer) {
                        if (item.type() == osmium::item_type::node) fmt.node(static_cast<const osmium::Node&>(item));
                        else if (item.type() == osmium::item_type::way) fmt.way(static_cast<const osmium::Way&>(item));
                        else if (item.type() == osmium::item_type::relation) fmt.relation(static_cast<const osmium::Relation&>(item));
                    }
                    out += " " + std::to_string(fmt.m_primitive_block->size()) + ":" + std::to_string(fmt.m_primitive_block->count());
                }
                return out;
            }
            if (w[0] == "dec" && w.size() == 3) {
                return read_dump(unhexs(w[2]), w[1]);
            }
            if (w[0] == "inflate" && w.size() == 2) {
                const auto r = walk(unhexs(w[1]), true);
                return r.bad.empty() ? vh::hex(r.reframed) : "W bad:" + r.bad;
            }
            if (w[0] == "walk" && w.size() == 2) {
                return walk_line(walk(unhexs(w[1]), false));
            }
            if (w[0] == "big" && w.size() == 6) {
                const std::string kind = w[1];
                const std::size_t n = std::stoul(w[2]);
                const std::size_t k = std::stoul(w[3]);
                const std::size_t len = std::stoul(w[4]);
                const Opts o = parse_opts(w[5]);
                std::string werr = "ok";
                try {
                    osmium::io::File file{path, format_string(o)};
                    osmium::io::Header header;
                    header.set("generator", "pbf-big");
                    osmium::io::Writer writer{file, header, osmium::io::overwrite::allow};
                    std::size_t uniq = 0;
                    auto value = [&](std::size_t id) {
                        std::string v = std::to_string(id);
                        v.resize(len, 'x');
                        return v;
                    };
                    osmium::memory::Buffer buffer{4 * 1024 * 1024, osmium::memory::Buffer::auto_grow::yes};
                    for (std::size_t i = 0; i < n; ++i) {
                        if (kind == "w") {
                            osmium::builder::WayBuilder b{buffer};
                            b.object().set_id(static_cast<int64_t>(i + 1)).set_version(1);
                            b.set_user("u");
                            osmium::builder::TagListBuilder tl{b};
                            for (std::size_t j = 0; j < k; ++j) tl.add_tag("k" + std::to_string(j), value(uniq++));
                        } else if (kind == "d") {
                            osmium::builder::NodeBuilder b{buffer};
                            b.object().set_id(static_cast<int64_t>(i + 1)).set_version(1);
                            b.object().set_location(osmium::Location{static_cast<int32_t>(i), static_cast<int32_t>(i)});
                            b.set_user("u");
                            osmium::builder::TagListBuilder tl{b};
                            for (std::size_t j = 0; j < k; ++j) tl.add_tag("k" + std::to_string(j), value(j));
                        } else {
                            osmium::builder::RelationBuilder b{buffer};
                            b.object().set_id(static_cast<int64_t>(i + 1)).set_version(1);
                            b.set_user("u");
                            osmium::builder::RelationMemberListBuilder rml{b};
                            for (std::size_t j = 0; j < k; ++j) rml.add_member(osmium::item_type::node, static_cast<int64_t>(j + 1), value(uniq++).c_str());
                        }
                        buffer.commit();
                        if (buffer.committed() > 2 * 1024 * 1024) {
                            writer(std::move(buffer));
                            buffer = osmium::memory::Buffer{4 * 1024 * 1024, osmium::memory::Buffer::auto_grow::yes};
                        }
                    }
                    writer(std::move(buffer));
                    writer.close();
                } catch (const std::exception& e) {
                    werr = std::string{"err:"} + e.what();
                }
                const std::string bytes = slurp(path);
                ::unlink(path.c_str());
                const auto r = walk(bytes, false);
                std::size_t objs = 0;
                std::string rd = read_dump(bytes, "N1W1R1M1", &objs);
                if (rd.rfind("ok", 0) == 0) rd = "ok";
                for (auto& c : rd) if (c == ' ') c = '_';
                return "B write=" + werr + " " + walk_line(r).substr(2) + " read=" + rd + " objs=" + std::to_string(objs);
            }
        } catch (const std::exception& e) {
            return std::string{"bad-op:"} + e.what();
        }
        return "bad-op";
    });
}
