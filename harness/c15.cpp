// C15 harness: runs the REAL IdSetDense / IdSetSmall / RelationsMapStash / ItemStash on the op
// lines the Lean model driver (lean/Driver/C15.lean) also receives, and evaluates the property
// itself (comparison with std::set / std::set<pair> / std::map kept next to each container).
// A property-monitor hit is appended to the output line as " !<tag>" (the model never prints
// that; tools/props/c15.py strips it before diffing and turns it into a violation).
//
//   D <w> <cb> set|unset|cas|get <id> ; D <w> <cb> size|empty|clear|copy|iter
//   S set|get|getb <id> ; S sortu|size|list|clear ; S merge id id ...
//   R reset ; R add <member> <parent> ; R size ; R build m2p|p2m|both ; R look m2p|p2m <k>
//   R hist <n> m1 r1 .. mn rn k1 .. kp      one whole history on FRESH objects: the n adds, then every builder,
//                                           size()/empty() of every index and for_each(k) for every probe k
//   S hist <n> id1 .. idn <m> o1 .. om k1 .. kp   fresh IdSetSmall: n set()s, raw content, sort_unique, merge_sorted
//                                           with the set built from o1..om, get/get_binary_search of every probe
//   I new <ibs> ; I add <hex> ; I get <h> ; I rm <h> ; I gc ; I clear ; I size ; I idx
#include "common.hpp"

#include <osmium/index/id_set.hpp>
#include <osmium/index/nwr_array.hpp>
#include <osmium/index/relations_map.hpp>
#include <osmium/memory/buffer.hpp>
#include <osmium/memory/item.hpp>

#include <algorithm>
#include <cassert>
#include <cstdlib>
#include <cstring>
#include <limits>
#include <map>
#include <memory>
#include <ostream>
#include <set>
#include <utility>
#include <vector>

// The stash keeps its buffer and index private; the property ("removed items' space is
// reclaimed", "index entries are rewritten consistently") is about them, so the harness looks
// inside.  All standard headers item_stash.hpp uses are already included above.
#define private public
#include <osmium/storage/item_stash.hpp>
#undef private

using vec = std::vector<std::string>;

static std::string b01(bool b) { return b ? "1" : "0"; }

static bool parse_u64(const std::string& s, uint64_t& out) {
    if (s.empty() || s.size() > 20) return false;
    for (char c : s) if (c < '0' || c > '9') return false;
    errno = 0;
    char* end = nullptr;
    out = std::strtoull(s.c_str(), &end, 10);
    return errno == 0 && *end == '\0';
}

static std::string list_str(const std::vector<uint64_t>& v) {
    std::string out = std::to_string(v.size());
    for (auto x : v) {
        out += ' ';
        out += std::to_string(x);
    }
    return out;
}

// ---------------------------------------------------------------------------------------------

struct DenseBase {
    virtual ~DenseBase() = default;
    virtual std::string op(const vec& w) = 0;
};

template <typename T, std::size_t CB>
struct DenseBox : DenseBase {
    using set_type = osmium::index::IdSetDense<T, CB>;
    // the set lives in an nwr_array (index/nwr_array.hpp), ops go to the "way" slot
    osmium::nwr_array<set_type> arr;
    std::set<uint64_t> oracle;

    set_type& s() { return arr(osmium::item_type::way); }

    std::string op(const vec& w) override {
        if (w.size() == 5) {
            uint64_t id = 0;
            if (!parse_u64(w[4], id)) return "bad-op";
            if (id > std::numeric_limits<T>::max()) return "bad-op";
            const T t = static_cast<T>(id);
            if (w[3] == "set") {
                s().set(t);
                oracle.insert(id);
                return s().get(t) ? "ok" : "ok !set-then-get";
            }
            if (w[3] == "unset") {
                s().unset(t);
                oracle.erase(id);
                return !s().get(t) ? "ok" : "ok !unset-then-get";
            }
            if (w[3] == "cas") {
                const bool r = s().check_and_set(t);
                const bool want = oracle.insert(id).second;
                return b01(r) + (r == want ? "" : " !check_and_set");
            }
            if (w[3] == "get") {
                const bool r = s().get(t);
                return b01(r) + (r == (oracle.count(id) != 0) ? "" : " !get");
            }
            return "bad-op";
        }
        if (w.size() != 4) return "bad-op";
        if (w[3] == "size") {
            const T r = s().size();
            return std::to_string(r) + (r == static_cast<T>(oracle.size()) ? "" : " !size");
        }
        if (w[3] == "empty") {
            const bool r = s().empty();
            return b01(r) + (r == oracle.empty() ? "" : " !empty");
        }
        if (w[3] == "clear") {
            s().clear();
            oracle.clear();
            return "ok";
        }
        if (w[3] == "copy") {
            set_type b{s()};        // copy constructor
            set_type c;
            // the assignment target already has chunks of its own, some of them in places where
            // the source has none: after `c = b` nothing of them may be left (seed C15-4)
            for (uint64_t k = 0; k < 5; ++k) {
                c.set(static_cast<T>((k << (CB + 3)) + 1 + k));
            }
            c = b;                  // copy assignment
            using std::swap;
            swap(s(), c);           // continue with the copy, the original dies here
            return "ok";
        }
        if (w[3] == "iter") {
            std::vector<uint64_t> got;
            for (const auto id : s()) {
                got.push_back(id);
                if (got.size() > oracle.size() + 8) break; // runaway iterator
            }
            const std::vector<uint64_t> want(oracle.begin(), oracle.end());
            return list_str(got) + (got == want ? "" : " !iterate");
        }
        return "bad-op";
    }
};

// ---------------------------------------------------------------------------------------------

struct SmallBox {
    osmium::index::IdSetSmall<uint64_t> s;
    std::set<uint64_t> oracle;
    bool sorted = true;

    // one whole history on a fresh set (the exhaustive small-history streams of tools/props/c15.py):
    //   raw <list> | get <bits> | sorted <list> | getb <bits> | merged <list> | getb <bits>
    static std::string hist(const vec& w) {
        uint64_t n = 0, m = 0;
        if (w.size() < 4 || !parse_u64(w[2], n) || w.size() < 4 + n) return "bad-op";
        if (!parse_u64(w[3 + n], m) || w.size() < 4 + n + m) return "bad-op";
        std::vector<uint64_t> ids, others, probes;
        for (std::size_t i = 3; i < w.size(); ++i) {
            if (i == 3 + n) continue;
            uint64_t id = 0;
            if (!parse_u64(w[i], id)) return "bad-op";
            (i < 3 + n ? ids : i < 4 + n + m ? others : probes).push_back(id);
        }
        osmium::index::IdSetSmall<uint64_t> s;
        std::set<uint64_t> oracle;
        std::string mon;
        for (const auto id : ids) {
            s.set(id);
            oracle.insert(id);
        }
        std::string out = "raw " + list_str(std::vector<uint64_t>(s.begin(), s.end()));
        if (s.empty() != oracle.empty()) mon += " !small-empty";
        out += " | get ";
        for (const auto k : probes) {
            const bool r = s.get(k);
            out += b01(r);
            if (r != (oracle.count(k) != 0)) mon += " !small-get";
        }
        s.sort_unique();
        {
            const std::vector<uint64_t> got(s.begin(), s.end());
            out += " | sorted " + list_str(got);
            if (got != std::vector<uint64_t>(oracle.begin(), oracle.end())) mon += " !small-list";
            if (s.size() != oracle.size()) mon += " !small-size";
        }
        out += " | getb ";
        for (const auto k : probes) {
            const bool r = s.get_binary_search(k);
            out += b01(r);
            if (r != (oracle.count(k) != 0) || s.get(k) != r) mon += " !small-getb";
        }
        osmium::index::IdSetSmall<uint64_t> other;
        for (const auto id : others) {
            other.set(id);
            oracle.insert(id);
        }
        other.sort_unique();
        s.merge_sorted(other);
        {
            const std::vector<uint64_t> got(s.begin(), s.end());
            out += " | merged " + list_str(got);
            if (got != std::vector<uint64_t>(oracle.begin(), oracle.end())) mon += " !small-list";
            if (s.size() != oracle.size()) mon += " !small-size";
        }
        out += " | getb ";
        for (const auto k : probes) {
            const bool r = s.get_binary_search(k);
            out += b01(r);
            if (r != (oracle.count(k) != 0) || s.get(k) != r) mon += " !small-getb";
        }
        return out + mon;
    }

    std::string op(const vec& w) {
        if (w.size() >= 2 && w[1] == "hist") return hist(w);
        if (w.size() >= 2 && w[1] == "merge") {
            osmium::index::IdSetSmall<uint64_t> other;
            for (std::size_t i = 2; i < w.size(); ++i) {
                uint64_t id = 0;
                if (!parse_u64(w[i], id)) return "bad-op";
                other.set(id);
                oracle.insert(id);
            }
            other.sort_unique();
            s.merge_sorted(other);
            return "ok";
        }
        if (w.size() == 3) {
            uint64_t id = 0;
            if (!parse_u64(w[2], id)) return "bad-op";
            if (w[1] == "set") {
                s.set(id);
                oracle.insert(id);
                sorted = false;
                return "ok";
            }
            if (w[1] == "get") {
                const bool r = s.get(id);
                return b01(r) + (r == (oracle.count(id) != 0) ? "" : " !small-get");
            }
            if (w[1] == "getb") {
                const bool r = s.get_binary_search(id);
                return b01(r) + (!sorted || r == (oracle.count(id) != 0) ? "" : " !small-getb");
            }
            return "bad-op";
        }
        if (w.size() != 2) return "bad-op";
        if (w[1] == "sortu") {
            s.sort_unique();
            sorted = true;
            return "ok";
        }
        if (w[1] == "size") {
            const auto r = s.size();
            return std::to_string(r) + (!sorted || r == oracle.size() ? "" : " !small-size");
        }
        if (w[1] == "list") {
            const std::vector<uint64_t> got(s.begin(), s.end());
            const std::vector<uint64_t> want(oracle.begin(), oracle.end());
            return list_str(got) + (!sorted || got == want ? "" : " !small-list");
        }
        if (w[1] == "clear") {
            s.clear();
            oracle.clear();
            sorted = true;
            return "ok";
        }
        return "bad-op";
    }
};

// ---------------------------------------------------------------------------------------------

struct RelBox {
    using id_t = osmium::unsigned_object_id_type;
    std::unique_ptr<osmium::index::RelationsMapStash> live{new osmium::index::RelationsMapStash};
    std::vector<std::pair<id_t, id_t>> adds;
    std::set<std::pair<id_t, id_t>> oracle;       // (member, parent)
    std::unique_ptr<osmium::index::RelationsMapIndex> m2p, p2m;
    std::unique_ptr<osmium::index::RelationsMapIndexes> both;
    bool m2p_from_both = false, p2m_from_both = false;

    osmium::index::RelationsMapStash fresh() const {
        osmium::index::RelationsMapStash st;
        for (const auto& p : adds) st.add(p.first, p.second);
        return st;
    }

    static std::string info(const osmium::index::RelationsMapIndex& ix, std::size_t distinct) {
        return std::to_string(ix.size()) + " " + b01(ix.empty()) + (ix.size() == distinct ? "" : " !index-size");
    }

    // for_each(k) as a LIST (a value delivered twice is visible), compared with the sorted partners of k in `oracle`
    static std::string look_str(const osmium::index::RelationsMapIndex& ix, bool is_m2p, id_t k,
                                const std::set<std::pair<id_t, id_t>>& oracle, std::string& mon) {
        std::vector<uint64_t> got;
        ix.for_each(k, [&](id_t v) { got.push_back(v); });
        std::vector<uint64_t> want;
        for (const auto& p : oracle) {
            if (is_m2p && p.first == k) want.push_back(p.second);
            if (!is_m2p && p.second == k) want.push_back(p.first);
        }
        std::sort(want.begin(), want.end());
        if (got != want) mon += " !lookup";
        std::string out = " " + std::to_string(got.size());
        for (std::size_t i = 0; i < got.size(); ++i) {
            out += i == 0 ? ':' : ',';
            out += std::to_string(got[i]);
        }
        return out;
    }

    static std::string index_str(const osmium::index::RelationsMapIndex& ix, bool is_m2p, const std::vector<id_t>& probes,
                                 const std::set<std::pair<id_t, id_t>>& oracle, std::string& mon) {
        std::string out = std::to_string(ix.size()) + " " + b01(ix.empty());
        if (ix.size() != oracle.size()) mon += " !index-size";
        if (ix.empty() != oracle.empty()) mon += " !index-empty";
        for (const auto k : probes) out += look_str(ix, is_m2p, k, oracle, mon);
        return out;
    }

    // one whole history on fresh objects (the exhaustive small-history stream of tools/props/c15.py):
    //   S <size> <n32> <n64> <empty> | M <index> | P <index> | BM <index> | BP <index> | B <size> <empty>
    //   <index> = <size> <empty> then per probe <count>[:v,v,..]   (M/P: the single builders, BM/BP: build_indexes())
    static std::string hist(const vec& w) {
        uint64_t n = 0;
        if (w.size() < 3 || !parse_u64(w[2], n) || w.size() < 3 + 2 * n) return "bad-op";
        std::vector<id_t> v;
        for (std::size_t i = 3; i < w.size(); ++i) {
            uint64_t id = 0;
            if (!parse_u64(w[i], id)) return "bad-op";
            v.push_back(id);
        }
        const std::vector<id_t> probes(v.begin() + 2 * n, v.end());
        std::set<std::pair<id_t, id_t>> oracle;
        const auto filled = [&]() {
            osmium::index::RelationsMapStash st;
            for (std::size_t i = 0; i < n; ++i) st.add(v[2 * i], v[2 * i + 1]);
            return st;
        };
        for (std::size_t i = 0; i < n; ++i) oracle.emplace(v[2 * i], v[2 * i + 1]);
        std::string mon;
        std::string out;
        {
            auto st = filled();
            const auto sz = st.sizes();
            out = "S " + std::to_string(st.size()) + " " + std::to_string(sz.first) + " " + std::to_string(sz.second) + " " + b01(st.empty());
            if (st.size() != n || sz.first + sz.second != n || st.empty() != (n == 0)) mon += " !stash-size";
        }
        {
            auto st = filled();
            const auto ix = st.build_member_to_parent_index();
            out += " | M " + index_str(ix, true, probes, oracle, mon);
        }
        {
            auto st = filled();
            const auto ix = st.build_parent_to_member_index();
            out += " | P " + index_str(ix, false, probes, oracle, mon);
        }
        {
            auto st = filled();
            const auto ixs = st.build_indexes();
            out += " | BM " + index_str(ixs.member_to_parent(), true, probes, oracle, mon);
            out += " | BP " + index_str(ixs.parent_to_member(), false, probes, oracle, mon);
            out += " | B " + std::to_string(ixs.size()) + " " + b01(ixs.empty());
            if (ixs.size() != oracle.size() || ixs.empty() != oracle.empty()) mon += " !index-size";
        }
        return out + mon;
    }

    std::string op(const vec& w) {
        if (w.size() >= 3 && w[1] == "hist") return hist(w);
        if (w.size() == 2 && w[1] == "reset") {
            live.reset(new osmium::index::RelationsMapStash);
            adds.clear();
            oracle.clear();
            m2p.reset();
            p2m.reset();
            both.reset();
            return "ok";
        }
        if (w.size() == 4 && w[1] == "add") {
            id_t m = 0, r = 0;
            if (!parse_u64(w[2], m) || !parse_u64(w[3], r)) return "bad-op";
            live->add(m, r);
            adds.emplace_back(m, r);
            oracle.emplace(m, r);
            return "ok";
        }
        if (w.size() == 2 && w[1] == "size") {
            const auto sz = live->sizes();
            return std::to_string(live->size()) + " " + std::to_string(sz.first) + " " + std::to_string(sz.second) + " " + b01(live->empty()) +
                   (live->size() == adds.size() ? "" : " !stash-size");
        }
        if (w.size() == 3 && w[1] == "build") {
            auto st = fresh();
            if (w[2] == "m2p") {
                m2p.reset(new osmium::index::RelationsMapIndex{st.build_member_to_parent_index()});
                m2p_from_both = false;
                return info(*m2p, oracle.size());
            }
            if (w[2] == "p2m") {
                p2m.reset(new osmium::index::RelationsMapIndex{st.build_parent_to_member_index()});
                p2m_from_both = false;
                return info(*p2m, oracle.size());
            }
            if (w[2] == "both") {
                both.reset(new osmium::index::RelationsMapIndexes{st.build_indexes()});
                m2p.reset();
                p2m.reset();
                m2p_from_both = p2m_from_both = true;
                return info(both->member_to_parent(), oracle.size()) + " " +
                       info(both->parent_to_member(), oracle.size());
            }
            return "bad-op";
        }
        if (w.size() == 4 && w[1] == "look") {
            id_t k = 0;
            if (!parse_u64(w[3], k)) return "bad-op";
            const bool is_m2p = w[2] == "m2p";
            const osmium::index::RelationsMapIndex* ix = nullptr;
            if (is_m2p) ix = m2p_from_both ? (both ? &both->member_to_parent() : nullptr) : m2p.get();
            else ix = p2m_from_both ? (both ? &both->parent_to_member() : nullptr) : p2m.get();
            if (!ix) return "no-index";
            std::vector<uint64_t> got;
            ix->for_each(k, [&](id_t v) { got.push_back(v); });
            std::vector<uint64_t> want;
            for (const auto& p : oracle) {
                if (is_m2p && p.first == k) want.push_back(p.second);
                if (!is_m2p && p.second == k) want.push_back(p.first);
            }
            std::sort(want.begin(), want.end());
            return list_str(got) + (got == want ? "" : " !lookup");
        }
        return "bad-op";
    }
};

// ---------------------------------------------------------------------------------------------

struct StashBox {
    std::unique_ptr<osmium::ItemStash> st{new osmium::ItemStash};
    // handle number h (1-based, since the last clear/new) -> handle object, state, content
    std::vector<osmium::ItemStash::handle_type> handles;
    std::vector<int> state; // 1 live, 2 removed
    std::vector<std::string> content;

    static std::size_t padded(std::size_t n) { return (n + 7) & ~std::size_t{7}; }

    // handle_type keeps its value private; operator<< prints it
    static std::size_t number(const osmium::ItemStash::handle_type& h) {
        std::ostringstream out;
        out << h;
        const std::string s = out.str();
        return s == "-" ? 0 : std::strtoull(s.c_str(), nullptr, 10);
    }

    void forget() {
        handles.clear();
        state.clear();
        content.clear();
    }

    // the property after a collection: every live handle resolves to its content, the
    // committed size is exactly the space of the live items
    std::string sweep() {
        std::size_t live_bytes = 0;
        for (std::size_t i = 0; i < handles.size(); ++i) {
            if (state[i] != 1) continue;
            live_bytes += padded(8 + content[i].size());
            const std::size_t off = st->m_index[i];
            if (off == std::numeric_limits<std::size_t>::max() || off >= st->m_buffer.committed()) return " !gc-handles";
            const auto& it = st->get_item(handles[i]);
            if (it.removed() || it.byte_size() != 8 + content[i].size() ||
                std::memcmp(it.data() + 8, content[i].data(), content[i].size()) != 0) return " !gc-handles";
        }
        if (st->m_buffer.committed() != live_bytes) return " !gc-reclaim";
        if (st->count_removed() != 0) return " !gc-reclaim";
        return "";
    }

    std::string op(const vec& w) {
        if (w.size() == 3 && w[1] == "new") {
            st.reset(new osmium::ItemStash);
            forget();
            return "ok " + std::to_string(st->m_buffer.capacity());
        }
        if (w.size() == 3 && w[1] == "add") {
            std::string p;
            if (!vh::unhex(w[2], p)) return "bad-op";
            const std::size_t total = padded(8 + p.size());
            std::vector<uint64_t> mem(total / 8, 0);
            auto* raw = reinterpret_cast<unsigned char*>(mem.data());
            const uint32_t sz = static_cast<uint32_t>(8 + p.size());
            const uint16_t type = 0x01; // item_type::node
            std::memcpy(raw, &sz, 4);
            std::memcpy(raw + 4, &type, 2);
            std::memcpy(raw + 8, p.data(), p.size());
            const auto removed_before = st->count_removed();
            const auto h = st->add_item(*reinterpret_cast<const osmium::memory::Item*>(raw));
            handles.push_back(h);
            state.push_back(1);
            content.push_back(p);
            std::string mon;
            if (number(h) != handles.size()) mon = " !handle-number";
            if (st->count_removed() < removed_before) mon += sweep(); // automatic collection ran
            if (mon.empty()) {
                const auto& it = st->get_item(h);
                if (it.byte_size() != sz || std::memcmp(it.data() + 8, p.data(), p.size()) != 0) mon = " !add-then-get";
            }
            return std::to_string(number(h)) + " " + std::to_string(st->size()) + " " + std::to_string(st->count_removed()) + " " +
                   std::to_string(st->m_buffer.committed()) + " " + std::to_string(st->m_buffer.capacity()) + mon;
        }
        if (w.size() == 3 && (w[1] == "get" || w[1] == "rm")) {
            uint64_t h = 0;
            if (!parse_u64(w[2], h)) return "bad-op";
            // precondition of get_item/remove_item, decided by the harness's own bookkeeping
            if (h == 0 || h > handles.size() || state[h - 1] != 1) return "ub";
            if (w[1] == "get") {
                const auto& it = st->get_item(handles[h - 1]);
                const std::string got{reinterpret_cast<const char*>(it.data()) + 8, it.byte_size() >= 8 ? it.byte_size() - 8 : 0};
                return std::to_string(it.byte_size()) + " " + b01(it.removed()) + " " + vh::hex(got) +
                       (!it.removed() && got == content[h - 1] ? "" : " !get-content");
            }
            st->remove_item(handles[h - 1]);
            state[h - 1] = 2;
            return "ok " + std::to_string(st->size()) + " " + std::to_string(st->count_removed());
        }
        if (w.size() == 2 && w[1] == "gc") {
            st->garbage_collect();
            return "ok " + std::to_string(st->size()) + " " + std::to_string(st->count_removed()) + " " +
                   std::to_string(st->m_buffer.committed()) + " " + std::to_string(st->m_buffer.capacity()) + sweep();
        }
        if (w.size() == 2 && w[1] == "clear") {
            st->clear();
            forget();
            return "ok";
        }
        if (w.size() == 2 && w[1] == "size") {
            std::size_t live = 0;
            for (int s : state) live += s == 1;
            return std::to_string(st->size()) + " " + std::to_string(st->count_removed()) + (st->size() == live ? "" : " !stash-size");
        }
        if (w.size() == 2 && w[1] == "idx") {
            std::string out = std::to_string(st->m_index.size());
            for (auto x : st->m_index) {
                out += ' ';
                out += x == std::numeric_limits<std::size_t>::max() ? std::string{"-"} : std::to_string(x);
            }
            return out;
        }
        return "bad-op";
    }
};

// ---------------------------------------------------------------------------------------------

#ifndef C15_TINY_A
# define C15_TINY_A 8
#endif
#ifndef C15_TINY_B
# define C15_TINY_B 4
#endif

int main() {
    // line-buffered: if the real code crashes (ASan abort) the lines of all completed ops are out
    std::setvbuf(stdout, nullptr, _IOLBF, 1 << 16);
    std::map<std::pair<int, int>, std::unique_ptr<DenseBase>> dense;
    dense[{32, 22}].reset(new DenseBox<uint32_t, 22>);
    dense[{64, 22}].reset(new DenseBox<uint64_t, 22>);
    dense[{32, C15_TINY_A}].reset(new DenseBox<uint32_t, C15_TINY_A>);
    dense[{64, C15_TINY_A}].reset(new DenseBox<uint64_t, C15_TINY_A>);
    dense[{32, C15_TINY_B}].reset(new DenseBox<uint32_t, C15_TINY_B>);
    dense[{64, C15_TINY_B}].reset(new DenseBox<uint64_t, C15_TINY_B>);
    SmallBox small;
    RelBox rel;
    StashBox stash;

    return vh::line_loop([&](const std::string& line) -> std::string {
        const auto w = vh::words(line);
        if (w.empty()) return "bad-op";
        try {
            if (w[0] == "D" && w.size() >= 4) {
                const auto it = dense.find({std::atoi(w[1].c_str()), std::atoi(w[2].c_str())});
                if (it == dense.end()) return "bad-op";
                return it->second->op(w);
            }
            if (w[0] == "S") return small.op(w);
            if (w[0] == "R") return rel.op(w);
            if (w[0] == "I") return stash.op(w);
        } catch (const std::exception& e) {
            return std::string{"exception:"} + e.what();
        }
        return "bad-op";
    });
}
