#include <osmium/memory/buffer.hpp>
#include <osmium/osm/object_comparisons.hpp>
#include <osmium/index/id_set.hpp>
#include <osmium/geom/tile.hpp>
#include <osmium/osm/location.hpp>
#include <osmium/handler/check_order.hpp>
#include <osmium/builder/attr.hpp>
#include <osmium/util/delta.hpp>
#include <osmium/osm/item_type.hpp>
#include <osmium/index/relations_map.hpp>
#include <osmium/relations/members_database.hpp>
#include <osmium/io/detail/opl_parser_functions.hpp>
#include <osmium/io/detail/string_util.hpp>
#include <osmium/osm/timestamp.hpp>
#include <cstdio>
#include <iterator>
#include <cstdint>
#include <fstream>
#include <string>

static std::string unhex(const std::string& h) {
    std::string out;
    if (h == "-") return out;
    for (size_t i = 0; i + 1 < h.size(); i += 2) out += static_cast<char>(std::stoi(h.substr(i, 2), nullptr, 16));
    return out;
}

// ---- phase 3: character cursors.  One input per line: `kind hexbytes`; the buffer is the bytes followed by a NUL.
// Output: `kind hex ok <value> <cursor offset>` or `kind hex <exception class> <cursor offset>`
static void cursor_tests(const char* path) {
    std::ifstream in{path};
    std::string kind, hex;
    while (in >> kind >> hex) {
        const std::string s = unhex(hex);
        const char* p = s.c_str();
        if (kind == "oplint64" || kind == "oplintu32" || kind == "oplid") {
            try {
                long long v = 0;
                if (kind == "oplint64") v = osmium::io::detail::opl_parse_int<int64_t>(&p);
                else if (kind == "oplintu32") v = osmium::io::detail::opl_parse_int<uint32_t>(&p);
                else v = osmium::io::detail::opl_parse_id(&p);
                std::printf("%s %s ok %lld %ld\n", kind.c_str(), hex.c_str(), v, static_cast<long>(p - s.c_str()));
            } catch (const osmium::opl_error&) {
                std::printf("%s %s osmium::opl_error %ld\n", kind.c_str(), hex.c_str(), static_cast<long>(p - s.c_str()));
            }
        } else if (kind == "oplvisible") {
            try {
                const bool v = osmium::io::detail::opl_parse_visible(&p);
                std::printf("%s %s ok %d %ld\n", kind.c_str(), hex.c_str(), int(v), static_cast<long>(p - s.c_str()));
            } catch (const osmium::opl_error&) {
                std::printf("%s %s osmium::opl_error %ld\n", kind.c_str(), hex.c_str(), static_cast<long>(p - s.c_str()));
            }
        } else if (kind == "oplspace") {
            try {
                osmium::io::detail::opl_parse_space(&p);
                std::printf("%s %s ok 0 %ld\n", kind.c_str(), hex.c_str(), static_cast<long>(p - s.c_str()));
            } catch (const osmium::opl_error&) {
                std::printf("%s %s osmium::opl_error %ld\n", kind.c_str(), hex.c_str(), static_cast<long>(p - s.c_str()));
            }
        } else if (kind == "oplnonempty") {
            std::printf("%s %s ok %d 0\n", kind.c_str(), hex.c_str(), int(osmium::io::detail::opl_non_empty(p)));
        } else if (kind == "fracsec") {
            const bool v = osmium::detail::fractional_seconds(&p);
            std::printf("%s %s ok %d %ld\n", kind.c_str(), hex.c_str(), int(v), static_cast<long>(p - s.c_str()));
        }
        if (kind == "utf8") {
            try {
                const uint32_t cp = osmium::io::detail::next_utf8_codepoint(&p, s.c_str() + s.size());
                std::printf("%s %s ok %u %ld\n", kind.c_str(), hex.c_str(), cp, static_cast<long>(p - s.c_str()));
            } catch (const std::out_of_range&) {
                std::printf("%s %s std::out_of_range %ld\n", kind.c_str(), hex.c_str(), static_cast<long>(p - s.c_str()));
            } catch (const std::runtime_error&) {
                std::printf("%s %s std::runtime_error %ld\n", kind.c_str(), hex.c_str(), static_cast<long>(p - s.c_str()));
            }
        }
        // ---- phase 4: functions that build a string (the output string starts as "R"; printed as hex after the call)
        if (kind == "oplescaped" || kind == "oplstring") {
            std::string result{"R"};
            auto hexs = [](const std::string& r) {
                static const char* d = "0123456789abcdef";
                std::string o;
                for (unsigned char ch : r) { o += d[ch >> 4]; o += d[ch & 15]; }
                return o.empty() ? std::string{"-"} : o;
            };
            try {
                if (kind == "oplescaped") osmium::io::detail::opl_parse_escaped(&p, result);
                else osmium::io::detail::opl_parse_string(&p, result);
                std::printf("%s %s ok %s %ld\n", kind.c_str(), hex.c_str(), hexs(result).c_str(), static_cast<long>(p - s.c_str()));
            } catch (const osmium::opl_error&) {
                std::printf("%s %s osmium::opl_error %s %ld\n", kind.c_str(), hex.c_str(), hexs(result).c_str(), static_cast<long>(p - s.c_str()));
            }
        }
        if (kind == "oplchar" && !s.empty()) {       // first byte = the expected character, the rest = the buffer
            const char c = s[0];
            p = s.c_str() + 1;
            try {
                osmium::io::detail::opl_parse_char(&p, c);
                std::printf("%s %s ok 0 %ld\n", kind.c_str(), hex.c_str(), static_cast<long>(p - s.c_str() - 1));
            } catch (const osmium::opl_error&) {
                std::printf("%s %s osmium::opl_error %ld\n", kind.c_str(), hex.c_str(), static_cast<long>(p - s.c_str() - 1));
            }
        }
        if ((kind == "hex2" || kind == "hexmin4") && s.size() == 4) {   // a big-endian uint32_t; the table is the buffer of the Lean side
            const uint32_t v = (uint32_t(uint8_t(s[0])) << 24) | (uint32_t(uint8_t(s[1])) << 16) | (uint32_t(uint8_t(s[2])) << 8) | uint32_t(uint8_t(s[3]));
            std::string result{"R"};
            if (kind == "hex2") osmium::io::detail::append_2_hex_digits(result, v, "0123456789abcdef");
            else osmium::io::detail::append_min_4_hex_digits(result, v, "0123456789abcdef");
            std::string o;
            static const char* d = "0123456789abcdef";
            for (unsigned char ch : result) { o += d[ch >> 4]; o += d[ch & 15]; }
            std::printf("%s %s ok %s 0\n", kind.c_str(), hex.c_str(), o.c_str());
        }
        if (kind == "oplenc") {                      // the writer's escaping of the C string in the buffer
            std::string result{"R"};
            const char* exc = nullptr;
            try {
                osmium::io::detail::append_utf8_encoded_string(result, s.c_str());
            } catch (const std::out_of_range&) {
                exc = "std::out_of_range";
            } catch (const std::runtime_error&) {
                exc = "std::runtime_error";
            }
            std::string o;
            static const char* d = "0123456789abcdef";
            for (unsigned char ch : result) { o += d[ch >> 4]; o += d[ch & 15]; }
            std::printf("oplenc %s %s %s 0\n", hex.c_str(), exc ? exc : "ok", o.c_str());
        }
        if (kind == "cpenc") {                       // the four bytes are a big-endian uint32_t code point
            const uint32_t cp = (uint32_t(uint8_t(s[0])) << 24) | (uint32_t(uint8_t(s[1])) << 16) | (uint32_t(uint8_t(s[2])) << 8) | uint32_t(uint8_t(s[3]));
            std::string result{"R"};
            osmium::io::detail::append_codepoint_as_utf8(cp, std::back_inserter(result));
            std::string o;
            static const char* d = "0123456789abcdef";
            for (unsigned char ch : result) { o += d[ch >> 4]; o += d[ch & 15]; }
            std::printf("cpenc %s ok %s 0\n", hex.c_str(), o.c_str());
        }
        if (kind == "coord") {
            try {
                const int32_t v = osmium::detail::string_to_location_coordinate(&p);
                std::printf("coord %s ok %d %ld\n", hex.c_str(), v, static_cast<long>(p - s.c_str()));
            } catch (const osmium::invalid_location&) {
                std::printf("coord %s osmium::invalid_location %ld\n", hex.c_str(), static_cast<long>(p - s.c_str()));
            }
        }
    }
}

int main(int argc, char** argv) {
    const uint64_t ls[] = {0, 1, 7, 8, 9, 63, 64, 65, 1000, 18446744073709551608ULL, 18446744073709551609ULL, 18446744073709551613ULL, 18446744073709551615ULL};
    for (auto l : ls) std::printf("pl %lu %lu\n", l, osmium::memory::padded_length(l));
    const int64_t ids[] = {0, 1, -1, 5, -5, 7, -7, INT64_MAX, INT64_MIN + 1, INT64_MIN};
    for (auto a : ids) for (auto b : ids) std::printf("io %ld %ld %d\n", a, b, int(osmium::id_order{}(a, b)));
    for (uint32_t z = 0; z < 32; ++z) std::printf("nt %u %u\n", z, osmium::geom::num_tiles_in_zoom(z));
    const int32_t cs[] = {0, 1800000000, 1800000001, -1800000000, -1800000001, 900000000, 900000001, -900000000, -900000001, 2147483647, -2147483647 - 1};
    for (auto x : cs) for (auto y : cs) { osmium::Location l{x, y}; std::printf("lv %d %d %d %d %d %d\n", x, y, int(l.valid()), int(l.is_defined()), int(l.is_undefined()), int(bool(l))); }
    const uint64_t is[] = {0, 1, 7, 8, 255, 33554431, 33554432, 33554433, 4294967295ULL, 4294967296ULL, 18446744073709551615ULL};
    for (auto i : is) std::printf("ids %lu %lu %lu %u\n", i, osmium::index::IdSetDense<uint64_t>::chunk_id(i), osmium::index::IdSetDense<uint64_t>::offset(i), osmium::index::IdSetDense<uint64_t>::bitmask(i));

    // ---- phase 2: state transformers, switch, loops (tools/x2l_st.py) ----
    {   // CheckOrder: every sequence of length <= 3 over 3 kinds x 5 ids; outcome + members after each call
        const int64_t cid[] = {0, 3, -3, 7, -9};
        osmium::memory::Buffer buf{1 << 16, osmium::memory::Buffer::auto_grow::yes};
        size_t off[3][5];
        for (int i = 0; i < 5; ++i) {
            using namespace osmium::builder::attr;
            off[0][i] = osmium::builder::add_node(buf, _id(cid[i]));
            off[1][i] = osmium::builder::add_way(buf, _id(cid[i]));
            off[2][i] = osmium::builder::add_relation(buf, _id(cid[i]));
        }
        for (int n = 0; n < 15 * 15 * 15; ++n) {
            osmium::handler::CheckOrder co;
            int c[3] = {n % 15, (n / 15) % 15, n / 225};
            std::printf("co");
            for (int k = 0; k < 3; ++k) {
                int kind = c[k] / 5, i = c[k] % 5, thrown = 0;
                try {
                    if (kind == 0) co.node(buf.get<osmium::Node>(off[0][i]));
                    else if (kind == 1) co.way(buf.get<osmium::Way>(off[1][i]));
                    else co.relation(buf.get<osmium::Relation>(off[2][i]));
                } catch (const osmium::out_of_order_error&) { thrown = 1; }
                std::printf(" %d:%ld:%d:%ld,%ld,%ld,%d%d%d", kind, cid[i], thrown, co.m_max_node_id, co.m_max_way_id, co.m_max_relation_id,
                            int(co.m_has_node), int(co.m_has_way), int(co.m_has_relation));
                if (thrown) break;
            }
            std::printf("\n");
        }
    }
    {   // delta coding (inputs on which the C++ arithmetic does not overflow)
        const int64_t v64[] = {0, 5, -5, 0, INT64_MAX, 0, INT64_MIN + 1, -1, INT64_MIN, -4611686018427387904LL, 4611686018427387903LL};
        osmium::DeltaEncode<int64_t, int64_t> e64; osmium::DeltaDecode<int64_t, int64_t> d64;
        for (auto v : v64) { const int64_t d = e64.update(v); std::printf("de64 %ld %ld %ld %ld\n", v, d, e64.value(), d64.update(d)); }
        const uint32_t v32[] = {0, 1, 2147483647u, 0, 5, 2147483647u, 2147483646u, 7};
        osmium::DeltaEncode<uint32_t, int32_t> e32; osmium::DeltaEncode<uint32_t, int64_t> e3264; osmium::DeltaEncode<int32_t, int32_t> ei32;
        for (auto v : v32) std::printf("de32 %u %d %ld %d\n", v, e32.update(v), e3264.update(v), ei32.update(static_cast<int32_t>(v)));
        const uint32_t w32[] = {4294967295u, 0, 4294967295u, 2147483648u, 1};
        for (auto v : w32) std::printf("deu %u %ld\n", v, e3264.update(v));
    }
    {   // Buffer counters: commit / rollback / clear / is_aligned and the capacity after a growing reserve_space
        const size_t caps[] = {64, 100, 1000};
        const size_t sizes[] = {8, 24, 56, 64, 72, 200, 1000, 5000, 100000};
        for (auto c : caps) for (auto n : sizes) for (auto m : sizes) {
            osmium::memory::Buffer b{c, osmium::memory::Buffer::auto_grow::yes};
            b.reserve_space(n);
            const size_t r1 = b.commit();
            b.reserve_space(m);
            std::printf("buf %lu %lu %lu : %lu %lu %lu %lu %d", c, n, m, r1, b.capacity(), b.written(), b.committed(), int(b.is_aligned()));
            b.rollback();
            std::printf(" %lu %lu", b.written(), b.committed());
            const size_t r2 = b.clear();
            std::printf(" %lu %lu %lu\n", r2, b.written(), b.committed());
        }
    }
    for (int c = -128; c < 128; ++c) std::printf("cit %d %u\n", c, unsigned(osmium::char_to_item_type(static_cast<char>(c))));
    for (unsigned t = 0; t < 300; ++t) std::printf("itc %u %d\n", t, int(osmium::item_type_to_char(static_cast<osmium::item_type>(t))));
    for (unsigned i = 0; i < 3; ++i) std::printf("nwr %u %u %u\n", i, unsigned(osmium::nwr_index_to_item_type(i)), osmium::item_type_to_nwr_index(osmium::nwr_index_to_item_type(i)));
    {   // element ordering and kv_pair ordering / narrowing
        using element = osmium::relations::MembersDatabaseCommon::element;
        const int64_t mids[] = {-2, 0, 5};
        const size_t nums[] = {0, 1, SIZE_MAX};
        const size_t poss[] = {0, 9};
        for (auto a1 : mids) for (auto a2 : nums) for (auto a3 : poss) for (auto b1 : mids) for (auto b2 : nums) for (auto b3 : poss) {
            const element a{a3, a1, a2}; const element b{b3, b1, b2};
            std::printf("el %ld %lu %lu %ld %lu %lu %d %d\n", a1, a2, a3, b1, b2, b3, int(a < b), int(a.is_removed()));
        }
        using kv32 = osmium::index::detail::flat_map<uint64_t, uint32_t, uint64_t, uint32_t>::kv_pair;
        const uint64_t ks[] = {0, 1, 4294967295ULL, 4294967296ULL, 4294967297ULL, 18446744073709551615ULL};
        for (auto k1 : ks) for (auto v1 : ks) for (auto k2 : ks) for (auto v2 : ks) {
            const kv32 a{k1, v1}; const kv32 b{k2, v2};
            std::printf("kv %lu %lu %lu %lu %u %u %d %d\n", k1, v1, k2, v2, a.key, a.value, int(a < b), int(a == b));
        }
    }
    {   // bit-field write
        osmium::memory::Buffer buf{1024};
        using namespace osmium::builder::attr;
        osmium::Node& nd = buf.get<osmium::Node>(osmium::builder::add_node(buf, _id(1)));
        const uint32_t vs[] = {0, 1, 2147483647u, 2147483648u, 2147483649u, 4294967295u};
        for (auto v : vs) for (int d = 0; d < 2; ++d) { nd.set_deleted(d != 0); nd.set_version(v); std::printf("sv %u %d %u %d\n", v, d, nd.version(), int(nd.deleted())); }
    }
    if (argc > 1) cursor_tests(argv[1]);
}
