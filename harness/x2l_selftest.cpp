#include <osmium/memory/buffer.hpp>
#include <osmium/osm/object_comparisons.hpp>
#include <osmium/index/id_set.hpp>
#include <osmium/geom/tile.hpp>
#include <osmium/osm/location.hpp>
#include <cstdio>
#include <cstdint>
int main() {
    const uint64_t ls[] = {0, 1, 7, 8, 9, 63, 64, 65, 1000, 18446744073709551608ULL, 18446744073709551609ULL, 18446744073709551613ULL, 18446744073709551615ULL};
    for (auto l : ls) std::printf("pl %lu %lu\n", l, osmium::memory::padded_length(l));
    const int64_t ids[] = {0, 1, -1, 5, -5, 7, -7, INT64_MAX, INT64_MIN + 1, INT64_MIN};
    for (auto a : ids) for (auto b : ids) std::printf("io %ld %ld %d\n", a, b, int(osmium::id_order{}(a, b)));
    for (uint32_t z = 0; z < 32; ++z) std::printf("nt %u %u\n", z, osmium::geom::num_tiles_in_zoom(z));
    const int32_t cs[] = {0, 1800000000, 1800000001, -1800000000, -1800000001, 900000000, 900000001, -900000000, -900000001, 2147483647, -2147483647 - 1};
    for (auto x : cs) for (auto y : cs) { osmium::Location l{x, y}; std::printf("lv %d %d %d %d %d %d\n", x, y, int(l.valid()), int(l.is_defined()), int(l.is_undefined()), int(bool(l))); }
    const uint64_t is[] = {0, 1, 7, 8, 255, 33554431, 33554432, 33554433, 4294967295ULL, 4294967296ULL, 18446744073709551615ULL};
    for (auto i : is) std::printf("ids %lu %lu %lu %u\n", i, osmium::index::IdSetDense<uint64_t>::chunk_id(i), osmium::index::IdSetDense<uint64_t>::offset(i), osmium::index::IdSetDense<uint64_t>::bitmask(i));
}
