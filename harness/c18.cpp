// C18 harness: the REAL functions of geom/tile.hpp, geom/mercator_projection.hpp,
// osm/location.hpp on the op lines the Lean model driver (lean/Driver/C18.lean) also receives,
// plus multi-threaded property monitors on the implementation alone.
//
// doubles are exchanged as 16-digit hex bit patterns (input) and as "m e" (output: the exact
// value m*2^e with m odd; "0 0", "inf", "-inf", "nan") — never as decimal float text.
//
// line ops (model + harness):
//   ext z                -> "<m e> <num_tiles>"          tile_extent_in_zoom, num_tiles_in_zoom
//   tx z xbits           -> tile x | "ub" (trap build)    mercx_to_tilex
//   ty z ybits           -> tile y | "ub"                 mercy_to_tiley
//   tile z xbits ybits   -> "x y z valid" | "ub"          Tile(z, Coordinates)
//   tloc z lon lat xbits ybits -> "x y z valid" | "ub" | "invalid_location"   Tile(z, Location)
//         (xbits/ybits = projected coordinates of that location, produced by `merc`: the model
//          uses them as the values of its lon_to_x / lat_to_y parameters; the harness ignores them)
//   txyz z tx ty         -> "x y z valid"                 Tile(z, tx, ty)
//   lonx lon             -> "<m e>"                       lon_to_x(Location.lon())
//   xlon xbits           -> "<m e>"                       x_to_lon
//   rtx lon              -> fixed-point lon after x_to_lon(lon_to_x(lon)) and double_to_fix
// harness only:
//   consts               -> bit patterns of the constants (regenerated into Lean)
//   merc lon lat         -> "xbits ybits" of lonlat_to_mercator(Location)
//   scanlat lo hi stride -> accuracy / monotonicity / round-trip monitors over fixed-point latitudes
//   scanlon lo hi stride -> same for longitudes
//   montile x|y lo hi stride -> tile range / monotonicity / nesting monitors, zoom 0..30
//
// Build variant -DC18_TRAP (with -fsanitize=float-cast-overflow -fsanitize-undefined-trap-on-error):
// the compiler's own check of the double->int32 conversion traps (SIGILL); the op prints "ub".
#include "common.hpp"

#include <osmium/geom/coordinates.hpp>
#include <osmium/geom/mercator_projection.hpp>
#include <osmium/geom/tile.hpp>
#include <osmium/geom/util.hpp>
#include <osmium/osm/location.hpp>

#include <algorithm>
#include <atomic>
#include <cinttypes>
#include <cmath>
#include <csetjmp>
#include <csignal>
#include <cstdlib>
#include <cstring>
#include <limits>
#include <thread>

namespace g = osmium::geom;

static uint64_t bits_of(double d) { uint64_t u; std::memcpy(&u, &d, 8); return u; }
static double from_bits(uint64_t u) { double d; std::memcpy(&d, &u, 8); return d; }
static std::string hex16(uint64_t u) { char b[32]; std::snprintf(b, sizeof b, "%016" PRIx64, u); return b; }

// canonical exact text of a double: "m e" with m odd, value m*2^e
static std::string canon(double d) {
    if (std::isnan(d)) return "nan";
    if (std::isinf(d)) return d > 0 ? "inf" : "-inf";
    if (d == 0) return "0 0";
    const uint64_t u = bits_of(d);
    const bool neg = u >> 63;
    const int ex = static_cast<int>((u >> 52) & 0x7ff);
    uint64_t m = u & ((1ULL << 52) - 1);
    int e;
    if (ex == 0) { e = -1074; } else { m |= 1ULL << 52; e = ex - 1075; }
    while ((m & 1) == 0) { m >>= 1; ++e; }
    char b[64];
    std::snprintf(b, sizeof b, "%s%" PRIu64 " %d", neg ? "-" : "", m, e);
    return b;
}

#ifdef C18_TRAP
static sigjmp_buf trap_env;
static void on_trap(int) { siglongjmp(trap_env, 1); }
#define GUARDED(expr_block) \
    do { if (sigsetjmp(trap_env, 1) == 0) { expr_block } else { return std::string{"ub"}; } } while (0)
#else
#define GUARDED(expr_block) do { expr_block } while (0)
#endif

static std::string tile_str(const g::Tile& t) {
    return std::to_string(t.x) + " " + std::to_string(t.y) + " " + std::to_string(t.z) + " " + (t.valid() ? "1" : "0");
}

static unsigned n_threads() {
    if (const char* e = std::getenv("C18_THREADS")) {
        const int n = std::atoi(e);
        if (n > 0) return static_cast<unsigned>(n);
    }
    const unsigned n = std::thread::hardware_concurrency();
    return n ? std::min(n, 16U) : 4U;
}

// ---- a failure record: count + smallest coordinate at which it happened ------------------------
struct Fail {
    uint64_t count = 0;
    int64_t first = std::numeric_limits<int64_t>::max();
    void hit(int64_t at) { ++count; if (at < first) first = at; }
    void merge(const Fail& o) { count += o.count; if (o.first < first) first = o.first; }
    std::string str() const { return std::to_string(count) + "@" + (count ? std::to_string(first) : std::string{"-"}); }
};

struct Worst {  // maximum of an integer magnitude, ties -> smallest coordinate
    int64_t value = -1;
    int64_t at = 0;
    uint64_t a_bits = 0, b_bits = 0;
    void see(int64_t v, int64_t where, double a, double b) {
        if (v > value || (v == value && where < at)) { value = v; at = where; a_bits = bits_of(a); b_bits = bits_of(b); }
    }
    void merge(const Worst& o) { if (o.value > value || (o.value == value && o.value >= 0 && o.at < at)) *this = o; }
    std::string str() const { return std::to_string(value) + "@" + std::to_string(at) + ":" + hex16(a_bits) + ":" + hex16(b_bits); }
};

template <typename Acc, typename F>
static Acc parallel_scan(int64_t lo, int64_t hi, int64_t stride, F&& body) {
    // indices i = 0..n-1, coordinate lo + i*stride; chunks handed out by an atomic counter
    const int64_t n = hi < lo ? 0 : (hi - lo) / stride + 1;
    const int64_t chunk = std::max<int64_t>(1, std::min<int64_t>(1 << 20, n / (n_threads() * 8) + 1));
    const int64_t nchunks = (n + chunk - 1) / chunk;
    std::atomic<int64_t> next{0};
    const unsigned T = n_threads();
    std::vector<Acc> accs(T);
    std::vector<std::thread> th;
    for (unsigned t = 0; t < T; ++t) {
        th.emplace_back([&, t]() {
            for (;;) {
                const int64_t c = next.fetch_add(1);
                if (c >= nchunks) break;
                const int64_t i0 = c * chunk;
                const int64_t i1 = std::min(n, i0 + chunk);
                body(accs[t], i0, i1);
            }
        });
    }
    for (auto& x : th) x.join();
    Acc total;
    for (auto& a : accs) total.merge(a);
    return total;
}

// ---- scanlat ----------------------------------------------------------------------------------
struct LatAcc {
    uint64_t n = 0;
    uint64_t n_fast = 0;           // latitudes where the rational approximation is used (bits differ or |lat|<=78)
    Fail cm;                       // |fast - tan| > 0.01 m
    Fail quarter;                  // |fast - tan| > step/4
    Fail mono;                     // lat_to_y(L) >= lat_to_y(L+1)
    Fail mono_tan;                 // same for lat_to_y_with_tan
    Fail rt_lat;                   // round trip of the latitude
    Fail rt_lon;                   // round trip of the longitude 2L (scanlat) / L (scanlon)
    Fail nonfinite;                // projected y not finite
    Worst diff_nm;                 // max |fast - tan| in nanometres
    Worst ratio_ppm;               // max |fast - tan| / step in 1e-6
    Worst rt_err;                  // max |back - L| in fixed-point units (round trip)
    void merge(const LatAcc& o) {
        n += o.n; n_fast += o.n_fast; cm.merge(o.cm); quarter.merge(o.quarter); mono.merge(o.mono); mono_tan.merge(o.mono_tan);
        rt_lat.merge(o.rt_lat); rt_lon.merge(o.rt_lon); nonfinite.merge(o.nonfinite);
        diff_nm.merge(o.diff_nm); ratio_ppm.merge(o.ratio_ppm); rt_err.merge(o.rt_err);
    }
};

static bool fix_back(double deg, int64_t& out) {
    // Location::double_to_fix is a double->int32 cast: only call it when that is defined
    const double v = deg * 10000000.0;
    if (!(v > -2147483000.0 && v < 2147483000.0)) return false;
    out = osmium::Location::double_to_fix(deg);
    return true;
}

static std::string scanlat(int64_t lo, int64_t hi, int64_t stride) {
    const LatAcc r = parallel_scan<LatAcc>(lo, hi, stride, [&](LatAcc& a, int64_t i0, int64_t i1) {
        bool have_next = false;
        double nf = 0, nt = 0;
        for (int64_t i = i0; i < i1; ++i) {
            const int64_t L = lo + i * stride;
            const double lat = osmium::Location::fix_to_double(static_cast<int32_t>(L));
            double yf, yt;
            if (have_next && stride == 1) { yf = nf; yt = nt; } else { yf = g::detail::lat_to_y(lat); yt = g::detail::lat_to_y_with_tan(lat); }
            ++a.n;
            if (!std::isfinite(yf)) a.nonfinite.hit(L);
            const bool same = bits_of(yf) == bits_of(yt);
            if (lat >= -78.0 && lat <= 78.0) ++a.n_fast;
            const double diff = same ? 0.0 : std::fabs(yf - yt);
            if (!(diff <= 0.01)) a.cm.hit(L);
            a.diff_nm.see(std::isfinite(diff) ? std::llround(diff * 1e9) : std::numeric_limits<int64_t>::max(), L, yf, yt);
            // neighbour: L+1 (or L-1 at the top end)
            const bool up = L + 1 <= 900000000;
            if (up) {
                const double lat1 = osmium::Location::fix_to_double(static_cast<int32_t>(L + 1));
                nf = g::detail::lat_to_y(lat1);
                nt = g::detail::lat_to_y_with_tan(lat1);
                have_next = true;
                if (!(yf < nf)) a.mono.hit(L);
                if (!(yt < nt)) a.mono_tan.hit(L);
            }
            double step;
            if (up) {
                step = std::fabs(nt - yt);
            } else {
                const double latm = osmium::Location::fix_to_double(static_cast<int32_t>(L - 1));
                step = std::fabs(yt - g::detail::lat_to_y_with_tan(latm));
            }
            if (!same) {
                if (!(diff <= 0.25 * step)) a.quarter.hit(L);
                const double ratio = diff / step * 1e6;
                a.ratio_ppm.see(std::isfinite(ratio) ? std::llround(ratio) : std::numeric_limits<int64_t>::max(), L, yf, yt);
            } else {
                a.ratio_ppm.see(0, L, yf, yt);
            }
            // round trip through the public API, longitude 2L alongside
            const int64_t LON = 2 * L;
            const g::Coordinates c = g::lonlat_to_mercator(g::Coordinates{osmium::Location::fix_to_double(static_cast<int32_t>(LON)), lat});
            const g::Coordinates b = g::mercator_to_lonlat(c);
            int64_t back = 0;
            if (!fix_back(b.y, back) || back != L) {
                a.rt_lat.hit(L);
            }
            a.rt_err.see(std::isfinite(b.y) ? std::llabs(std::llround(b.y * 1e7) - L) : std::numeric_limits<int64_t>::max(), L, c.y, b.y);
            if (!fix_back(b.x, back) || back != LON) {
                a.rt_lon.hit(LON);
            }
        }
    });
    return "n=" + std::to_string(r.n) + " fast=" + std::to_string(r.n_fast) + " cm=" + r.cm.str() + " quarter=" + r.quarter.str() +
           " mono=" + r.mono.str() + " mono_tan=" + r.mono_tan.str() + " rt_lat=" + r.rt_lat.str() + " rt_lon=" + r.rt_lon.str() +
           " nonfinite=" + r.nonfinite.str() + " worst_nm=" + r.diff_nm.str() + " worst_ratio_ppm=" + r.ratio_ppm.str() +
           " worst_rt=" + r.rt_err.str();
}

// ---- scanlon ----------------------------------------------------------------------------------
struct LonAcc {
    uint64_t n = 0;
    Fail mono, rt, range;   // strict increase of lon_to_x; round trip; |x| <= R*pi (sanity)
    Worst rt_err;
    void merge(const LonAcc& o) { n += o.n; mono.merge(o.mono); rt.merge(o.rt); range.merge(o.range); rt_err.merge(o.rt_err); }
};

static std::string scanlon(int64_t lo, int64_t hi, int64_t stride) {
    const LonAcc r = parallel_scan<LonAcc>(lo, hi, stride, [&](LonAcc& a, int64_t i0, int64_t i1) {
        for (int64_t i = i0; i < i1; ++i) {
            const int64_t L = lo + i * stride;
            const double lon = osmium::Location::fix_to_double(static_cast<int32_t>(L));
            const g::Coordinates c = g::lonlat_to_mercator(g::Coordinates{lon, 0.0});
            ++a.n;
            if (L + 1 <= 1800000000) {
                const double x1 = g::detail::lon_to_x(osmium::Location::fix_to_double(static_cast<int32_t>(L + 1)));
                if (!(c.x < x1)) a.mono.hit(L);
            }
            if (!(std::fabs(c.x) <= 20037508.342789245)) a.range.hit(L);
            const g::Coordinates b = g::mercator_to_lonlat(c);
            int64_t back = 0;
            if (!fix_back(b.x, back) || back != L) a.rt.hit(L);
            a.rt_err.see(std::isfinite(b.x) ? std::llabs(std::llround(b.x * 1e7) - L) : std::numeric_limits<int64_t>::max(), L, c.x, b.x);
        }
    });
    return "n=" + std::to_string(r.n) + " mono=" + r.mono.str() + " rt=" + r.rt.str() + " range=" + r.range.str() + " worst_rt=" + r.rt_err.str();
}

// ---- montile ----------------------------------------------------------------------------------
constexpr int NZ = 31;
struct TileAcc {
    uint64_t n = 0;
    Fail range[NZ], mono[NZ], nest[NZ], ctor[NZ], skipmono[NZ];
    uint64_t hist_lo = 0, hist_hi = 0, hist_mid = 0; // tile 0 / tile max / inside at zoom 30 (class histogram)
    void merge(const TileAcc& o) {
        n += o.n; hist_lo += o.hist_lo; hist_hi += o.hist_hi; hist_mid += o.hist_mid;
        for (int z = 0; z < NZ; ++z) { range[z].merge(o.range[z]); mono[z].merge(o.mono[z]); nest[z].merge(o.nest[z]); ctor[z].merge(o.ctor[z]); skipmono[z].merge(o.skipmono[z]); }
    }
};

static std::string fails_str(const char* name, const Fail (&f)[NZ]) {
    std::string s = std::string{" "} + name + "=";
    bool any = false;
    for (int z = 0; z < NZ; ++z) {
        if (f[z].count) { s += (any ? "," : "") + std::to_string(z) + ":" + f[z].str(); any = true; }
    }
    if (!any) s += "-";
    return s;
}

template <bool IsX>
static void tiles_at(int64_t L, uint32_t (&out)[NZ]) {
    // the projected coordinate exactly as the Tile(zoom, Location) constructor computes it
    const osmium::Location loc = IsX ? osmium::Location{static_cast<int32_t>(L), static_cast<int32_t>(0)}
                                     : osmium::Location{static_cast<int32_t>(0), static_cast<int32_t>(L)};
    const g::Coordinates c = g::lonlat_to_mercator(loc);
    for (int z = 0; z < NZ; ++z) {
        const g::Tile t{static_cast<uint32_t>(z), c};     // Tile(zoom, Coordinates)
        out[z] = IsX ? t.x : t.y;
    }
}

template <bool IsX>
static std::string montile(int64_t lo, int64_t hi, int64_t stride) {
    const int64_t top = IsX ? 1800000000 : 900000000;
    const TileAcc r = parallel_scan<TileAcc>(lo, hi, stride, [&](TileAcc& a, int64_t i0, int64_t i1) {
        uint32_t cur[NZ], nxt[NZ], prev[NZ];
        bool have_prev = false, have_next = false;
        if (i0 > 0) { tiles_at<IsX>(lo + (i0 - 1) * stride, prev); have_prev = true; }
        for (int64_t i = i0; i < i1; ++i) {
            const int64_t L = lo + i * stride;
            if (have_next && stride == 1) { std::memcpy(cur, nxt, sizeof cur); } else { tiles_at<IsX>(L, cur); }
            ++a.n;
            if (cur[30] == 0) ++a.hist_lo; else if (cur[30] == (1U << 30) - 1) ++a.hist_hi; else ++a.hist_mid;
            const bool up = L + 1 <= top;
            if (up) { tiles_at<IsX>(L + 1, nxt); have_next = true; }
            for (int z = 0; z < NZ; ++z) {
                const uint64_t n_tiles = 1ULL << z;             // independent of num_tiles_in_zoom
                if (!(cur[z] < n_tiles)) a.range[z].hit(L);
                if (z + 1 < NZ && (cur[z + 1] >> 1) != cur[z]) a.nest[z].hit(L);
                if (up) {
                    // x: moving east (L -> L+1) never decreases; y: moving south (L+1 -> L) never decreases
                    const bool ok = IsX ? cur[z] <= nxt[z] : nxt[z] <= cur[z];
                    if (!ok) a.mono[z].hit(L);
                }
                if (have_prev) {
                    const bool ok = IsX ? prev[z] <= cur[z] : cur[z] <= prev[z];
                    if (!ok) a.skipmono[z].hit(L - stride);
                }
            }
            if ((L & 63) == 0) {
                // the Location constructor itself agrees with projecting first
                for (int z = 0; z < NZ; z += 5) {
                    const osmium::Location loc = IsX ? osmium::Location{static_cast<int32_t>(L), static_cast<int32_t>(0)}
                                                     : osmium::Location{static_cast<int32_t>(0), static_cast<int32_t>(L)};
                    const g::Tile t{static_cast<uint32_t>(z), loc};
                    if ((IsX ? t.x : t.y) != cur[z] || t.z != static_cast<uint32_t>(z)) a.ctor[z].hit(L);
                }
            }
            std::memcpy(prev, cur, sizeof prev);
            have_prev = true;
        }
    });
    return "n=" + std::to_string(r.n) + fails_str("range", r.range) + fails_str("mono", r.mono) + fails_str("nest", r.nest) +
           fails_str("skipmono", r.skipmono) + fails_str("ctor", r.ctor) +
           " z30lo=" + std::to_string(r.hist_lo) + " z30mid=" + std::to_string(r.hist_mid) + " z30hi=" + std::to_string(r.hist_hi);
}

// ---- line ops ----------------------------------------------------------------------------------
static std::string run_op(const std::vector<std::string>& w) {
    const std::string& op = w[0];
    auto u64 = [&](std::size_t i) { return std::stoull(w.at(i), nullptr, 16); };
    auto i64 = [&](std::size_t i) { return std::stoll(w.at(i)); };
    if (op == "consts") {
        return "M=" + hex16(bits_of(g::detail::max_coordinate_epsg3857)) +
               " R=" + hex16(bits_of(g::detail::earth_radius_for_epsg3857)) +
               " d2r=" + hex16(bits_of(g::deg_to_rad(1.0))) +
               " r2d=" + hex16(bits_of(g::rad_to_deg(1.0))) +
               " maxlat=" + hex16(bits_of(g::MERCATOR_MAX_LAT)) +
               " maxzoom=" + std::to_string(static_cast<unsigned>(g::Tile::max_zoom)) +
               " prec=" + std::to_string(static_cast<long>(osmium::detail::coordinate_precision)) +
#ifdef OSMIUM_USE_SLOW_MERCATOR_PROJECTION
               " slow=1";
#else
               " slow=0";
#endif
    }
    if (op == "ext") {
        const auto z = static_cast<uint32_t>(i64(1));
        return canon(g::tile_extent_in_zoom(z)) + " " + std::to_string(g::num_tiles_in_zoom(z));
    }
    if (op == "tx") {
        const auto z = static_cast<uint32_t>(i64(1));
        const double x = from_bits(u64(2));
        GUARDED(return std::to_string(g::mercx_to_tilex(z, x)););
    }
    if (op == "ty") {
        const auto z = static_cast<uint32_t>(i64(1));
        const double y = from_bits(u64(2));
        GUARDED(return std::to_string(g::mercy_to_tiley(z, y)););
    }
    if (op == "tile") {
        const auto z = static_cast<uint32_t>(i64(1));
        const g::Coordinates c{from_bits(u64(2)), from_bits(u64(3))};
        GUARDED(const g::Tile t(z, c); return tile_str(t););
    }
    if (op == "tloc") {
        const auto z = static_cast<uint32_t>(i64(1));
        const osmium::Location loc{static_cast<int64_t>(i64(2)), static_cast<int64_t>(i64(3))};
        if (i64(2) < INT32_MIN || i64(2) > INT32_MAX || i64(3) < INT32_MIN || i64(3) > INT32_MAX) return "bad-op";
        try {
            GUARDED(const g::Tile t(z, loc); return tile_str(t););
        } catch (const osmium::invalid_location&) {
            return "invalid_location";
        }
    }
    if (op == "txyz") {
        const g::Tile t(static_cast<uint32_t>(i64(1)), static_cast<uint32_t>(i64(2)), static_cast<uint32_t>(i64(3)));
        return tile_str(t);
    }
    if (op == "merc") {
        const osmium::Location loc{static_cast<int64_t>(i64(1)), static_cast<int64_t>(i64(2))};
        try {
            const g::Coordinates c = g::lonlat_to_mercator(loc);
            // the functor must be the same function
            const g::Coordinates c2 = g::MercatorProjection{}(loc);
            if (bits_of(c.x) != bits_of(c2.x) || bits_of(c.y) != bits_of(c2.y)) return "functor-differs";
            return hex16(bits_of(c.x)) + " " + hex16(bits_of(c.y));
        } catch (const osmium::invalid_location&) {
            return "invalid_location";
        }
    }
    if (op == "lonx") {
        const osmium::Location loc{static_cast<int64_t>(i64(1)), static_cast<int64_t>(0)};
        return canon(g::detail::lon_to_x(loc.lon()));
    }
    if (op == "xlon") {
        return canon(g::detail::x_to_lon(from_bits(u64(1))));
    }
    if (op == "rtx") {
        const osmium::Location loc{static_cast<int64_t>(i64(1)), static_cast<int64_t>(0)};
        const double lon = g::detail::x_to_lon(g::detail::lon_to_x(loc.lon()));
        int64_t back = 0;
        if (!fix_back(lon, back)) return "ub";
        return std::to_string(back);
    }
    if (op == "scanlat") return scanlat(i64(1), i64(2), i64(3));
    if (op == "scanlon") return scanlon(i64(1), i64(2), i64(3));
    if (op == "montile") {
        if (w.at(1) == "x") return montile<true>(i64(2), i64(3), i64(4));
        if (w.at(1) == "y") return montile<false>(i64(2), i64(3), i64(4));
    }
    return "bad-op";
}

int main() {
#ifdef C18_TRAP
    struct sigaction sa;
    std::memset(&sa, 0, sizeof sa);
    sa.sa_handler = on_trap;
    sigaction(SIGILL, &sa, nullptr);
    sigaction(SIGTRAP, &sa, nullptr);
#endif
    return vh::line_loop([](const std::string& line) -> std::string {
        const auto w = vh::words(line);
        if (w.empty()) return "bad-op";
        try {
            return run_op(w);
        } catch (const std::exception&) {
            return "bad-op";
        }
    });
}
