// C14 harness: the REAL escaping / un-escaping functions on the op lines the Lean model
// driver (lean/Driver/C14.lean) also receives, plus property monitors on the
// implementation alone.
//
// correspondence ops (same output format as the model driver):
//   opl-esc <hex>     append_utf8_encoded_string            -> "ok <hex>" | "err invalid|incomplete"
//   opl-unesc <hex>   opl_parse_string                      -> "ok <hex> <unconsumed bytes>" | "err eol|nothex|toolong"
//   xml-esc <hex>     append_xml_encoded_string             -> "<hex>"
//   xml-unesc <hex>   expat parse of <a v="TEXT"/>          -> "ok <hex>" | "err"
//   blk <lo> <hi>     for every code point cp in [lo,hi): enc/oplesc/xmlesc/cp:len joined by ','
//                     (enc = append_codepoint_as_utf8, cp:len = next_utf8_codepoint on enc)
// monitors (implementation only):
//   opl-rt <hex>      escape, check no structural byte, opl_parse_string in front of every
//                     delimiter must return the original and stop at the delimiter -> "ok" | "fail:<why>"
//   xml-rt <hex>      escape, check no markup byte, expat must return the original     -> "ok" | "fail:<why>"
//   rt-blk <lo> <hi>  both monitors for every scalar value in [lo,hi) -> "opl <n> <cps..> xml <n> <cps..>"
//                     (number of failing code points and the failing ones, as maximal runs lo-hi)
//   e2e <fmt> <key> <value> <user> <role>   write a relation with the real Writer (fmt opl|osm),
//                     read it back with the real Reader -> "ok" | "fail:<why>" | "err:<exception>"
//   asan <len> <start> <count> <stride>   for byte strings of length len (numbered base 256,
//                     index = start + k*stride, k < count) in an exactly-sized heap buffer:
//                     call the three escaping functions; outcome must be what an independent
//                     statement of the exception clause says -> "ok <n_ok> <n_invalid> <n_incomplete>" | "fail:<hex>:<why>"
#include "common.hpp"

#include <osmium/builder/osm_object_builder.hpp>
#include <osmium/io/detail/opl_parser_functions.hpp>
#include <osmium/io/detail/string_util.hpp>
#include <osmium/io/opl_input.hpp>
#include <osmium/io/opl_output.hpp>
#include <osmium/io/reader.hpp>
#include <osmium/io/writer.hpp>
#include <osmium/io/xml_input.hpp>
#include <osmium/io/xml_output.hpp>
#include <osmium/memory/buffer.hpp>

#include <expat.h>
#include <unistd.h>

#include <cstdlib>
#include <cstring>
#include <iterator>
#include <stdexcept>

using namespace osmium::io::detail;

static std::string encode_cp(uint32_t cp) {
    std::string s;
    append_codepoint_as_utf8(cp, std::back_inserter(s));
    return s;
}

static bool is_scalar(uint32_t cp) {
    return cp >= 1 && cp < 0x110000 && !(cp >= 0xd800 && cp <= 0xdfff);
}

// ---- expat: attribute value of <a v="TEXT"/> ---------------------------------------------
struct ExpatResult {
    int nattr = 0;
    int nelem = 0;
    std::string value;
};

static void XMLCALL on_start(void* ud, const XML_Char* name, const XML_Char** attrs) {
    auto* r = static_cast<ExpatResult*>(ud);
    ++r->nelem;
    (void)name;
    for (int i = 0; attrs[i]; i += 2) {
        ++r->nattr;
        if (std::strcmp(attrs[i], "v") == 0) {
            r->value = attrs[i + 1];
        }
    }
}

static bool expat_attr(const std::string& text, std::string& out) {
    const std::string doc = "<a v=\"" + text + "\"/>";
    ExpatResult r;
    XML_Parser p = XML_ParserCreate("UTF-8");
    XML_SetUserData(p, &r);
    XML_SetStartElementHandler(p, on_start);
    const auto st = XML_Parse(p, doc.data(), static_cast<int>(doc.size()), 1);
    XML_ParserFree(p);
    if (st != XML_STATUS_OK || r.nattr != 1 || r.nelem != 1) {
        return false;
    }
    out = r.value;
    return true;
}

// ---- monitors ---------------------------------------------------------------------------------
static std::string opl_rt(const std::string& in) {
    std::string esc;
    try {
        append_utf8_encoded_string(esc, in.c_str());
    } catch (const std::exception&) {
        return "fail:escape-threw";
    }
    // no structural character; '%' only as delimiter of %hex+%
    bool in_esc = false;
    for (std::size_t i = 0; i < esc.size(); ++i) {
        const unsigned char c = static_cast<unsigned char>(esc[i]);
        if (c == ' ' || c == ',' || c == '=' || c == '@' || c == '\n' || c == '\r' || c == '\t' || c == 0) {
            return "fail:structural-" + std::to_string(c);
        }
        if (c == '%') {
            in_esc = !in_esc;
        } else if (in_esc && vh::hv(static_cast<char>(c)) < 0) {
            return "fail:percent-not-an-escape";
        }
    }
    if (in_esc) {
        return "fail:percent-not-an-escape";
    }
    static const char* delims[] = {"", " x", "\tx", ",x", "=x"};
    for (const char* d : delims) {
        const std::string line = esc + d;
        std::string back;
        const char* s = line.c_str();
        try {
            opl_parse_string(&s, back);
        } catch (const osmium::opl_error&) {
            return "fail:parser-threw";
        }
        if (back != in) {
            return "fail:roundtrip";
        }
        if (static_cast<std::size_t>(s - line.c_str()) != esc.size()) {
            return "fail:stopped-at-wrong-place";
        }
    }
    return "ok";
}

static std::string xml_rt(const std::string& in) {
    std::string esc;
    append_xml_encoded_string(esc, in.c_str());
    bool in_ref = false;
    for (const char ch : esc) {
        const unsigned char c = static_cast<unsigned char>(ch);
        if (c == '<' || c == '>' || c == '"' || c == '\'' || c == '\n' || c == '\r' || c == '\t') {
            return "fail:structural-" + std::to_string(c);
        }
        if (c == '&') {
            if (in_ref) return "fail:ampersand-not-a-reference";
            in_ref = true;
        } else if (c == ';' && in_ref) {
            in_ref = false;
        }
    }
    if (in_ref) {
        return "fail:ampersand-not-a-reference";
    }
    std::string back;
    if (!expat_attr(esc, back)) {
        return "fail:expat-rejects";
    }
    if (back != in) {
        return "fail:roundtrip";
    }
    return "ok";
}

static std::string runs(const std::vector<uint32_t>& v) {
    std::string out;
    char buf[64];
    for (std::size_t i = 0; i < v.size();) {
        std::size_t j = i;
        while (j + 1 < v.size() && v[j + 1] == v[j] + 1) ++j;
        std::snprintf(buf, sizeof(buf), " %x-%x", v[i], v[j]);
        out += buf;
        i = j + 1;
    }
    return out;
}

// ---- end to end ---------------------------------------------------------------------------------
static std::string e2e(const std::string& fmt, const std::string& key, const std::string& value,
                       const std::string& user, const std::string& role) {
    const std::string dir = std::getenv("C14_SCRATCH") ? std::getenv("C14_SCRATCH") : ".";
    const std::string path = dir + "/c14_e2e_" + std::to_string(getpid()) + "." + fmt;
    try {
        osmium::memory::Buffer buf{4096, osmium::memory::Buffer::auto_grow::yes};
        {
            osmium::builder::RelationBuilder b{buf};
            b.set_id(7).set_version(1).set_changeset(3).set_uid(5).set_visible(true)
                .set_timestamp(osmium::Timestamp{uint32_t{1000}}).set_user(user);
            {
                osmium::builder::RelationMemberListBuilder ml{buf, &b};
                ml.add_member(osmium::item_type::node, 11, role.c_str());
            }
            {
                osmium::builder::TagListBuilder tl{buf, &b};
                tl.add_tag(key, value);
            }
        }
        buf.commit();
        {
            osmium::io::File file{path, fmt};
            osmium::io::Writer writer{file, osmium::io::overwrite::allow};
            writer(std::move(buf));
            writer.close();
        }
        std::string why = "fail:no-relation";
        {
            osmium::io::File file{path, fmt};
            osmium::io::Reader reader{file};
            while (osmium::memory::Buffer rb = reader.read()) {
                for (const auto& rel : rb.select<osmium::Relation>()) {
                    why = "ok";
                    if (rel.tags().size() != 1) { why = "fail:tag-count"; continue; }
                    const auto& t = *rel.tags().begin();
                    if (key != t.key()) why = "fail:key";
                    else if (value != t.value()) why = "fail:value";
                    else if (user != rel.user()) why = "fail:user";
                    else if (rel.members().size() != 1) why = "fail:member-count";
                    else if (role != rel.members().begin()->role()) why = "fail:role";
                }
            }
            reader.close();
        }
        ::unlink(path.c_str());
        return why;
    } catch (const osmium::opl_error&) {
        ::unlink(path.c_str());
        return "err:opl_error";
    } catch (const osmium::xml_error&) {
        ::unlink(path.c_str());
        return "err:xml_error";
    } catch (const std::exception& e) {
        ::unlink(path.c_str());
        return std::string{"err:other:"} + e.what();
    }
}

// ---- independent statement of the exception clause ------------------------------------------
// 0 = no exception, 1 = invalid lead byte, 2 = incomplete sequence
static int spec_outcome(const unsigned char* s, std::size_t n) {
    std::size_t i = 0;
    while (i < n) {
        const unsigned char c = s[i];
        std::size_t len = 0;
        if (c < 0x80) len = 1;
        else if (c >= 0xc0 && c <= 0xdf) len = 2;
        else if (c >= 0xe0 && c <= 0xef) len = 3;
        else if (c >= 0xf0 && c <= 0xf7) len = 4;
        else return 1;
        if (n - i < len) return 2;
        i += len;
    }
    return 0;
}

template <typename F>
static int outcome_of(F&& f) {
    try {
        f();
    } catch (const std::out_of_range&) {
        return 2;
    } catch (const std::runtime_error&) {
        return 1;
    }
    return 0;
}

static std::string asan_range(unsigned len, uint64_t start, uint64_t count, uint64_t stride) {
    uint64_t n[3] = {0, 0, 0};
    uint64_t total = 1;
    for (unsigned i = 0; i < len; ++i) total *= 256;
    std::string out;
    for (uint64_t k = 0; k < count; ++k) {
        const uint64_t idx = start + k * stride;
        if (idx >= total) break;
        // exactly-sized heap block: bytes + terminating NUL, nothing readable after it
        char* p = static_cast<char*>(std::malloc(len + 1));
        uint64_t v = idx;
        for (unsigned i = 0; i < len; ++i) {
            p[len - 1 - i] = static_cast<char>(v & 0xff);
            v >>= 8;
        }
        p[len] = '\0';
        const std::size_t sl = std::strlen(p);
        const int want = spec_outcome(reinterpret_cast<const unsigned char*>(p), sl);
        out.clear();
        const int got1 = outcome_of([&]() { append_utf8_encoded_string(out, p); });
        out.clear();
        const int got2 = outcome_of([&]() { append_debug_encoded_string(out, p, "", ""); });
        out.clear();
        const int got3 = outcome_of([&]() { append_xml_encoded_string(out, p); });
        const bool bad = got1 != want || got2 != want || got3 != 0;
        if (bad) {
            const std::string h = vh::hex(std::string{p, sl});
            std::free(p);
            return "fail:" + h + ":outcome-opl" + std::to_string(got1) + "-debug" + std::to_string(got2) +
                   "-xml" + std::to_string(got3) + "-expected" + std::to_string(want);
        }
        ++n[want];
        std::free(p);
    }
    return "ok " + std::to_string(n[0]) + " " + std::to_string(n[1]) + " " + std::to_string(n[2]);
}

int main() {
    return vh::line_loop([](const std::string& line) -> std::string {
        const auto w = vh::words(line);
        if (w.empty()) return "bad-op";
        try {
            std::string in;
            if (w[0] == "opl-esc" && w.size() == 2 && vh::unhex(w[1], in)) {
                std::string out;
                try {
                    append_utf8_encoded_string(out, in.c_str());
                } catch (const std::out_of_range&) {
                    return "err incomplete";
                } catch (const std::runtime_error&) {
                    return "err invalid";
                }
                return "ok " + vh::hex(out);
            }
            if (w[0] == "opl-unesc" && w.size() == 2 && vh::unhex(w[1], in)) {
                std::string out;
                const char* s = in.c_str();
                try {
                    opl_parse_string(&s, out);
                } catch (const osmium::opl_error& e) {
                    const std::string m = e.what();
                    if (m.find("eol") != std::string::npos) return "err eol";
                    if (m.find("not a hex char") != std::string::npos) return "err nothex";
                    if (m.find("hex escape too long") != std::string::npos) return "err toolong";
                    return "err other";
                }
                const std::size_t rest = std::strlen(in.c_str()) - static_cast<std::size_t>(s - in.c_str());
                return "ok " + vh::hex(out) + " " + std::to_string(rest);
            }
            if (w[0] == "xml-esc" && w.size() == 2 && vh::unhex(w[1], in)) {
                std::string out;
                append_xml_encoded_string(out, in.c_str());
                return vh::hex(out);
            }
            if (w[0] == "xml-unesc" && w.size() == 2 && vh::unhex(w[1], in)) {
                std::string out;
                if (!expat_attr(in, out)) return "err";
                return "ok " + vh::hex(out);
            }
            if (w[0] == "blk" && w.size() == 3) {
                const uint32_t lo = static_cast<uint32_t>(std::stoul(w[1]));
                const uint32_t hi = static_cast<uint32_t>(std::stoul(w[2]));
                std::string out;
                for (uint32_t cp = lo; cp < hi; ++cp) {
                    const std::string enc = encode_cp(cp);
                    std::string o;
                    std::string x;
                    append_utf8_encoded_string(o, enc.c_str());
                    append_xml_encoded_string(x, enc.c_str());
                    const char* it = enc.c_str();
                    const uint32_t dec = next_utf8_codepoint(&it, enc.c_str() + enc.size());
                    if (cp != lo) out += ',';
                    out += vh::hex(enc) + "/" + vh::hex(o) + "/" + vh::hex(x) + "/" + std::to_string(dec) + ":" +
                           std::to_string(it - enc.c_str());
                }
                return out;
            }
            if (w[0] == "opl-rt" && w.size() == 2 && vh::unhex(w[1], in)) {
                return opl_rt(in);
            }
            if (w[0] == "xml-rt" && w.size() == 2 && vh::unhex(w[1], in)) {
                return xml_rt(in);
            }
            if (w[0] == "rt-blk" && w.size() == 3) {
                const uint32_t lo = static_cast<uint32_t>(std::stoul(w[1]));
                const uint32_t hi = static_cast<uint32_t>(std::stoul(w[2]));
                std::vector<uint32_t> fo;
                std::vector<uint32_t> fx;
                for (uint32_t cp = lo; cp < hi; ++cp) {
                    if (!is_scalar(cp)) continue;
                    const std::string enc = encode_cp(cp);
                    if (opl_rt(enc) != "ok") fo.push_back(cp);
                    if (xml_rt(enc) != "ok") fx.push_back(cp);
                }
                return "opl " + std::to_string(fo.size()) + runs(fo) + " xml " + std::to_string(fx.size()) + runs(fx);
            }
            if (w[0] == "e2e" && w.size() == 6) {
                std::string k, v, u, r;
                if (!vh::unhex(w[2], k) || !vh::unhex(w[3], v) || !vh::unhex(w[4], u) || !vh::unhex(w[5], r)) return "bad-op";
                return e2e(w[1], k, v, u, r);
            }
            if (w[0] == "asan" && w.size() == 5) {
                return asan_range(static_cast<unsigned>(std::stoul(w[1])), std::stoull(w[2]), std::stoull(w[3]), std::stoull(w[4]));
            }
        } catch (const std::exception& e) {
            return std::string{"harness-exception:"} + e.what();
        }
        return "bad-op";
    });
}
