// C20 harness (diff part): the REAL osmium::DiffIterator / osmium::apply_diff / DiffHandler.
//
//   diff <entry> <nh> <tokens...>
//       tokens   <t>:<id>:<version>  t in n w r a  (an OSMObject), or a bare type char of a
//                non-object item (c T N ...: skipped by the OSMObject iterators), "|" = next buffer
//       entry    it  itc   DiffIterator over buf.begin<OSMObject>() / cbegin<OSMObject>()
//                itr       DiffIterator over InputIterator<source, OSMObject> (several buffers)
//                ad  adc   osmium::apply_diff(begin, end, handlers...) with <nh> DiffHandlers (1..3)
//                adr       osmium::apply_diff(source, handlers...)
//       -> it*: one "<prev>,<curr>,<next>,<first>,<last>" per position (positions count ALL items)
//          ad*: one "<h>:<callback>:<prev>,<curr>,<next>,<first>,<last>" per call;
//          " !unknown_type" when osmium::unknown_type left apply_diff; " accessor-mismatch" if
//          DiffObject::type()/id()/version() are not those of curr()
//   drive <entry> <script> <tokens...>      entry in it itc itr
//       two DiffIterator objects a (fresh) and b (a copy of a) are driven by the script, one char per
//       operation ('.' = separator, ignored):
//         d use(*a)   r use(*a.operator->())   i ++a   p use(*a++)   a std::advance(a, 2)
//         c b = a     s a = b                  e use(*b)   j ++b   q use(*b++)
//         = a == end  ~ a == b
//       -> per dereference "<prev>,<curr>,<next>,<first>,<last>", "@" for an operation that needs a
//          dereferenceable iterator but stands at the end (NOT executed; decided by a position counter
//          kept by the harness, not by asking the iterator), "E0|E1", "Q0|Q1" for the comparisons
#include "c20_common.hpp"

#include <osmium/diff_handler.hpp>
#include <osmium/diff_iterator.hpp>
#include <osmium/diff_visitor.hpp>

using namespace c20;

static bool g_accessor_mismatch = false;

static std::string diff_str(const osmium::DiffObject& d) {
    if (d.type() != d.curr().type() || d.id() != d.curr().id() || d.version() != d.curr().version()) {
        g_accessor_mismatch = true;
    }
    return std::to_string(env().position(&d.prev())) + "," + std::to_string(env().position(&d.curr())) + "," +
           std::to_string(env().position(&d.next())) + "," + (d.first() ? "1" : "0") + "," + (d.last() ? "1" : "0");
}

struct DLog : public osmium::diff_handler::DiffHandler {
    int h;
    explicit DLog(int h_) : h(h_) {}
    void node(const osmium::DiffNode& d) { env().event(std::to_string(h) + ":node:" + diff_str(d)); }
    void way(const osmium::DiffWay& d) { env().event(std::to_string(h) + ":way:" + diff_str(d)); }
    void relation(const osmium::DiffRelation& d) { env().event(std::to_string(h) + ":relation:" + diff_str(d)); }
};

struct Tok { char t; int64_t id; uint32_t v; };

template <typename It>
static void iterate(It first, It last) {
    osmium::DiffIterator<It> dit{first, last};
    const osmium::DiffIterator<It> dend{last, last};
    for (; dit != dend; ++dit) {
        env().event(diff_str(*dit));
    }
}

template <typename It>
static bool drive(const std::string& script, int n, It first, It last) {
    using DI = osmium::DiffIterator<It>;
    DI a{first, last};
    DI b{a};
    const DI dend{last, last};
    int pa = 0;
    int pb = 0;
    for (const char c : script) {
        switch (c) {
            case '.': break;
            case 'd': if (pa < n) { env().event(diff_str(*a)); } else { env().event("@"); } break;
            case 'r': if (pa < n) { env().event(diff_str(*a.operator->())); } else { env().event("@"); } break;
            case 'i': if (pa < n) { ++a; ++pa; } else { env().event("@"); } break;
            case 'p': if (pa < n) { env().event(diff_str(*a++)); ++pa; } else { env().event("@"); } break;
            case 'a': if (pa + 1 < n) { std::advance(a, 2); pa += 2; } else { env().event("@"); } break;
            case 'c': b = a; pb = pa; break;
            case 's': a = b; pa = pb; break;
            case 'e': if (pb < n) { env().event(diff_str(*b)); } else { env().event("@"); } break;
            case 'j': if (pb < n) { ++b; ++pb; } else { env().event("@"); } break;
            case 'q': if (pb < n) { env().event(diff_str(*b++)); ++pb; } else { env().event("@"); } break;
            case '=': env().event(a == dend ? "E1" : "E0"); break;
            case '~': env().event(a == b ? "Q1" : "Q0"); break;
            default: return false;
        }
    }
    return true;
}

template <typename It>
static void apply_n(int nh, It first, It last) {
    DLog a{0}, b{1}, c{2};
    if (nh == 1) osmium::apply_diff(first, last, a);
    else if (nh == 2) osmium::apply_diff(first, last, a, b);
    else osmium::apply_diff(first, last, a, b, c);
}

int main() {
    return vh::line_loop([](const std::string& line) -> std::string {
        const auto w = vh::words(line);
        if (w.size() < 3 || (w[0] != "diff" && w[0] != "drive")) return "bad-op";
        const bool driving = w[0] == "drive";
        const std::string& e = w[1];
        const int nh = driving ? 0 : std::atoi(w[2].c_str());
        const bool reader = e == "itr" || e == "adr";
        if (!driving && (e[0] == 'a') && (nh < 1 || nh > 3)) return "bad-op";
        if (driving && e != "it" && e != "itc" && e != "itr") return "bad-op";
        int nobj = 0;
        std::vector<std::vector<Tok>> groups(1);
        for (std::size_t i = 3; i < w.size(); ++i) {
            if (w[i] == "|") { groups.emplace_back(); continue; }
            Tok t{};
            item_type ty{};
            if (!type_of_char(w[i][0], ty)) return "bad-op";
            t.t = w[i][0];
            if (w[i].size() > 1) {
                if (std::string{"nwra"}.find(t.t) == std::string::npos) return "bad-op";
                long long id = 0; unsigned v = 0;
                if (std::sscanf(w[i].c_str() + 1, ":%lld:%u", &id, &v) != 2) return "bad-op";
                t.id = id; t.v = v;
                ++nobj;
            } else if (std::string{"nwra"}.find(t.t) != std::string::npos) {
                return "bad-op";
            }
            groups.back().push_back(t);
        }
        env().reset();
        g_accessor_mismatch = false;
        Buffer whole{4096, Buffer::auto_grow::yes};
        FakeSource source;
        if (reader) {
            for (const auto& g : groups) {
                Buffer b{1024, Buffer::auto_grow::yes};
                for (const auto& t : g) add_item(b, t.t, t.id, t.v, false);
                env().register_buffer(b);
                source.buffers.push_back(std::move(b));
            }
        } else {
            for (const auto& g : groups)
                for (const auto& t : g) add_item(whole, t.t, t.id, t.v, false);
            env().register_buffer(whole);
        }
        const Buffer& cwhole = whole;
        using osmium::OSMObject;
        using InIt = osmium::io::InputIterator<FakeSource, OSMObject>;
        bool thrown = false;
        try {
            if (driving) {
                bool ok = false;
                if (e == "it") ok = drive(w[2], nobj, whole.begin<OSMObject>(), whole.end<OSMObject>());
                else if (e == "itc") ok = drive(w[2], nobj, cwhole.cbegin<OSMObject>(), cwhole.cend<OSMObject>());
                else ok = drive(w[2], nobj, InIt{source}, InIt{});
                if (!ok) return "bad-op";
            }
            else if (e == "it") iterate(whole.begin<OSMObject>(), whole.end<OSMObject>());
            else if (e == "itc") iterate(cwhole.cbegin<OSMObject>(), cwhole.cend<OSMObject>());
            else if (e == "itr") iterate(InIt{source}, InIt{});
            else if (e == "ad") apply_n(nh, whole.begin<OSMObject>(), whole.end<OSMObject>());
            else if (e == "adc") apply_n(nh, cwhole.cbegin<OSMObject>(), cwhole.cend<OSMObject>());
            else if (e == "adr") {
                DLog a{0}, b{1}, c{2};
                if (nh == 1) osmium::apply_diff(source, a);
                else if (nh == 2) osmium::apply_diff(source, a, b);
                else osmium::apply_diff(source, a, b, c);
            } else return "bad-op";
        } catch (const osmium::unknown_type&) {
            thrown = true;
        } catch (const std::exception& ex) {
            return std::string{"exception:"} + ex.what();
        }
        return env().result() + (thrown ? " !unknown_type" : "") + (g_accessor_mismatch ? " accessor-mismatch" : "");
    });
}
