// C19 harness: REAL osmium::thread::Queue / osmium::thread::Pool under real threads.
//
// stdin: one scenario per line
//   queue elem=<int|tag> P=<1..8> C=<1..8> max=<0..> n=<per producer> mode=<drain|sdmid|sdidle> try=<0|1> pl=<0..2> ps=<seed>
//   pool  N=<1..32> max=<0..> S=<submitters> n=<tasks per submitter> mode=<get-first|destroy-first> mix=<task mix> pl=<0..2> ps=<seed>
//         (task kinds, by id and mix: value / void / throws std::runtime_error / a class derived from std::exception /
//          int / a struct NOT derived from std::exception / std::string — see run_pool)
// stdout per scenario:
//   BEGIN <scenario>
//   E <tid> <tag> <qid> <arg> <payload>      lock-granular event trace (see below)
//   MON <monitor> <ok|FAIL> <detail>         property monitors evaluated on the implementation
//   OBS k=v ...                              final observations (queue size, ...)
//   END <ok|timeout>
//
// Trace.  The library calls osmium_verif_point(tag, obj, arg) at its OSMIUM_VERIF_POINTs
// (queue.hpp / pool.hpp).  All tags but push-enter/shutdown-flag are emitted while the queue
// mutex is held, so their order in the trace (appended under the harness's own lock, inside
// the critical section) is the order of the critical sections.  The harness adds its own
// call/return markers (push-return, pop-return, trypop-return, shutdown-enter,
// shutdown-return, task-run, future-get, dtor-start, dtor-done); these are ordered per
// thread only.  After logging, the hook perturbs the schedule (seeded yield / 0–200 µs
// sleep, also inside critical sections).
// A watchdog (20 s per scenario) prints the trace prefix and exits with code 3; a
// std::terminate() anywhere in the process (e.g. an exception leaving a pool worker's thread
// function) prints the trace prefix and `MON no-terminate FAIL …` and exits with code 4.
#include "common.hpp"

#include <osmium/thread/pool.hpp>
#include <osmium/thread/queue.hpp>

#include <atomic>
#include <chrono>
#include <cxxabi.h>
#include <cstdlib>
#include <cstring>
#include <dirent.h>
#include <exception>
#include <future>
#include <map>
#include <memory>
#include <mutex>
#include <stdexcept>
#include <thread>
#include <typeinfo>
#include <unistd.h>

namespace {

struct Event {
    int tid;
    const char* tag;
    int qid;
    std::size_t arg;
    long long payload; // -1 = none
};

std::mutex g_trace_mutex;
std::vector<Event> g_trace;
std::map<const void*, int> g_qids;
std::atomic<int> g_next_worker_tid{200};
std::atomic<unsigned> g_epoch{0};
int g_perturb_level = 0;
uint64_t g_perturb_seed = 0;
std::atomic<bool> g_tracing{false};

std::atomic<long long> g_deadline_ms{0}; // 0 = watchdog idle
std::string g_current_scenario;

long long now_ms() {
    return std::chrono::duration_cast<std::chrono::milliseconds>(std::chrono::steady_clock::now().time_since_epoch()).count();
}

struct ThreadCtx {
    unsigned epoch = 0;
    int tid = -1;
    long long payload = -1;   // element being pushed by this thread
    bool stop_mode = false;   // thread is running ~Pool: payloads are stop tasks
    long long stop_counter = 0;
    vh::SplitMix64 rng{0};
};
thread_local ThreadCtx t_ctx;

constexpr long long STOP_BASE = 900000000LL;

void set_tid(int tid) {
    t_ctx.epoch = g_epoch.load();
    t_ctx.tid = tid;
    t_ctx.payload = -1;
    t_ctx.stop_mode = false;
    t_ctx.stop_counter = 0;
    t_ctx.rng = vh::SplitMix64{g_perturb_seed * 1000003ULL + static_cast<uint64_t>(tid)};
}

int my_tid() {
    if (t_ctx.epoch != g_epoch.load() || t_ctx.tid < 0) {
        set_tid(g_next_worker_tid++); // a thread created by the library (pool worker)
    }
    return t_ctx.tid;
}

void perturb() {
    if (g_perturb_level == 0) {
        return;
    }
    const auto r = t_ctx.rng.below(100);
    if (g_perturb_level == 1) {
        if (r < 30) {
            std::this_thread::yield();
        }
        return;
    }
    if (r < 25) {
        std::this_thread::yield();
    } else if (r < 40) {
        std::this_thread::sleep_for(std::chrono::microseconds(t_ctx.rng.below(201)));
    }
}

void log_event(const char* tag, const void* obj, std::size_t arg, long long payload) {
    const int tid = my_tid();
    {
        const std::lock_guard<std::mutex> lock{g_trace_mutex};
        int qid = 0;
        if (obj) {
            auto it = g_qids.find(obj);
            if (it == g_qids.end()) {
                it = g_qids.emplace(obj, static_cast<int>(g_qids.size()) + 1).first;
            }
            qid = it->second;
        }
        g_trace.push_back(Event{tid, tag, qid, arg, payload});
    }
    perturb();
}

void print_trace() {
    std::string out;
    char buf[160];
    const std::lock_guard<std::mutex> lock{g_trace_mutex};
    for (const auto& e : g_trace) {
        if (e.payload < 0) {
            std::snprintf(buf, sizeof(buf), "E %d %s %d %zu -\n", e.tid, e.tag, e.qid, e.arg);
        } else {
            std::snprintf(buf, sizeof(buf), "E %d %s %d %zu %lld\n", e.tid, e.tag, e.qid, e.arg, e.payload);
        }
        out += buf;
    }
    std::fwrite(out.data(), 1, out.size(), stdout);
}

void watchdog_main() {
    while (true) {
        std::this_thread::sleep_for(std::chrono::milliseconds(50));
        const long long d = g_deadline_ms.load();
        if (d != 0 && now_ms() > d) {
            print_trace();
            std::printf("MON watchdog FAIL scenario-did-not-finish-within-20s (blocked thread / lost wake-up / join never returns)\n");
            std::printf("END timeout\n");
            std::fflush(stdout);
            _exit(3);
        }
    }
}

int count_threads() {
    int n = 0;
    if (DIR* d = opendir("/proc/self/task")) {
        while (const dirent* e = readdir(d)) {
            if (e->d_name[0] != '.') {
                ++n;
            }
        }
        closedir(d);
    }
    return n;
}

// Number of live pool worker threads of this process (thread name "_osmium_worker", set by
// Pool::worker_thread). Counting all tasks is not robust: a joined thread can linger in /proc
// for a moment and the harness has threads of its own.
int count_workers() {
    int n = 0;
    if (DIR* d = opendir("/proc/self/task")) {
        while (const dirent* e = readdir(d)) {
            if (e->d_name[0] == '.') {
                continue;
            }
            const std::string path = std::string{"/proc/self/task/"} + e->d_name + "/comm";
            if (FILE* f = std::fopen(path.c_str(), "r")) {
                char buf[64] = {0};
                if (std::fgets(buf, sizeof(buf), f) && std::strncmp(buf, "_osmium_worker", 14) == 0) {
                    ++n;
                }
                std::fclose(f);
            }
        }
        closedir(d);
    }
    return n;
}

// poll (up to `ms` milliseconds) until the number of worker threads is `want`
int wait_for_workers(int want, int ms) {
    int n = count_workers();
    for (int i = 0; i < ms && n != want; ++i) {
        std::this_thread::sleep_for(std::chrono::milliseconds{1});
        n = count_workers();
    }
    return n;
}

std::map<std::string, std::string> parse_kv(const std::vector<std::string>& w) {
    std::map<std::string, std::string> m;
    for (std::size_t i = 1; i < w.size(); ++i) {
        const auto p = w[i].find('=');
        if (p != std::string::npos) {
            m[w[i].substr(0, p)] = w[i].substr(p + 1);
        }
    }
    return m;
}

long long geti(const std::map<std::string, std::string>& m, const char* k, long long def) {
    const auto it = m.find(k);
    return it == m.end() ? def : std::atoll(it->second.c_str());
}

void begin_scenario(const std::string& line, int pl, uint64_t ps) {
    ++g_epoch;
    {
        const std::lock_guard<std::mutex> lock{g_trace_mutex};
        g_trace.clear();
        g_qids.clear();
    }
    g_next_worker_tid = 200;
    g_perturb_level = pl;
    g_perturb_seed = ps;
    g_current_scenario = line;
    set_tid(0);
    std::printf("BEGIN %s\n", line.c_str());
    g_deadline_ms = now_ms() + 20000;
    g_tracing = true;
}

void end_scenario() {
    g_tracing = false;
    g_deadline_ms = 0;
    print_trace();
}

// ---------------------------------------------------------------- queue scenarios

constexpr long long PROD_MUL = 100000;

struct Tagged {
    uint32_t prod = 0;
    uint32_t seq = 0;
    uint64_t check = 0; // prod*PROD_MUL+seq, detects torn/mixed elements
};

template <typename T> struct Codec;
template <> struct Codec<int> {
    static int make(int prod, int seq) { return static_cast<int>(prod * PROD_MUL + seq); }
    static long long id(const int& v) { return v; }
    static bool valid(const int&) { return true; }
};
template <> struct Codec<Tagged> {
    static Tagged make(int prod, int seq) {
        return Tagged{static_cast<uint32_t>(prod), static_cast<uint32_t>(seq), static_cast<uint64_t>(prod * PROD_MUL + seq)};
    }
    static long long id(const Tagged& v) { return static_cast<long long>(v.prod) * PROD_MUL + v.seq; }
    static bool valid(const Tagged& v) { return v.check == static_cast<uint64_t>(v.prod) * PROD_MUL + v.seq; }
};

template <typename T>
void run_queue(const std::string& line, const std::map<std::string, std::string>& kv) {
    const int P = static_cast<int>(geti(kv, "P", 1));
    const int C = static_cast<int>(geti(kv, "C", 1));
    const std::size_t max = static_cast<std::size_t>(geti(kv, "max", 0));
    const int n = static_cast<int>(geti(kv, "n", 10));
    const std::string mode = kv.count("mode") ? kv.at("mode") : "drain";
    const bool use_try = geti(kv, "try", 0) != 0;
    begin_scenario(line, static_cast<int>(geti(kv, "pl", 0)), static_cast<uint64_t>(geti(kv, "ps", 1)));

    const long long total = static_cast<long long>(P) * n;
    std::atomic<long long> consumed{0};
    std::atomic<int> consumers_returned{0};
    std::vector<std::vector<long long>> got(static_cast<std::size_t>(C));
    std::atomic<bool> bad_element{false};
    std::atomic<int> producers_done{0};
    std::vector<long long> late; // taken by the main thread after shutdown()
    std::size_t final_size = 0;
    {
        osmium::thread::Queue<T> q{max, "c19"};
        log_event("q-new", &q, max, -1);

        std::vector<std::thread> producers;
        std::vector<std::thread> consumers;
        for (int c = 0; c < C; ++c) {
            consumers.emplace_back([&, c] {
                set_tid(100 + c);
                vh::SplitMix64 rng{g_perturb_seed * 7919ULL + static_cast<uint64_t>(c)};
                while (true) {
                    T v = Codec<T>::make(0, 0);
                    bool have = false;
                    if (use_try && rng.below(3) == 0) {
                        have = q.try_pop(v);
                        log_event("trypop-return", &q, have ? 1 : 0, have ? Codec<T>::id(v) : -1);
                        if (!have) {
                            if (!q.in_use()) {
                                break;
                            }
                            std::this_thread::yield();
                            continue;
                        }
                    } else {
                        // wait_and_pop leaves v untouched when it returns without an element
                        T sentinel = Codec<T>::make(0, 0);
                        v = sentinel;
                        q.wait_and_pop(v);
                        have = Codec<T>::id(v) != 0;
                        log_event("pop-return", &q, have ? 1 : 0, have ? Codec<T>::id(v) : -1);
                        if (!have) {
                            break; // only possible when the queue is not in use any more
                        }
                    }
                    if (!Codec<T>::valid(v)) {
                        bad_element = true;
                    }
                    got[static_cast<std::size_t>(c)].push_back(Codec<T>::id(v));
                    ++consumed;
                }
                ++consumers_returned;
            });
        }
        for (int p = 0; p < P; ++p) {
            producers.emplace_back([&, p] {
                set_tid(1 + p);
                for (int i = 1; i <= n; ++i) {
                    T v = Codec<T>::make(p + 1, i);
                    t_ctx.payload = Codec<T>::id(v);
                    q.push(std::move(v));
                    log_event("push-return", &q, 0, t_ctx.payload);
                    t_ctx.payload = -1;
                }
                ++producers_done;
            });
        }

        if (mode == "drain") {
            // everything is consumed, THEN the queue is shut down: nothing may be lost
            for (auto& t : producers) {
                t.join();
            }
            while (consumed.load() < total) {
                std::this_thread::sleep_for(std::chrono::microseconds(100));
            }
        } else if (mode == "sdidle") {
            // like drain, but give the consumers time to block in wait() before the shutdown
            for (auto& t : producers) {
                t.join();
            }
            while (consumed.load() < total) {
                std::this_thread::sleep_for(std::chrono::microseconds(100));
            }
            std::this_thread::sleep_for(std::chrono::milliseconds(2));
        } else { // sdmid: shut down while producers and consumers are active
            vh::SplitMix64 rng{g_perturb_seed * 31ULL + 5};
            const long long target = static_cast<long long>(rng.below(static_cast<uint64_t>(total) + 1));
            const long long give_up = now_ms() + 200;
            while (consumed.load() < target && now_ms() < give_up) {
                std::this_thread::yield();
            }
        }
        log_event("shutdown-enter", &q, 0, -1);
        q.shutdown();
        log_event("shutdown-return", &q, 0, -1);
        // Producers that passed the m_in_use test before the flag was set still enqueue; on a
        // bounded queue the others keep polling `while (size() >= max)` (the loop does not look
        // at m_in_use again), so somebody has to keep taking elements until they are through.
        while (producers_done.load() < P) {
            T v = Codec<T>::make(0, 0);
            const bool have = q.try_pop(v);
            log_event("trypop-return", &q, have ? 1 : 0, have ? Codec<T>::id(v) : -1);
            if (have) {
                late.push_back(Codec<T>::id(v));
            } else {
                std::this_thread::sleep_for(std::chrono::microseconds(200));
            }
        }
        for (auto& t : producers) {
            if (t.joinable()) {
                t.join();
            }
        }
        for (auto& t : consumers) {
            t.join(); // a consumer that is never woken is caught by the watchdog
        }
        final_size = q.size();
    }
    end_scenario();

    // ---- monitors on the implementation
    // per-consumer sequences are per-producer FIFO
    bool fifo_ok = true;
    std::string fifo_detail = "-";
    std::map<long long, int> seen;
    for (int c = 0; c < C; ++c) {
        std::map<long long, long long> last;
        for (const long long id : got[static_cast<std::size_t>(c)]) {
            const long long prod = id / PROD_MUL;
            const long long seq = id % PROD_MUL;
            if (last.count(prod) && last[prod] >= seq && fifo_ok) {
                fifo_ok = false;
                fifo_detail = "consumer=" + std::to_string(c) + ",producer=" + std::to_string(prod) + ",seq=" + std::to_string(seq) + ",after=" + std::to_string(last[prod]);
            }
            last[prod] = seq;
            ++seen[id];
        }
    }
    for (const long long id : late) {
        ++seen[id];
    }
    std::printf("MON per-producer-fifo %s %s\n", fifo_ok ? "ok" : "FAIL", fifo_detail.c_str());
    // no duplicate, nothing invented; in drain modes nothing lost
    bool dup_ok = true;
    bool invented_ok = true;
    std::string d1 = "-";
    for (const auto& kvp : seen) {
        const long long prod = kvp.first / PROD_MUL;
        const long long seq = kvp.first % PROD_MUL;
        if (kvp.second != 1 && dup_ok) {
            dup_ok = false;
            d1 = "element=" + std::to_string(kvp.first) + ",times=" + std::to_string(kvp.second);
        }
        if (prod < 1 || prod > P || seq < 1 || seq > n) {
            invented_ok = false;
        }
    }
    std::printf("MON no-duplicate %s %s\n", dup_ok ? "ok" : "FAIL", d1.c_str());
    std::printf("MON no-invented-element %s -\n", (invented_ok && !bad_element) ? "ok" : "FAIL");
    if (mode != "sdmid") {
        const bool all = static_cast<long long>(seen.size()) == total;
        std::printf("MON no-loss-while-in-use %s received=%zu,pushed=%lld\n", all ? "ok" : "FAIL", seen.size(), total);
    }
    std::printf("MON consumers-returned-after-shutdown %s %d/%d\n", consumers_returned.load() == C ? "ok" : "FAIL", consumers_returned.load(), C);
    std::printf("OBS final_size=%zu consumed=%lld total=%lld\n", final_size, consumed.load(), total);
    std::printf("END ok\n");
    std::fflush(stdout);
}

// ---------------------------------------------------------------- pool scenarios

// Task kinds (what the submitted function does), outcome code = index in this list:
//   0 v  returns a value                         future<long long>  model outcome v.<3id+1>
//   1 u  returns void                            future<void>       v.0
//   2 r  throws std::runtime_error("t<id>")                         s.0.<id>
//   3 c  throws TaskError{id} (derived from std::exception)         s.1.<id>
//   4 i  throws int{id}                                             o.0.<id>
//   5 f  throws Foreign{id,"foreign"} (NOT derived from std::exception) o.1.<id>
//   6 s  throws std::string("s<id>")                                o.2.<id>
// Observed-only codes (never expected): 7 broken promise / future_error, 8 unknown exception
// type, 9 right type with a damaged payload.
constexpr int KIND_COUNT = 7;
const char KIND_LETTER[] = "vurcifs";

struct TaskError : std::exception {
    long long code;
    explicit TaskError(long long c) : code(c) {}
    const char* what() const noexcept override { return "task-error"; }
};

struct Foreign { // what a callback into some other library might throw
    long long code;
    std::string tag;
};

// kind of task `id`: any 7 consecutive ids contain every kind once (stride coprime to 7), the
// kind of the first task and the order vary with mix
inline int task_kind(long long id, uint64_t mix) {
    static const int stride[] = {1, 2, 3, 4, 5, 6};
    return static_cast<int>((static_cast<uint64_t>(id) * static_cast<uint64_t>(stride[(mix / 7) % 6]) + mix) % KIND_COUNT);
}
inline bool task_slow(long long id, uint64_t mix) { return ((static_cast<uint64_t>(id) * 40503ULL + mix) >> 5) % 3 == 0; }
inline long long task_value(long long id) { return id * 3 + 1; }
inline long long task_payload(long long id, int kind) { return kind == 0 ? task_value(id) : kind == 1 ? 0 : id; }

std::string outcome_text(int code, long long payload) {
    switch (code) {
        case 0: case 1: return "v." + std::to_string(payload);
        case 2: return "s.0." + std::to_string(payload);
        case 3: return "s.1." + std::to_string(payload);
        case 4: return "o.0." + std::to_string(payload);
        case 5: return "o.1." + std::to_string(payload);
        case 6: return "o.2." + std::to_string(payload);
        case 7: return "future-error";
        case 8: return "unknown-exception-type";
        default: return "damaged-payload";
    }
}

thread_local long long t_running_task = -1; // id of the task this thread is executing

// the body of every task: log, count, maybe sleep, then end as the kind says
void task_body(int id, int kind, uint64_t mix, std::vector<std::atomic<int>>& run_count) {
    log_event("task-run", nullptr, 0, id);
    t_running_task = id;
    ++run_count[static_cast<std::size_t>(id)];
    if (task_slow(id, mix)) {
        std::this_thread::sleep_for(std::chrono::microseconds(100 + (id % 5) * 100));
    }
    switch (kind) {
        case 2: throw std::runtime_error{"t" + std::to_string(id)};
        case 3: throw TaskError{id};
        case 4: throw static_cast<int>(id);
        case 5: throw Foreign{id, "foreign"};
        case 6: throw std::string{"s" + std::to_string(id)};
        default: break;
    }
    t_running_task = -1;
}

// std::terminate() somewhere in the process (an exception left a thread function, a joinable
// thread was destroyed, …): report it as a monitor failure of the current scenario instead of
// dying silently with SIGABRT.
[[noreturn]] void terminate_handler() {
    static std::atomic<bool> once{false};
    if (once.exchange(true)) {
        std::this_thread::sleep_for(std::chrono::seconds(5)); // another thread is reporting
        _exit(4);
    }
    std::string type = "none";
    std::string what;
    if (std::exception_ptr p = std::current_exception()) {
        if (const std::type_info* ti = abi::__cxa_current_exception_type()) {
            int status = 0;
            char* dn = abi::__cxa_demangle(ti->name(), nullptr, nullptr, &status);
            type = (status == 0 && dn) ? dn : ti->name();
            std::free(dn);
        }
        try {
            std::rethrow_exception(p);
        } catch (const std::exception& e) {
            what = e.what();
        } catch (...) {
        }
    }
    for (auto& ch : type) {
        if (ch == ' ') {
            ch = '_';
        }
    }
    for (auto& ch : what) {
        if (ch == ' ' || ch == '\n') {
            ch = '_';
        }
    }
    const int tid = (t_ctx.epoch == g_epoch.load()) ? t_ctx.tid : -1;
    print_trace();
    std::printf("MON no-terminate FAIL std::terminate()-called-in-thread=%d,while-running-task=%lld,active-exception-type=%s,what=%s"
                " (an exception thrown by a task did not arrive in its future but left the worker's thread function; all queued tasks are lost with the process)\n",
                tid, t_running_task, type.c_str(), what.empty() ? "-" : what.c_str());
    std::printf("END terminate\n");
    std::fflush(stdout);
    _exit(4);
}

void run_pool(const std::string& line, const std::map<std::string, std::string>& kv) {
    const int N = static_cast<int>(geti(kv, "N", 1));
    const std::size_t max = static_cast<std::size_t>(geti(kv, "max", 0));
    const int S = static_cast<int>(geti(kv, "S", 1));
    const int n = static_cast<int>(geti(kv, "n", 5));
    const std::string mode = kv.count("mode") ? kv.at("mode") : "get-first";
    const uint64_t mix = static_cast<uint64_t>(geti(kv, "mix", 0));
    begin_scenario(line, static_cast<int>(geti(kv, "pl", 0)), static_cast<uint64_t>(geti(kv, "ps", 1)));

    const int total = S * n;
    std::vector<std::atomic<int>> run_count(static_cast<std::size_t>(total) + 1);
    for (auto& r : run_count) {
        r = 0;
    }
    // kind 1 tasks are void functions (std::future<void>), all others return long long
    std::vector<std::future<long long>> futures(static_cast<std::size_t>(total) + 1);
    std::vector<std::future<void>> vfutures(static_cast<std::size_t>(total) + 1);
    std::vector<std::string> fut_result(static_cast<std::size_t>(total) + 1);
    const int threads_before = count_workers();
    int threads_during = 0;
    int threads_before_dtor = 0;
    bool all_ready_after_dtor = true;

    // future.get(): the value, or the SAME exception (dynamic type and payload) the task threw
    auto get_future = [&](int id) {
        const int kind = task_kind(id, mix);
        int code = 8;
        long long payload = 0;
        try {
            if (kind == 1) {
                vfutures[static_cast<std::size_t>(id)].get();
                code = 1;
            } else {
                payload = futures[static_cast<std::size_t>(id)].get();
                code = 0;
            }
        } catch (const TaskError& e) {
            code = typeid(e) == typeid(TaskError) && !std::strcmp(e.what(), "task-error") ? 3 : 9;
            payload = e.code;
        } catch (const std::future_error&) {
            code = 7;
        } catch (const std::runtime_error& e) {
            const std::string w = e.what();
            const bool ok = typeid(e) == typeid(std::runtime_error) && w.size() > 1 && w[0] == 't' &&
                            w.find_first_not_of("0123456789", 1) == std::string::npos;
            code = ok ? 2 : 9;
            payload = ok ? std::atoll(w.c_str() + 1) : 0;
        } catch (const std::exception&) {
            code = 8;
        } catch (int v) {
            code = 4;
            payload = v;
        } catch (const Foreign& f) {
            code = f.tag == "foreign" ? 5 : 9;
            payload = f.code;
        } catch (const std::string& str) {
            const bool ok = str.size() > 1 && str[0] == 's' && str.find_first_not_of("0123456789", 1) == std::string::npos;
            code = ok ? 6 : 9;
            payload = ok ? std::atoll(str.c_str() + 1) : 0;
        } catch (...) {
            code = 8;
        }
        fut_result[static_cast<std::size_t>(id)] = outcome_text(code, payload);
        if (code <= 6 && payload >= 0 && payload < 1000000) {
            log_event("future-get", nullptr, static_cast<std::size_t>(code), id * 1000000LL + payload);
        }
    };

    auto future_ready = [&](int id) {
        return task_kind(id, mix) == 1
                   ? vfutures[static_cast<std::size_t>(id)].wait_for(std::chrono::seconds(0)) == std::future_status::ready
                   : futures[static_cast<std::size_t>(id)].wait_for(std::chrono::seconds(0)) == std::future_status::ready;
    };

    {
        auto pool = std::make_unique<osmium::thread::Pool>(N, max);
        threads_during = wait_for_workers(N, 2000);
        std::vector<std::thread> submitters;
        for (int s = 0; s < S; ++s) {
            submitters.emplace_back([&, s] {
                set_tid(1 + s);
                for (int i = 0; i < n; ++i) {
                    const int id = s * n + i + 1;
                    const int kind = task_kind(id, mix);
                    t_ctx.payload = id;
                    log_event("submit-spec", nullptr, static_cast<std::size_t>(kind), id * 1000000LL + task_payload(id, kind));
                    if (kind == 1) {
                        vfutures[static_cast<std::size_t>(id)] = pool->submit([id, kind, mix, &run_count]() -> void {
                            task_body(id, kind, mix, run_count);
                        });
                    } else {
                        futures[static_cast<std::size_t>(id)] = pool->submit([id, kind, mix, &run_count]() -> long long {
                            task_body(id, kind, mix, run_count);
                            return task_value(id);
                        });
                    }
                    log_event("push-return", nullptr, 0, id);
                    t_ctx.payload = -1;
                }
                if (mode == "get-first") {
                    for (int i = 0; i < n; ++i) {
                        get_future(s * n + i + 1);
                    }
                }
            });
        }
        for (auto& t : submitters) {
            t.join();
        }
        // a task that threw must not have cost a worker: workers only leave through stop tasks
        threads_before_dtor = count_workers();
        // destructor: pushes N stop tasks, joins all workers; queued tasks must still run
        log_event("dtor-start", nullptr, 0, -1);
        t_ctx.stop_mode = true;
        pool.reset();
        t_ctx.stop_mode = false;
        log_event("dtor-done", nullptr, 0, -1);
    }
    const int threads_after = wait_for_workers(0, 2000);
    if (mode != "get-first") {
        for (int id = 1; id <= total; ++id) {
            if (!future_ready(id)) {
                all_ready_after_dtor = false;
                fut_result[static_cast<std::size_t>(id)] = "not-ready";
            } else {
                get_future(id);
            }
        }
    }
    end_scenario();

    bool once_ok = true;
    std::string d = "-";
    for (int id = 1; id <= total; ++id) {
        if (run_count[static_cast<std::size_t>(id)] != 1 && once_ok) {
            once_ok = false;
            d = "task=" + std::to_string(id) + ",kind=" + KIND_LETTER[task_kind(id, mix)] + ",runs=" + std::to_string(run_count[static_cast<std::size_t>(id)].load());
        }
    }
    std::printf("MON task-ran-exactly-once %s %s\n", once_ok ? "ok" : "FAIL", d.c_str());
    bool fut_ok = true;
    d = "-";
    for (int id = 1; id <= total; ++id) {
        const int kind = task_kind(id, mix);
        const std::string want = outcome_text(kind, task_payload(id, kind));
        if (fut_result[static_cast<std::size_t>(id)] != want && fut_ok) {
            fut_ok = false;
            d = "task=" + std::to_string(id) + ",kind=" + KIND_LETTER[kind] + ",got=" + fut_result[static_cast<std::size_t>(id)] + ",want=" + want;
        }
    }
    std::printf("MON future-delivers-outcome %s %s\n", fut_ok ? "ok" : "FAIL", d.c_str());
    std::printf("MON queued-tasks-done-when-destructor-returns %s -\n", all_ready_after_dtor ? "ok" : "FAIL");
    std::printf("MON worker-survives-task-exception %s workers-before-destructor=%d,N=%d\n", threads_before_dtor == N ? "ok" : "FAIL", threads_before_dtor, N);
    const bool joined = threads_before == 0 && threads_after == 0 && threads_during == N;
    std::printf("MON destructor-joined-all-workers %s before=%d,during=%d,after=%d,N=%d\n", joined ? "ok" : "FAIL", threads_before, threads_during, threads_after, N);
    std::string kinds;
    for (int id = 1; id <= total; ++id) {
        kinds += KIND_LETTER[task_kind(id, mix)];
    }
    std::printf("OBS total=%d kinds=%s\n", total, kinds.c_str());
    std::printf("END ok\n");
    std::fflush(stdout);
}

} // namespace

extern "C" void osmium_verif_point(const char* tag, const void* obj, std::size_t arg) {
    if (!g_tracing.load()) {
        return;
    }
    long long payload = -1;
    if (!std::strcmp(tag, "push-enter")) {
        if (t_ctx.epoch == g_epoch.load() && t_ctx.stop_mode) {
            t_ctx.payload = STOP_BASE + (++t_ctx.stop_counter);
        }
        payload = (t_ctx.epoch == g_epoch.load()) ? t_ctx.payload : -1;
    } else if (!std::strcmp(tag, "push-locked")) {
        payload = (t_ctx.epoch == g_epoch.load()) ? t_ctx.payload : -1;
    }
    log_event(tag, std::strcmp(tag, "worker-got") ? obj : nullptr, arg, payload);
}

int main() {
    unsetenv("OSMIUM_MAX_WORK_QUEUE_SIZE");
    unsetenv("OSMIUM_POOL_THREADS");
    std::set_terminate(terminate_handler);
    std::thread{watchdog_main}.detach();
    std::string line;
    while (std::getline(std::cin, line)) {
        const auto w = vh::words(line);
        if (w.empty()) {
            continue;
        }
        const auto kv = parse_kv(w);
        if (w[0] == "queue") {
            if (kv.count("elem") && kv.at("elem") == "int") {
                run_queue<int>(line, kv);
            } else {
                run_queue<Tagged>(line, kv);
            }
        } else if (w[0] == "pool") {
            run_pool(line, kv);
        } else {
            std::printf("BEGIN %s\nEND bad-scenario\n", line.c_str());
        }
    }
    std::fflush(stdout);
    return 0;
}
