// C20 harness (dispatch part): runs the REAL osmium::apply entry points with logging handlers
// of every kind on the op lines the Lean model driver (lean/Driver/C20.lean) also receives.
//
//   apply <entry> <handlers> <items...>
//       entry    bec bem            osmium::apply(const Buffer&, ...) / apply(Buffer&, ...)
//                f{i,e,o}{c,m}      apply(buf.[c]begin<T>(), buf.[c]end<T>(), ...)  T = Item, OSMEntity, OSMObject
//                x{e,o}{c,m}        apply(first, last, ...) with an UNFILTERED user iterator typed T
//                r{i,e,o}m          apply(source, ...) / apply(make_input_iterator_range<T>(source), ...)
//                                   over a reader-like source of several buffers ("|" separates buffers)
//                Rim                apply(osmium::io::Reader&, ...) over an in-memory OPL file (n w r c only)
//       handlers comma separated, argument order:  S | D | Df | D0 | L<sig> | C:<sub>+<sub>[+<sub>]
//                sig in nNwWrRaAcCoOeEiIgG (upper case = non-const reference parameter, g = auto)
//                sub in S D Df D0.  Lists of 2..4 handlers: S, D*, LN, C:S+D* only.
//       items    <type char>[-]   XnwracTNMFOID, "-" = removed flag set; entities get id = position+1
//       -> events "<h>.<sub>:<callback>[!]:<position>" ... "<h>.<sub>:flush" | "-" ; " !unknown_type" appended
//          when osmium::unknown_type left apply()
//   fdrive <Class> <c|m|r> <script> <n> <items...>  driving patterns of the same iterators (see fdrive_run)
//   filt <Class> <c|m|r> <items...>  -> "<count>: <positions>" visited by select<Class>() (const / non-const
//          buffer) or by InputIterator<source, Class> (r); " size-mismatch" if ItemIteratorRange::size()
//          differs from the number of iterations
#include "c20_common.hpp"

#include <osmium/io/opl_input.hpp>
#include <osmium/io/reader.hpp>
#include <osmium/io/reader_iterator.hpp>

using namespace c20;

struct HSpec {
    char kind = 0;                  // S D L C
    char mode = 0;                  // D: D f 0 ; L: sig
    std::vector<char> sub_kind;     // C: S or D
    std::vector<char> sub_mode;
};

static bool parse_leaf(const std::string& s, char& kind, char& mode) {
    if (s == "S") { kind = 'S'; mode = 0; return true; }
    if (s == "D") { kind = 'D'; mode = 'D'; return true; }
    if (s == "Df") { kind = 'D'; mode = 'f'; return true; }
    if (s == "D0") { kind = 'D'; mode = '0'; return true; }
    return false;
}

static std::vector<std::string> split(const std::string& s, char sep) {
    std::vector<std::string> out;
    std::string cur;
    for (char c : s) {
        if (c == sep) { out.push_back(cur); cur.clear(); } else cur += c;
    }
    out.push_back(cur);
    return out;
}

static bool parse_hspec(const std::string& s, HSpec& h) {
    if (parse_leaf(s, h.kind, h.mode)) return true;
    if (s.size() == 2 && s[0] == 'L' && std::string{LAMBDA_SIGS}.find(s[1]) != std::string::npos) {
        h.kind = 'L'; h.mode = s[1]; return true;
    }
    if (s.size() > 2 && s[0] == 'C' && s[1] == ':') {
        h.kind = 'C';
        for (const auto& p : split(s.substr(2), '+')) {
            char k = 0, m = 0;
            if (!parse_leaf(p, k, m)) return false;
            h.sub_kind.push_back(k);
            h.sub_mode.push_back(m);
        }
        return h.sub_kind.size() >= 1 && h.sub_kind.size() <= 3;
    }
    return false;
}

struct SubS {
    SLog h;
    SubS(int hh, int sub, char) : h(hh, sub) {}
    SLog& get() { return h; }
    using type = SLog;
};
struct SubD {
    osmium::handler::DynamicHandler d;
    SubD(int hh, int sub, char mode) { setup_dynamic(d, mode, hh, sub); }
    osmium::handler::DynamicHandler& get() { return d; }
    using type = osmium::handler::DynamicHandler;
};

template <typename A, typename F>
static void chain1(const HSpec& s, int h, F&& f) {
    A a{h, 0, s.sub_mode[0]};
    osmium::handler::ChainHandler<typename A::type> c{a.get()};
    f(c);
}
template <typename A, typename B, typename F>
static void chain2(const HSpec& s, int h, F&& f) {
    A a{h, 0, s.sub_mode[0]};
    B b{h, 1, s.sub_mode[1]};
    osmium::handler::ChainHandler<typename A::type, typename B::type> c{a.get(), b.get()};
    f(c);
}
template <typename A, typename B, typename C, typename F>
static void chain3(const HSpec& s, int h, F&& f) {
    A a{h, 0, s.sub_mode[0]};
    B b{h, 1, s.sub_mode[1]};
    C cc{h, 2, s.sub_mode[2]};
    osmium::handler::ChainHandler<typename A::type, typename B::type, typename C::type> c{a.get(), b.get(), cc.get()};
    f(c);
}

template <typename T> struct is_chain : std::false_type {};
template <typename... T> struct is_chain<osmium::handler::ChainHandler<T...>> : std::true_type {};
template <typename... Hs> struct any_chain : std::false_type {};
template <typename H, typename... Hs> struct any_chain<H, Hs...> : std::integral_constant<bool, is_chain<H>::value || any_chain<Hs...>::value> {};

// every handler type, for one-handler lists
template <typename F>
static bool with_single(const HSpec& s, int h, F&& f) {
    switch (s.kind) {
        case 'S': { SLog x{h}; f(x); return true; }
        case 'D': { osmium::handler::DynamicHandler d; setup_dynamic(d, s.mode, h, 0); f(d); return true; }
        case 'L': return with_lambda(s.mode, h, f);
        case 'C': {
            std::string shape(s.sub_kind.begin(), s.sub_kind.end());
            if (shape == "S") { chain1<SubS>(s, h, f); return true; }
            if (shape == "D") { chain1<SubD>(s, h, f); return true; }
            if (shape == "SS") { chain2<SubS, SubS>(s, h, f); return true; }
            if (shape == "SD") { chain2<SubS, SubD>(s, h, f); return true; }
            if (shape == "DS") { chain2<SubD, SubS>(s, h, f); return true; }
            if (shape == "DD") { chain2<SubD, SubD>(s, h, f); return true; }
            if (shape == "SDS") { chain3<SubS, SubD, SubS>(s, h, f); return true; }
            return false;
        }
        default: return false;
    }
}

// the handler types that may appear in lists of 2..4 handlers
template <typename F>
static bool with_multi(const HSpec& s, int h, F&& f) {
    switch (s.kind) {
        case 'S': { SLog x{h}; f(x); return true; }
        case 'D': { osmium::handler::DynamicHandler d; setup_dynamic(d, s.mode, h, 0); f(d); return true; }
        case 'L': {
            if (s.mode != 'N') return false;
            auto l = lam_N(h);
            f(l);
            return true;
        }
        case 'C': {
            std::string shape(s.sub_kind.begin(), s.sub_kind.end());
            if (shape == "SD") { chain2<SubS, SubD>(s, h, f); return true; }
            return false;
        }
        default: return false;
    }
}

struct Input {
    std::vector<std::vector<ItemTok>> groups;   // one per buffer of a reader-like source
    Buffer whole{4096, Buffer::auto_grow::yes}; // all items in one buffer
    FakeSource source;
    std::string opl;

    void build(bool reader) {
        env().reset();
        if (reader) {
            int id = 1;
            for (const auto& g : groups) {
                Buffer b{1024, Buffer::auto_grow::yes};
                for (const auto& t : g) add_item(b, t.t, id++, 1, t.removed);
                env().register_buffer(b);
                source.buffers.push_back(std::move(b));
            }
        } else {
            int id = 1;
            for (const auto& g : groups)
                for (const auto& t : g) add_item(whole, t.t, id++, 1, t.removed);
            env().register_buffer(whole);
        }
    }
};

static const std::string BAD = "bad-op";

template <bool Multi, typename... Hs>
static std::string run_entry(const std::string& e, Input& in, Hs&... hs) {
    constexpr bool chain = any_chain<Hs...>::value;
    const bool reader = e[0] == 'r';
    if (e == "Rim") {
        if constexpr (!Multi) {
            // real Reader over OPL text: positions are recovered from the ids
            env().reset();
            env().by_id = true;
            std::string opl;
            int id = 1;
            for (const auto& g : in.groups)
                for (const auto& t : g) {
                    if (t.removed || std::string{"nwrc"}.find(t.t) == std::string::npos) return BAD;
                    opl += t.t;
                    opl += std::to_string(id++);
                    opl += t.t == 'c' ? " k0\n" : " v1\n";
                }
            osmium::io::File file{opl.data(), opl.size(), "opl"};
            osmium::io::Reader rd{file, osmium::osm_entity_bits::all};
            osmium::apply(rd, hs...);
            rd.close();
            return env().result();
        } else {
            return BAD;
        }
    }
    in.build(reader);
    Buffer& buf = in.whole;
    const Buffer& cbuf = in.whole;
    (void)buf; (void)cbuf;
    // const containers: ChainHandler only has non-const overloads (does not compile)
#define C20_CONST_ENTRY(code, stmt)                                                    \
    if (e == code) {                                                                   \
        if constexpr (!chain) { stmt; return env().result(); } else { return BAD; }   \
    }
#define C20_MUT_ENTRY(code, stmt)                                                      \
    if (e == code) { stmt; return env().result(); }
    C20_CONST_ENTRY("bec", osmium::apply(cbuf, hs...))
    C20_MUT_ENTRY("bem", osmium::apply(buf, hs...))
    C20_MUT_ENTRY("fim", osmium::apply(buf.begin<Item>(), buf.end<Item>(), hs...))
    if constexpr (!Multi) {
        using osmium::OSMEntity;
        using osmium::OSMObject;
        C20_CONST_ENTRY("fic", osmium::apply(cbuf.cbegin<Item>(), cbuf.cend<Item>(), hs...))
        C20_CONST_ENTRY("fec", osmium::apply(cbuf.cbegin<OSMEntity>(), cbuf.cend<OSMEntity>(), hs...))
        C20_MUT_ENTRY("fem", osmium::apply(buf.begin<OSMEntity>(), buf.end<OSMEntity>(), hs...))
        C20_CONST_ENTRY("foc", osmium::apply(cbuf.cbegin<OSMObject>(), cbuf.cend<OSMObject>(), hs...))
        C20_MUT_ENTRY("fom", osmium::apply(buf.begin<OSMObject>(), buf.end<OSMObject>(), hs...))
        C20_CONST_ENTRY("xec", osmium::apply(RawIter<const OSMEntity>{cbuf.data()}, RawIter<const OSMEntity>{cbuf.data() + cbuf.committed()}, hs...))
        C20_MUT_ENTRY("xem", osmium::apply(RawIter<OSMEntity>{buf.data()}, RawIter<OSMEntity>{buf.data() + buf.committed()}, hs...))
        C20_CONST_ENTRY("xoc", osmium::apply(RawIter<const OSMObject>{cbuf.data()}, RawIter<const OSMObject>{cbuf.data() + cbuf.committed()}, hs...))
        C20_MUT_ENTRY("xom", osmium::apply(RawIter<OSMObject>{buf.data()}, RawIter<OSMObject>{buf.data() + buf.committed()}, hs...))
        C20_MUT_ENTRY("rim", osmium::apply(in.source, hs...))
        if (e == "rem") {
            auto range = osmium::io::make_input_iterator_range<OSMEntity>(in.source);
            osmium::apply(range, hs...);
            return env().result();
        }
        if (e == "rom") {
            auto range = osmium::io::make_input_iterator_range<OSMObject>(in.source);
            osmium::apply(range, hs...);
            return env().result();
        }
    }
    return BAD;
}

template <typename... Hs>
static std::string build_multi(const std::vector<HSpec>& specs, const std::string& e, Input& in, Hs&... hs) {
    if constexpr (sizeof...(Hs) >= 2) {
        if (sizeof...(Hs) == specs.size()) {
            return run_entry<true>(e, in, hs...);
        }
    }
    if constexpr (sizeof...(Hs) < 4) {
        if (sizeof...(Hs) >= specs.size()) return BAD;
        std::string res = BAD;
        with_multi(specs[sizeof...(Hs)], static_cast<int>(sizeof...(Hs)), [&](auto& hnew) {
            res = build_multi(specs, e, in, hs..., hnew);
        });
        return res;
    } else {
        return BAD;
    }
}

template <typename T>
static std::string filt(Input& in, char mode) {
    std::string out;
    int n = 0;
    bool mismatch = false;
    auto visit = [&](const Item& it) {
        ++n;
        out += ' ';
        out += std::to_string(env().position(&it));
    };
    if (mode == 'r') {
        in.build(true);
        osmium::io::InputIterator<FakeSource, T> it{in.source};
        const osmium::io::InputIterator<FakeSource, T> end{};
        for (; it != end; ++it) visit(*it);
    } else if (mode == 'm') {
        in.build(false);
        auto range = in.whole.select<T>();
        for (auto& x : range) visit(x);
        mismatch = range.size() != static_cast<std::size_t>(n) || range.empty() != (n == 0);
    } else {
        in.build(false);
        const Buffer& cb = in.whole;
        const auto range = cb.select<T>();
        for (const auto& x : range) visit(x);
        mismatch = range.size() != static_cast<std::size_t>(n) || range.empty() != (n == 0);
    }
    return std::to_string(n) + ":" + out + (mismatch ? " size-mismatch" : "");
}

// driving patterns of the filtering iterators (same script alphabet as `drive` in c20_diff.cpp):
//   fdrive <Class> <c|m|r> <script> <n> <items...>    n = number of items the iterator has to visit
//   -> per dereference the position of the item, "@" = operation refused at the end (decided by the
//      harness's own position counter), E0|E1 (a == end), Q0|Q1 (a == b)
template <typename It>
static std::string fdrive_run(const std::string& script, int n, It a, const It& end) {
    std::string out;
    auto ev = [&](const std::string& s) { if (!out.empty()) out += ' '; out += s; };
    auto visit = [&](const Item& it) { ev(std::to_string(env().position(&it))); };
    It b{a};
    int pa = 0;
    int pb = 0;
    for (const char c : script) {
        switch (c) {
            case '.': break;
            case 'd': if (pa < n) { visit(*a); } else { ev("@"); } break;
            case 'r': if (pa < n) { visit(*a.operator->()); } else { ev("@"); } break;
            case 'i': if (pa < n) { ++a; ++pa; } else { ev("@"); } break;
            case 'p': if (pa < n) { visit(*a++); ++pa; } else { ev("@"); } break;
            case 'a': if (pa + 1 < n) { std::advance(a, 2); pa += 2; } else { ev("@"); } break;
            case 'c': b = a; pb = pa; break;
            case 's': a = b; pa = pb; break;
            case 'e': if (pb < n) { visit(*b); } else { ev("@"); } break;
            case 'j': if (pb < n) { ++b; ++pb; } else { ev("@"); } break;
            case 'q': if (pb < n) { visit(*b++); ++pb; } else { ev("@"); } break;
            case '=': ev(a == end ? "E1" : "E0"); break;
            case '~': ev(a == b ? "Q1" : "Q0"); break;
            default: return BAD;
        }
    }
    return out.empty() ? "-" : out;
}

template <typename T>
static std::string fdrive(Input& in, char mode, const std::string& script, int n) {
    if (mode == 'r') {
        in.build(true);
        osmium::io::InputIterator<FakeSource, T> it{in.source};
        const osmium::io::InputIterator<FakeSource, T> end{};
        return fdrive_run(script, n, it, end);
    }
    in.build(false);
    if (mode == 'm') {
        auto range = in.whole.select<T>();
        return fdrive_run(script, n, range.begin(), range.end());
    }
    const Buffer& cb = in.whole;
    const auto range = cb.select<T>();
    return fdrive_run(script, n, range.begin(), range.end());
}

static std::string do_fdrive(const std::string& cls, Input& in, char mode, const std::string& script, int n) {
    if (cls == "Item") return fdrive<Item>(in, mode, script, n);
    if (cls == "OSMEntity") return fdrive<osmium::OSMEntity>(in, mode, script, n);
    if (cls == "OSMObject") return fdrive<osmium::OSMObject>(in, mode, script, n);
    if (cls == "Node") return fdrive<osmium::Node>(in, mode, script, n);
    if (cls == "Way") return fdrive<osmium::Way>(in, mode, script, n);
    if (cls == "Changeset") return fdrive<osmium::Changeset>(in, mode, script, n);
    if (cls == "TagList") return fdrive<osmium::TagList>(in, mode, script, n);
    if (cls == "RelationMemberList") return fdrive<osmium::RelationMemberList>(in, mode, script, n);
    return BAD;
}

static std::string do_filt(const std::string& cls, Input& in, char mode) {
    if (cls == "Item") return filt<Item>(in, mode);
    if (cls == "OSMEntity") return filt<osmium::OSMEntity>(in, mode);
    if (cls == "OSMObject") return filt<osmium::OSMObject>(in, mode);
    if (cls == "Node") return filt<osmium::Node>(in, mode);
    if (cls == "Way") return filt<osmium::Way>(in, mode);
    if (cls == "Relation") return filt<osmium::Relation>(in, mode);
    if (cls == "Area") return filt<osmium::Area>(in, mode);
    if (cls == "Changeset") return filt<osmium::Changeset>(in, mode);
    if (cls == "TagList") return filt<osmium::TagList>(in, mode);
    if (cls == "WayNodeList") return filt<osmium::WayNodeList>(in, mode);
    if (cls == "RelationMemberList") return filt<osmium::RelationMemberList>(in, mode);
    if (cls == "OuterRing") return filt<osmium::OuterRing>(in, mode);
    if (cls == "InnerRing") return filt<osmium::InnerRing>(in, mode);
    if (cls == "ChangesetDiscussion") return filt<osmium::ChangesetDiscussion>(in, mode);
    return BAD;
}

static bool parse_items(const std::vector<std::string>& w, std::size_t from, Input& in) {
    in.groups.emplace_back();
    for (std::size_t i = from; i < w.size(); ++i) {
        if (w[i] == "|") { in.groups.emplace_back(); continue; }
        ItemTok t{};
        if (!parse_item_tok(w[i], t)) return false;
        in.groups.back().push_back(t);
    }
    return true;
}

int main() {
    return vh::line_loop([](const std::string& line) -> std::string {
        const auto w = vh::words(line);
        if (w.empty()) return BAD;
        env().by_id = false;
        try {
            if (w[0] == "apply" && w.size() >= 3) {
                Input in;
                if (!parse_items(w, 3, in)) return BAD;
                std::vector<HSpec> specs;
                for (const auto& p : split(w[2], ',')) {
                    HSpec h;
                    if (!parse_hspec(p, h)) return BAD;
                    specs.push_back(h);
                }
                if (specs.empty() || specs.size() > 4) return BAD;
                const std::string& e = w[1];
                try {
                    if (specs.size() == 1) {
                        std::string res = BAD;
                        if (!with_single(specs[0], 0, [&](auto& h) { res = run_entry<false>(e, in, h); })) return BAD;
                        return res;
                    }
                    return build_multi(specs, e, in);
                } catch (const osmium::unknown_type&) {
                    return env().result() + " !unknown_type";
                }
            }
            if (w[0] == "filt" && w.size() >= 3 && w[2].size() == 1) {
                Input in;
                if (!parse_items(w, 3, in)) return BAD;
                return do_filt(w[1], in, w[2][0]);
            }
            if (w[0] == "fdrive" && w.size() >= 5 && w[2].size() == 1) {
                Input in;
                if (!parse_items(w, 5, in)) return BAD;
                return do_fdrive(w[1], in, w[2][0], w[3], std::atoi(w[4].c_str()));
            }
        } catch (const std::exception& ex) {
            return std::string{"exception:"} + ex.what();
        }
        return BAD;
    });
}
