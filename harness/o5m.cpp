// o5m part of C02/C03: the REAL osmium::io::Reader on an o5m file held in memory.
//
//   dec <assert 0|1> <readTypes 0..7> <hex>
//       -> "ok h <S|H> ts=<seconds> [B<x>,<y>;<x>,<y>]... | <object dump> | ..."   (harness/osm_dump.hpp)
//       -> "err:<kind>"   kind = o5m:<which o5m_error> | pz:<protozero exception> | length_error | other:<type>
//   The first argument describes the build (the model needs it); the harness checks it against
//   its own NDEBUG state.  Every delivered object is traversed completely by the dump (user,
//   tags, node refs, members and roles).  A watchdog (alarm) kills the process when one input
//   takes longer than 20 s.  Output is flushed per line, so after a sanitizer abort the
//   number of lines tells which input was the culprit.
#include "osm_dump.hpp"

#include <osmium/io/o5m_input.hpp>
#include <osmium/io/reader.hpp>
#include <osmium/osm/timestamp.hpp>
#include <osmium/visitor.hpp>

#include <protozero/exception.hpp>

#include <cstring>
#include <stdexcept>
#include <typeinfo>
#include <unistd.h>

static std::string o5m_kind(const char* what) {
    static const struct { const char* msg; const char* kind; } table[] = {
        {"file too short (incomplete header info)", "header_too_short"},
        {"wrong header magic", "wrong_magic"},
        {"premature end of file while parsing object metadata", "meta_premature"},
        {"premature end of file", "premature"},
        {"string format error", "string_format"},
        {"reference to non-existing string in table", "no_such_string"},
        {"uid out of range", "uid_range"},
        {"missing user name", "missing_user"},
        {"no null byte in user name", "no_nul_user"},
        {"user name too long", "user_too_long"},
        {"invalid bounding box", "invalid_bbox"},
        {"no null byte in tag key", "no_nul_key"},
        {"no null byte in tag value", "no_nul_value"},
        {"object version too large", "version_too_large"},
        {"way nodes ref section too long", "way_refs_too_long"},
        {"relation format error", "relation_format"},
        {"relation member format error", "relation_member_format"},
        {"unknown member type", "unknown_member_type"},
        {"missing role", "missing_role"},
        {"no null byte in role", "no_nul_role"},
    };
    const char* prefix = "o5m format error: ";
    if (std::strncmp(what, prefix, std::strlen(prefix)) == 0) {
        what += std::strlen(prefix);
    }
    for (const auto& e : table) {
        if (std::strcmp(what, e.msg) == 0) {
            return std::string{"o5m:"} + e.kind;
        }
    }
    return "o5m:unknown-message";
}

static std::string run_dec(const std::string& data, unsigned int read_types) {
    std::string out;
    try {
        const osmium::io::File file{data.data(), data.size(), "o5m"};
        osmium::io::Reader reader{file, static_cast<osmium::osm_entity_bits::type>(read_types)};
        const osmium::io::Header header = reader.header();
        std::string objs;
        while (osmium::memory::Buffer buffer = reader.read()) {
            for (const auto& item : buffer) {
                if (item.type() == osmium::item_type::node || item.type() == osmium::item_type::way ||
                    item.type() == osmium::item_type::relation) {
                    objs += " | ";
                    objs += vh::dump_object(static_cast<const osmium::OSMEntity&>(item));
                }
            }
        }
        reader.close();
        const std::string ts = header.get("o5m_timestamp");
        uint32_t seconds = 0;
        if (!ts.empty()) {
            seconds = static_cast<uint32_t>(osmium::Timestamp{ts});
        }
        if (header.get("timestamp") != ts) {
            return "header-timestamp-mismatch";
        }
        out = std::string{"ok h "} + (header.has_multiple_object_versions() ? "H" : "S") + " ts=" + std::to_string(seconds);
        for (const auto& b : header.boxes()) {
            out += " B" + vh::dump_loc(b.bottom_left()) + ";" + vh::dump_loc(b.top_right());
        }
        out += objs;
    } catch (const osmium::o5m_error& e) {
        return "err:" + o5m_kind(e.what());
    } catch (const protozero::end_of_buffer_exception&) {
        return "err:pz:end_of_buffer";
    } catch (const protozero::varint_too_long_exception&) {
        return "err:pz:varint_too_long";
    } catch (const protozero::exception&) {
        return "err:pz:other";
    } catch (const std::length_error&) {
        return "err:length_error";
    } catch (const std::exception& e) {
        return std::string{"err:other:"} + typeid(e).name();
    }
    return out;
}

int main() {
    std::ios::sync_with_stdio(false);
#ifdef NDEBUG
    const bool assertions = false;
#else
    const bool assertions = true;
#endif
    std::string line;
    while (std::getline(std::cin, line)) {
        const auto w = vh::words(line);
        std::string out;
        alarm(20);
        if (w.size() == 4 && w[0] == "dec") {
            std::string data;
            if (!vh::unhex(w[3], data)) {
                out = "bad-op";
            } else if ((w[1] == "1") != assertions) {
                out = "wrong-build";
            } else {
                out = run_dec(data, static_cast<unsigned int>(std::stoul(w[2])));
            }
        } else {
            out = "bad-op";
        }
        alarm(0);
        out += '\n';
        std::fwrite(out.data(), 1, out.size(), stdout);
        std::fflush(stdout);
    }
    return 0;
}
