// C07 truncation sweep: the REAL osmium::io::Reader (read thread, parser thread, pool) on every
// prefix of a file, per format, per compression and per input path.
//
//   path=file   the prefix is written to a file and opened by name: the Reader reads an fd
//               (for uncompressed PBF this is the parser's DIRECT-FD path: read_exactly(m_fd, ..))
//   path=mem    osmium::io::File{ptr, size, format}: buffer decompressor -> input queue
//   path=pipe   a FIFO opened by name; a writer thread feeds the prefix in `piece`-byte writes,
//               so read(2) returns short counts (again the direct-fd path for PBF)
//
// argv[1] = scratch directory.  stdin, one op per line:
//
//   def <name> <hex>
//   sweep fmt=<pbf|o5m|xml|opl> comp=<none|gz|bz2> mode=<inner|outer> path=<file|mem|pipe> data=<name>
//         cuts=<a-b,c,...|all> hdr=<0|1> piece=<n> nl=<0|1> dump=<0|1> wd=<ms>
//       mode=inner : input = compress(data[:k])   (a complete compressed stream of incomplete content)
//       mode=outer : input = compress(data)[:k]   (the compressed file itself ends early); `Z <n>` gives its length
//       nl=1       : a line feed is appended to data[:k] (OPL law: an unterminated last line is a line)
//       hdr=1      : header() is called first; hdr=0: only read() .. close()
//
// Output:
//   SWEEP <op line>
//   Z <length of the complete input the cuts refer to>
//   T <k> <outcome> <nobj> <fnv64 of the object dumps> <mon>     one line per cut, in order
//       outcome = ok | <call>:<exception class>   with call in ctor, header, read, close
//       mon     = - or a comma separated list of failed monitors (threads, fds, data-after-error, data-after-eof)
//   O <dump>                                                       (dump=1) the objects delivered for that cut
//   ENDSWEEP ok|timeout
// The output is flushed after every cut: when the process dies (crash of the library), the cut after the last
// `T` line is the one that killed it.
#include "common.hpp"
#include "osm_dump.hpp"

#include <osmium/io/any_compression.hpp>
#include <osmium/io/o5m_input.hpp>
#include <osmium/io/opl_input.hpp>
#include <osmium/io/pbf_input.hpp>
#include <osmium/io/reader.hpp>
#include <osmium/io/xml_input.hpp>
#include <osmium/osm.hpp>

#include <atomic>
#include <bzlib.h>
#include <chrono>
#include <csignal>
#include <cstring>
#include <cxxabi.h>
#include <dirent.h>
#include <fcntl.h>
#include <fstream>
#include <map>
#include <sys/stat.h>
#include <thread>
#include <unistd.h>
#include <zlib.h>

namespace {

std::map<std::string, std::string> g_data;
std::atomic<long long> g_deadline_ms{0};
std::string g_pending; // output of the running sweep (flushed by the watchdog on a hang)
std::mutex g_pending_mutex;
std::atomic<long long> g_cur_cut{-1};

long long now_ms() {
    return std::chrono::duration_cast<std::chrono::milliseconds>(std::chrono::steady_clock::now().time_since_epoch()).count();
}

void emit(const std::string& s) {
    const std::lock_guard<std::mutex> lock{g_pending_mutex};
    g_pending += s;
    g_pending += '\n';
}

void flush_pending() {
    const std::lock_guard<std::mutex> lock{g_pending_mutex};
    std::fwrite(g_pending.data(), 1, g_pending.size(), stdout);
    g_pending.clear();
    std::fflush(stdout);
}

void watchdog_main() {
    while (true) {
        std::this_thread::sleep_for(std::chrono::milliseconds(50));
        const long long d = g_deadline_ms.load();
        if (d != 0 && now_ms() > d) {
            emit("T " + std::to_string(g_cur_cut.load()) + " hang 0 0 watchdog");
            emit("ENDSWEEP timeout");
            flush_pending();
            _exit(3);
        }
    }
}

int count_dir(const char* path) {
    int n = 0;
    if (DIR* d = opendir(path)) {
        while (const dirent* e = readdir(d)) {
            if (e->d_name[0] != '.') {
                ++n;
            }
        }
        closedir(d);
    }
    return n;
}
int count_threads() { return count_dir("/proc/self/task"); }
int count_fds() { return count_dir("/proc/self/fd") - 1; }

std::string class_of(const std::exception& e) {
    int status = 0;
    char* n = abi::__cxa_demangle(typeid(e).name(), nullptr, nullptr, &status);
    std::string s = (status == 0 && n) ? n : typeid(e).name();
    std::free(n);
    for (auto& c : s) {
        if (c == ' ') c = '_';
    }
    return s;
}

uint64_t fnv(const std::string& s, uint64_t h) {
    for (unsigned char c : s) {
        h ^= c;
        h *= 1099511628211ULL;
    }
    return h;
}

std::string gz_compress(const std::string& in) {
    z_stream zs{};
    if (deflateInit2(&zs, 6, Z_DEFLATED, 15 + 16, 8, Z_DEFAULT_STRATEGY) != Z_OK) {
        throw std::runtime_error{"deflateInit2"};
    }
    std::string out(deflateBound(&zs, static_cast<uLong>(in.size())) + 64, '\0');
    zs.next_in = reinterpret_cast<Bytef*>(const_cast<char*>(in.data()));
    zs.avail_in = static_cast<uInt>(in.size());
    zs.next_out = reinterpret_cast<Bytef*>(&out[0]);
    zs.avail_out = static_cast<uInt>(out.size());
    const int r = deflate(&zs, Z_FINISH);
    if (r != Z_STREAM_END) {
        deflateEnd(&zs);
        throw std::runtime_error{"deflate"};
    }
    out.resize(zs.total_out);
    deflateEnd(&zs);
    return out;
}

std::string bz_compress(const std::string& in) {
    unsigned int len = static_cast<unsigned int>(in.size() + in.size() / 50 + 700);
    std::string out(len, '\0');
    if (BZ2_bzBuffToBuffCompress(&out[0], &len, const_cast<char*>(in.data()), static_cast<unsigned int>(in.size()), 1, 0, 0) != BZ_OK) {
        throw std::runtime_error{"bzcompress"};
    }
    out.resize(len);
    return out;
}

std::string compress(const std::string& comp, const std::string& in) {
    if (comp == "gz") return gz_compress(in);
    if (comp == "bz2") return bz_compress(in);
    return in;
}

std::map<std::string, std::string> parse_kv(const std::vector<std::string>& w) {
    std::map<std::string, std::string> m;
    for (std::size_t i = 1; i < w.size(); ++i) {
        const auto p = w[i].find('=');
        if (p != std::string::npos) {
            m[w[i].substr(0, p)] = w[i].substr(p + 1);
        }
    }
    return m;
}

std::string gets(const std::map<std::string, std::string>& m, const char* k, const char* def) {
    const auto it = m.find(k);
    return it == m.end() ? std::string{def} : it->second;
}

std::vector<std::size_t> parse_cuts(const std::string& spec, std::size_t n) {
    std::vector<std::size_t> out;
    if (spec == "all") {
        for (std::size_t k = 0; k <= n; ++k) out.push_back(k);
        return out;
    }
    std::size_t p = 0;
    while (p < spec.size()) {
        auto q = spec.find(',', p);
        if (q == std::string::npos) q = spec.size();
        const std::string tok = spec.substr(p, q - p);
        const auto d = tok.find('-');
        if (d == std::string::npos) {
            const std::size_t a = std::stoul(tok);
            if (a <= n) out.push_back(a);
        } else {
            const std::size_t a = std::stoul(tok.substr(0, d));
            const std::size_t b = std::stoul(tok.substr(d + 1));
            for (std::size_t k = a; k <= b && k <= n; ++k) out.push_back(k);
        }
        p = q + 1;
    }
    return out;
}

struct Outcome {
    std::string what = "ok";
    std::vector<std::string> objects;
    bool data_after_error = false;
    bool data_after_eof = false;
};

// one complete use of a Reader: [header()], read() until the end or an exception, close(), destructor
Outcome read_all(const osmium::io::File& file, bool hdr) {
    Outcome o;
    auto fail = [&](const char* call, const std::exception& e) {
        if (o.what == "ok") {
            o.what = std::string{call} + ":" + class_of(e);
        }
    };
    std::unique_ptr<osmium::io::Reader> reader;
    try {
        reader.reset(new osmium::io::Reader{file});
    } catch (const std::exception& e) {
        fail("ctor", e);
        return o;
    }
    bool failed = false;
    if (hdr) {
        try {
            (void)reader->header();
        } catch (const std::exception& e) {
            fail("header", e);
            failed = true;
        }
    }
    bool eof = false;
    for (int after = 0; after < 2;) {
        try {
            osmium::memory::Buffer b = reader->read();
            if (!b) {
                eof = true;
                ++after;
                continue;
            }
            if (failed) o.data_after_error = true;
            if (eof) o.data_after_eof = true;
            for (const auto& e : b.select<osmium::OSMEntity>()) {
                o.objects.push_back(vh::dump_object(e));
            }
            if (failed || eof) ++after;
        } catch (const std::exception& e) {
            if (!eof) fail("read", e);
            failed = true;
            ++after;
        }
    }
    try {
        reader->close();
    } catch (const std::exception& e) {
        if (!eof) fail("close", e);
    }
    reader.reset();
    return o;
}

void do_sweep(const std::string& line, const std::map<std::string, std::string>& kv, const std::string& dir) {
    emit("SWEEP " + line);
    const std::string fmt = gets(kv, "fmt", "opl");
    const std::string comp = gets(kv, "comp", "none");
    const std::string mode = gets(kv, "mode", "inner");
    const std::string path_kind = gets(kv, "path", "mem");
    const bool hdr = gets(kv, "hdr", "1") != "0";
    const bool nl = gets(kv, "nl", "0") != "0";
    const bool dump = gets(kv, "dump", "0") != "0";
    const std::size_t piece = std::stoul(gets(kv, "piece", "4096"));
    const long long wd = std::stoll(gets(kv, "wd", "20000"));
    const auto it = g_data.find(gets(kv, "data", ""));
    if (it == g_data.end()) {
        emit("ENDSWEEP unknown-data");
        flush_pending();
        return;
    }
    const std::string& data = it->second;
    const std::string whole = mode == "outer" ? compress(comp, data) : data;
    emit("Z " + std::to_string(whole.size()));
    const std::string format = fmt + (comp == "none" ? "" : "." + comp);
    const std::string fpath = dir + "/t-" + std::to_string(getpid()) + "." + fmt;

    // warm up the pool and whatever the first Reader allocates once per process
    osmium::thread::Pool::default_instance().submit([] { return 0; }).get();
    int threads_before = count_threads();
    for (int i = 0, same = 0; i < 100 && same < 3; ++i) {
        std::this_thread::sleep_for(std::chrono::microseconds(200));
        const int t = count_threads();
        same = (t == threads_before) ? same + 1 : 0;
        threads_before = t;
    }
    const int fds_before = count_fds();

    for (const std::size_t k : parse_cuts(gets(kv, "cuts", "all"), whole.size())) {
        g_cur_cut = static_cast<long long>(k);
        g_deadline_ms = now_ms() + wd;
        std::string input = whole.substr(0, k);
        if (nl) input += '\n';
        if (mode == "inner") input = compress(comp, input);
        Outcome o;
        if (path_kind == "mem") {
            const osmium::io::File file{input.data(), input.size(), format};
            o = read_all(file, hdr);
        } else if (path_kind == "file") {
            {
                std::ofstream f{fpath, std::ios::binary | std::ios::trunc};
                f.write(input.data(), static_cast<std::streamsize>(input.size()));
            }
            const osmium::io::File file{fpath, format};
            o = read_all(file, hdr);
            ::unlink(fpath.c_str());
        } else { // pipe
            ::unlink(fpath.c_str());
            if (::mkfifo(fpath.c_str(), 0600) != 0) {
                emit("ENDSWEEP mkfifo-failed");
                flush_pending();
                return;
            }
            std::atomic<bool> writer_done{false};
            std::thread writer{[&] {
                const int fd = ::open(fpath.c_str(), O_WRONLY);
                if (fd >= 0) {
                    std::size_t p = 0;
                    while (p < input.size()) {
                        const std::size_t n = std::min(piece, input.size() - p);
                        const auto r = ::write(fd, input.data() + p, n);
                        if (r <= 0) break; // EPIPE: the Reader went away
                        p += static_cast<std::size_t>(r);
                    }
                    ::close(fd);
                }
                writer_done = true;
            }};
            const osmium::io::File file{fpath, format};
            o = read_all(file, hdr);
            if (!writer_done.load()) {
                // the Reader stopped before the writer got rid of everything (or never opened the FIFO)
                const int fd = ::open(fpath.c_str(), O_RDONLY | O_NONBLOCK);
                if (fd >= 0) {
                    char buf[4096];
                    for (int i = 0; i < 2000 && !writer_done.load(); ++i) {
                        if (::read(fd, buf, sizeof(buf)) <= 0) {
                            std::this_thread::sleep_for(std::chrono::microseconds(100));
                        }
                    }
                    ::close(fd);
                }
            }
            writer.join();
            ::unlink(fpath.c_str());
        }
        // leaks
        std::string mon;
        int threads_after = count_threads();
        for (int i = 0; i < 200 && threads_after > threads_before; ++i) {
            std::this_thread::sleep_for(std::chrono::microseconds(250));
            threads_after = count_threads();
        }
        if (threads_after > threads_before) mon += "threads,";
        if (count_fds() != fds_before) mon += "fds,";
        if (o.data_after_error) mon += "data-after-error,";
        if (o.data_after_eof) mon += "data-after-eof,";
        if (mon.empty()) mon = "-"; else mon.pop_back();
        uint64_t h = 1469598103934665603ULL;
        for (const auto& d : o.objects) {
            h = fnv(d, h);
            h = fnv("\n", h);
        }
        emit("T " + std::to_string(k) + " " + o.what + " " + std::to_string(o.objects.size()) + " " + std::to_string(h) + " " + mon);
        if (dump) {
            for (const auto& d : o.objects) emit("O " + d);
        }
        flush_pending(); // a crash of the library on the next cut must not lose the results so far
        g_deadline_ms = 0;
        if (mon.find("threads") != std::string::npos) {
            threads_before = count_threads();
        }
    }
    emit("ENDSWEEP ok");
    flush_pending();
}

} // namespace

int main(int argc, char** argv) {
    const std::string dir = argc > 1 ? argv[1] : ".";
    std::signal(SIGPIPE, SIG_IGN);
    std::thread{watchdog_main}.detach();
    std::string line;
    while (std::getline(std::cin, line)) {
        const auto w = vh::words(line);
        if (w.empty()) continue;
        try {
            if (w[0] == "def" && w.size() == 3) {
                std::string d;
                if (!vh::unhex(w[2], d)) {
                    std::printf("bad-op\n");
                } else {
                    g_data[w[1]] = d;
                    std::printf("def %s %zu\n", w[1].c_str(), d.size());
                }
            } else if (w[0] == "sweep") {
                do_sweep(line, parse_kv(w), dir);
            } else {
                std::printf("bad-op\n");
            }
        } catch (const std::exception& e) {
            flush_pending();
            std::printf("exception %s %s\n", class_of(e).c_str(), e.what());
        }
        std::fflush(stdout);
    }
    return 0;
}
