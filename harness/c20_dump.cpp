// C20 table dumper.  Compiled from the CURRENT tree on every run; its output is turned into
// lean/Osmium/Generated/C20Tables.lean by tools/props/c20.py.
//
//   D <class> <c|m> <type> <calls>   osmium::apply_item(static_cast<[const] Class&>(item), SLog)
//                                     class: i = memory::Item (generic overload), e = OSMEntity,
//                                     o = OSMObject; calls = comma separated callback names,
//                                     "!" suffix = non-const reference overload selected,
//                                     "-" = no call, "throw" = osmium::unknown_type
//   K <filter class> <type> <0|1>    T::is_compatible_to(type) (what ItemIterator<T> keeps)
//   W <sig> <c|m> <type> <-|c|m>     a lambda of that signature wrapped by osmium::apply():
//                                     "-" not called, c/m = called through a const / non-const
//                                     parameter
#include "c20_common.hpp"

#include <osmium/osm/area.hpp>
#include <osmium/osm/changeset.hpp>

using namespace c20;

template <typename T>
static std::string dump_apply_item(Buffer& buf) {
    env().log.clear();
    SLog h{0};
    T& item = *reinterpret_cast<T*>(&*buf.template begin<Item>());
    try {
        osmium::apply_item(item, h);
    } catch (const osmium::unknown_type&) {
        return "throw";
    }
    // strip "0.0:" prefix and ":pos" suffix of every event
    std::string out;
    for (const auto& w : vh::words(env().log)) {
        const auto a = w.find(':');
        const auto b = w.rfind(':');
        if (!out.empty()) out += ',';
        out += w.substr(a + 1, b - a - 1);
    }
    return out.empty() ? "-" : out;
}

template <typename T>
static void dump_compat(const char* name) {
    for (const char* t = ALL_TYPES; *t; ++t) {
        item_type ty{};
        type_of_char(*t, ty);
        std::printf("K %s %c %d\n", name, *t, T::is_compatible_to(ty) ? 1 : 0);
    }
}

int main() {
    for (const char* t = ALL_TYPES; *t; ++t) {
        Buffer buf{1024, Buffer::auto_grow::yes};
        add_item(buf, *t, 1, 1, false);
        env().reset();
        env().register_buffer(buf);
        std::printf("D i c %c %s\n", *t, dump_apply_item<const Item>(buf).c_str());
        std::printf("D i m %c %s\n", *t, dump_apply_item<Item>(buf).c_str());
        std::printf("D e c %c %s\n", *t, dump_apply_item<const osmium::OSMEntity>(buf).c_str());
        std::printf("D e m %c %s\n", *t, dump_apply_item<osmium::OSMEntity>(buf).c_str());
        std::printf("D o c %c %s\n", *t, dump_apply_item<const osmium::OSMObject>(buf).c_str());
        std::printf("D o m %c %s\n", *t, dump_apply_item<osmium::OSMObject>(buf).c_str());
        for (const char* s = LAMBDA_SIGS; *s; ++s) {
            for (int mut = 0; mut < 2; ++mut) {
                env().log.clear();
                with_lambda(*s, 0, [&](auto& lam) {
                    if (mut) {
                        osmium::apply(buf.begin<Item>(), buf.end<Item>(), lam);
                    } else {
                        osmium::apply(buf.cbegin<Item>(), buf.cend<Item>(), lam);
                    }
                });
                const std::string& l = env().log;
                const char* r = l.empty() ? "-" : (l.find('!') != std::string::npos ? "m" : "c");
                std::printf("W %c %c %c %s\n", *s, mut ? 'm' : 'c', *t, r);
            }
        }
    }
    dump_compat<Item>("Item");
    dump_compat<osmium::OSMEntity>("OSMEntity");
    dump_compat<osmium::OSMObject>("OSMObject");
    dump_compat<osmium::Node>("Node");
    dump_compat<osmium::Way>("Way");
    dump_compat<osmium::Relation>("Relation");
    dump_compat<osmium::Area>("Area");
    dump_compat<osmium::Changeset>("Changeset");
    dump_compat<osmium::TagList>("TagList");
    dump_compat<osmium::WayNodeList>("WayNodeList");
    dump_compat<osmium::RelationMemberList>("RelationMemberList");
    dump_compat<osmium::OuterRing>("OuterRing");
    dump_compat<osmium::InnerRing>("InnerRing");
    dump_compat<osmium::ChangesetDiscussion>("ChangesetDiscussion");
    return 0;
}
