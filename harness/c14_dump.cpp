// C14 table dumper: runs the REAL escaping functions of the current source tree on every
// code point 1..0x10FFFF (OPL pass-through set) and on every byte 1..255 (XML entity table)
// and prints the result run-length encoded; tools/props/c14.py turns it into
// lean/Osmium/Generated/C14Tables.lean before the theorems are re-checked.
//   oplpass <lo> <hi>     maximal interval of code points whose escaped form is their own UTF-8 bytes
//   xmlent <byte> <hex>   byte whose XML-escaped form is not the byte itself
#include "common.hpp"

#include <osmium/io/detail/string_util.hpp>

#include <cstdio>
#include <iterator>

int main() {
    using namespace osmium::io::detail;
    long run_lo = -1;
    for (uint32_t cp = 1; cp <= 0x110000; ++cp) {
        bool pass = false;
        if (cp < 0x110000) {
            std::string enc;
            append_codepoint_as_utf8(cp, std::back_inserter(enc));
            std::string out;
            append_utf8_encoded_string(out, enc.c_str());
            pass = (out == enc);
        }
        if (pass && run_lo < 0) {
            run_lo = cp;
        } else if (!pass && run_lo >= 0) {
            std::printf("oplpass %ld %u\n", run_lo, cp - 1);
            run_lo = -1;
        }
    }
    for (unsigned b = 1; b < 256; ++b) {
        const char in[2] = {static_cast<char>(b), '\0'};
        std::string out;
        append_xml_encoded_string(out, in);
        if (out != std::string{in}) {
            std::printf("xmlent %u %s\n", b, vh::hex(out).c_str());
        }
    }
    return 0;
}
