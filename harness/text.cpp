// Text-format (OPL + XML) harness for the C01/C02 parts: the REAL Writer / Reader / expat on
// caller-described object sequences.
//
// An object sequence is written as tokens in the canonical dump syntax (harness/osm_dump.hpp /
// Osmium.Osm.dump), objects separated by the token "/":
//   n <id> v<ver> V|D t<ts> c<cs> u<uid> <hexuser> {T<hexk>=<hexv>} L<x>,<y>
//   w <meta> {T..} {N<ref>@<x>,<y>}       r <meta> {T..} {M<type>:<ref>:<hexrole>}
//   c <id> a<created> z<closed> n<changes> m<comments> u<uid> <hexuser> B<x>,<y>;<x>,<y> {T..} {C<date>:<uid>:<hexuser>:<hextext>}
//   h <hexgenerator> H|S {B<x>,<y>;<x>,<y>}        (header; at most one, first)
//
// ops (one per line):
//   wr <fmt> <opts> / obj / obj ...      real Writer -> "ok <hex of the file>" | "err:<class>"
//   rd <fmt> <opts> <hex>                real Reader on a memory buffer -> "ok <hdr> | <obj> | <obj>..." | "err:<class>"
//   rt <fmt> <opts> <comp> / obj ...     real Writer (file compression none|gz|bz2) then real Reader on that file
//                                        -> like rd
//   expat <hex>                          real expat -> "ok S<hexname>(<hexattr>=<hexval>,..) E<hexname> X<hextext> ..." | "err"
// <fmt> = opl | xml ; <opts> = md=<0..31>,low=<0|1>,hist=<0|1>,osc=<0|1>,fvf=<0|1>  (metadata bits:
//   1 version, 2 timestamp, 4 changeset, 8 uid, 16 user), for rd only hist/osc matter.
#include "osm_dump.hpp"

#include <osmium/builder/osm_object_builder.hpp>
#include <osmium/io/bzip2_compression.hpp>
#include <osmium/io/gzip_compression.hpp>
#include <osmium/io/opl_input.hpp>
#include <osmium/io/opl_output.hpp>
#include <osmium/io/reader.hpp>
#include <osmium/io/writer.hpp>
#include <osmium/io/xml_input.hpp>
#include <osmium/io/xml_output.hpp>
#include <osmium/memory/buffer.hpp>
#include <osmium/osm.hpp>

#include <cxxabi.h>
#include <expat.h>
#include <fstream>
#include <iterator>
#include <map>
#include <unistd.h>

static std::string class_of(const std::exception& e) {
    int status = 0;
    char* n = abi::__cxa_demangle(typeid(e).name(), nullptr, nullptr, &status);
    std::string s = (status == 0 && n) ? n : typeid(e).name();
    std::free(n);
    const auto p = s.rfind("::");
    if (p != std::string::npos) s = s.substr(p + 2);
    return s;
}

struct bad_op : std::runtime_error {
    bad_op() : std::runtime_error("bad-op") {}
};

static std::string unhex(const std::string& h) {
    std::string out;
    if (!vh::unhex(h, out)) throw bad_op{};
    return out;
}

static std::vector<std::string> split(const std::string& s, char c) {
    std::vector<std::string> out;
    std::size_t p = 0;
    while (true) {
        const auto q = s.find(c, p);
        out.push_back(s.substr(p, q == std::string::npos ? std::string::npos : q - p));
        if (q == std::string::npos) break;
        p = q + 1;
    }
    return out;
}

static long long num(const std::string& s) {
    if (s.empty()) throw bad_op{};
    std::size_t pos = 0;
    const long long v = std::stoll(s, &pos);
    if (pos != s.size()) throw bad_op{};
    return v;
}

static osmium::Location loc(const std::string& s) {
    const auto p = split(s, ',');
    if (p.size() != 2) throw bad_op{};
    return osmium::Location{static_cast<int32_t>(num(p[0])), static_cast<int32_t>(num(p[1]))};
}

static osmium::Box box_of(const std::string& s) {
    const auto p = split(s, ';');
    if (p.size() != 2) throw bad_op{};
    osmium::Box b;
    b.bottom_left() = loc(p[0]);
    b.top_right() = loc(p[1]);
    return b;
}

struct Opts {
    unsigned md = 31;
    bool low = false, hist = false, osc = false, fvf = false;
};

static Opts parse_opts(const std::string& s) {
    Opts o;
    for (const auto& kv : split(s, ',')) {
        const auto p = split(kv, '=');
        if (p.size() != 2) throw bad_op{};
        const auto v = num(p[1]);
        if (p[0] == "md") o.md = static_cast<unsigned>(v);
        else if (p[0] == "low") o.low = v;
        else if (p[0] == "hist") o.hist = v;
        else if (p[0] == "osc") o.osc = v;
        else if (p[0] == "fvf") o.fvf = v;
        else throw bad_op{};
    }
    return o;
}

static std::string md_string(unsigned md) {
    if (md == 31) return "all";
    if (md == 0) return "none";
    std::string s;
    static const char* names[] = {"version", "timestamp", "changeset", "uid", "user"};
    for (int i = 0; i < 5; ++i) {
        if (md & (1U << i)) {
            if (!s.empty()) s += "+";
            s += names[i];
        }
    }
    return s;
}

static std::string format_string(const std::string& fmt, const Opts& o, bool writing) {
    std::string s = fmt;
    if (writing) {
        s += ",add_metadata=" + md_string(o.md);
        if (o.low) s += ",locations_on_ways=true";
        if (o.fvf) s += ",force_visible_flag=true";
    }
    if (o.osc) s += ",xml_change_format=true";
    if (o.hist) s += ",history=true";
    return s;
}

// ---- objects from tokens ---------------------------------------------------------------
using Tok = std::vector<std::string>;

template <typename TBuilder>
static std::size_t meta(TBuilder& b, const Tok& t) {
    if (t.size() < 8) throw bad_op{};
    b.set_id(num(t[1]));
    if (t[2].empty() || t[2][0] != 'v') throw bad_op{};
    b.set_version(static_cast<osmium::object_version_type>(num(t[2].substr(1))));
    b.set_visible(t[3] == "V");
    b.set_timestamp(osmium::Timestamp{static_cast<uint32_t>(num(t[4].substr(1)))});
    b.set_changeset(static_cast<osmium::changeset_id_type>(num(t[5].substr(1))));
    b.set_uid(static_cast<osmium::user_id_type>(num(t[6].substr(1))));
    b.set_user(unhex(t[7]));
    return 8;
}

template <typename TBuilder>
static std::size_t tags(TBuilder& b, const Tok& t, std::size_t i) {
    if (i < t.size() && t[i][0] == 'T') {
        osmium::builder::TagListBuilder tl{b};
        for (; i < t.size() && t[i][0] == 'T'; ++i) {
            const auto kv = split(t[i].substr(1), '=');
            if (kv.size() != 2) throw bad_op{};
            tl.add_tag(unhex(kv[0]), unhex(kv[1]));
        }
    }
    return i;
}

static void add_object(osmium::memory::Buffer& buffer, const Tok& t) {
    if (t.empty()) throw bad_op{};
    if (t[0] == "n") {
        {
            osmium::builder::NodeBuilder b{buffer};
            std::size_t i = meta(b, t);
            i = tags(b, t, i);
            if (i + 1 != t.size() || t[i][0] != 'L') throw bad_op{};
            b.set_location(loc(t[i].substr(1)));
        }
        buffer.commit();
    } else if (t[0] == "w") {
        {
            osmium::builder::WayBuilder b{buffer};
            std::size_t i = meta(b, t);
            i = tags(b, t, i);
            if (i < t.size()) {
                osmium::builder::WayNodeListBuilder wl{b};
                for (; i < t.size(); ++i) {
                    if (t[i][0] != 'N') throw bad_op{};
                    const auto p = split(t[i].substr(1), '@');
                    if (p.size() != 2) throw bad_op{};
                    wl.add_node_ref(osmium::NodeRef{num(p[0]), loc(p[1])});
                }
            }
        }
        buffer.commit();
    } else if (t[0] == "r") {
        {
            osmium::builder::RelationBuilder b{buffer};
            std::size_t i = meta(b, t);
            i = tags(b, t, i);
            if (i < t.size()) {
                osmium::builder::RelationMemberListBuilder ml{b};
                for (; i < t.size(); ++i) {
                    if (t[i][0] != 'M') throw bad_op{};
                    const auto p = split(t[i].substr(1), ':');
                    if (p.size() != 3) throw bad_op{};
                    ml.add_member(static_cast<osmium::item_type>(num(p[0])), num(p[1]), unhex(p[2]));
                }
            }
        }
        buffer.commit();
    } else if (t[0] == "c") {
        {
            if (t.size() < 9) throw bad_op{};
            osmium::builder::ChangesetBuilder b{buffer};
            b.set_id(static_cast<osmium::changeset_id_type>(num(t[1])));
            b.set_created_at(osmium::Timestamp{static_cast<uint32_t>(num(t[2].substr(1)))});
            b.set_closed_at(osmium::Timestamp{static_cast<uint32_t>(num(t[3].substr(1)))});
            b.set_num_changes(static_cast<osmium::num_changes_type>(num(t[4].substr(1))));
            b.set_num_comments(static_cast<osmium::num_comments_type>(num(t[5].substr(1))));
            b.set_uid(static_cast<osmium::user_id_type>(num(t[6].substr(1))));
            b.set_user(unhex(t[7]));
            b.set_bounds(box_of(t[8].substr(1)));
            std::size_t i = tags(b, t, 9);
            if (i < t.size()) {
                osmium::builder::ChangesetDiscussionBuilder db{b};
                for (; i < t.size(); ++i) {
                    if (t[i][0] != 'C') throw bad_op{};
                    const auto p = split(t[i].substr(1), ':');
                    if (p.size() != 4) throw bad_op{};
                    db.add_comment(osmium::Timestamp{static_cast<uint32_t>(num(p[0]))}, static_cast<osmium::user_id_type>(num(p[1])), unhex(p[2]).c_str());
                    db.add_comment_text(unhex(p[3]));
                }
            }
        }
        buffer.commit();
    } else {
        throw bad_op{};
    }
}

struct Input {
    osmium::io::Header header;
    osmium::memory::Buffer buffer{1024 * 64, osmium::memory::Buffer::auto_grow::yes};
    bool empty = true;
};

// tokens from index `from`: "/"-separated objects, optional leading header
static void parse_objects(const std::vector<std::string>& w, std::size_t from, Input& in) {
    Tok cur;
    auto flush = [&]() {
        if (cur.empty()) return;
        if (cur[0] == "h") {
            if (cur.size() < 3) throw bad_op{};
            in.header.set("generator", unhex(cur[1]));
            in.header.set_has_multiple_object_versions(cur[2] == "H");
            for (std::size_t i = 3; i < cur.size(); ++i) {
                if (cur[i][0] != 'B') throw bad_op{};
                in.header.add_box(box_of(cur[i].substr(1)));
            }
        } else {
            add_object(in.buffer, cur);
            in.empty = false;
        }
        cur.clear();
    };
    for (std::size_t i = from; i < w.size(); ++i) {
        if (w[i] == "/") flush();
        else cur.push_back(w[i]);
    }
    flush();
}

static std::string slurp(const std::string& path) {
    std::ifstream in{path, std::ios::binary};
    return std::string{std::istreambuf_iterator<char>{in}, std::istreambuf_iterator<char>{}};
}

// mode 0: the whole buffer in one call; 1: item by item; 2: mixed — the Writer API allows any
// interleaving of operator()(const Item&) and operator()(Buffer&&), the order of the objects
// in the file must be the order of the calls (seed C01-4)
static void write_file(const std::string& path, const std::string& fmt, Input& in, int mode = 0) {
    osmium::io::File file{path, fmt};
    osmium::io::Writer writer{file, in.header, osmium::io::overwrite::allow};
    if (!in.empty) {
        if (mode == 0) {
            writer(std::move(in.buffer));
        } else {
            std::vector<const osmium::memory::Item*> items;
            for (const auto& item : in.buffer) items.push_back(&item);
            std::size_t i = 0;
            int phase = 0;
            while (i < items.size()) {
                const std::size_t n = mode == 1 ? items.size() : 1 + (i + static_cast<std::size_t>(phase)) % 3;
                if (mode == 1 || phase % 2 == 0) {
                    for (std::size_t k = 0; k < n && i < items.size(); ++k, ++i) writer(*items[i]);
                } else {
                    osmium::memory::Buffer part{1024, osmium::memory::Buffer::auto_grow::yes};
                    for (std::size_t k = 0; k < n && i < items.size(); ++k, ++i) { part.add_item(*items[i]); part.commit(); }
                    writer(std::move(part));
                }
                ++phase;
            }
        }
    }
    writer.close();
}

static std::string read_all(osmium::io::Reader& reader) {
    std::string out = "ok " + vh::dump_header(reader.header());
    while (osmium::memory::Buffer buffer = reader.read()) {
        for (const auto& e : buffer.select<osmium::OSMEntity>()) {
            out += " | " + vh::dump_object(e);
        }
    }
    reader.close();
    return out;
}

// ---- expat ------------------------------------------------------------------------------
struct ExpatOut {
    std::string out;
    std::string text;
    void flush_text() {
        if (!text.empty()) {
            out += " X" + vh::hex(text);
            text.clear();
        }
    }
};

static void XMLCALL ex_start(void* d, const XML_Char* el, const XML_Char** attrs) {
    auto& o = *static_cast<ExpatOut*>(d);
    o.flush_text();
    o.out += " S" + vh::hex(el) + "(";
    bool first = true;
    for (; *attrs; attrs += 2) {
        if (!first) o.out += ",";
        first = false;
        o.out += vh::hex(attrs[0]) + "=" + vh::hex(attrs[1]);
    }
    o.out += ")";
}

static void XMLCALL ex_end(void* d, const XML_Char* el) {
    auto& o = *static_cast<ExpatOut*>(d);
    o.flush_text();
    o.out += " E" + vh::hex(el);
}

static void XMLCALL ex_chars(void* d, const XML_Char* t, int len) {
    static_cast<ExpatOut*>(d)->text.append(t, static_cast<std::size_t>(len));
}

static std::string run_expat(const std::string& doc) {
    ExpatOut o;
    XML_Parser p = XML_ParserCreate(nullptr);
    XML_SetUserData(p, &o);
    XML_SetElementHandler(p, ex_start, ex_end);
    XML_SetCharacterDataHandler(p, ex_chars);
    const auto st = XML_Parse(p, doc.data(), static_cast<int>(doc.size()), 1);
    XML_ParserFree(p);
    if (st == XML_STATUS_ERROR) return "err";
    o.flush_text();
    return "ok" + o.out;
}

int main(int argc, char** argv) {
    const std::string dir = argc > 1 ? argv[1] : ".";
    const std::string base = dir + "/text-" + std::to_string(::getpid());
    return vh::line_loop([&](const std::string& line) -> std::string {
        const auto w = vh::words(line);
        if (w.empty()) return "bad-op";
        try {
            if (w[0] == "wr" && w.size() >= 3) {
                const Opts o = parse_opts(w[2]);
                Input in;
                parse_objects(w, 3, in);
                const std::string path = base + ".out";
                try {
                    write_file(path, format_string(w[1], o, true), in);
                } catch (const bad_op&) {
                    throw;
                } catch (const std::exception& e) {
                    ::unlink(path.c_str());
                    return "err:" + class_of(e);
                }
                const std::string bytes = slurp(path);
                ::unlink(path.c_str());
                return "ok " + vh::hex(bytes);
            }
            if (w[0] == "rd" && w.size() == 4) {
                const Opts o = parse_opts(w[2]);
                const std::string data = unhex(w[3]);
                try {
                    osmium::io::File file{data.data(), data.size(), format_string(w[1], o, false)};
                    osmium::io::Reader reader{file};
                    return read_all(reader);
                } catch (const std::exception& e) {
                    return "err:" + class_of(e);
                }
            }
            if (w[0] == "rt" && w.size() >= 4) {
                const Opts o = parse_opts(w[2]);
                Input in;
                parse_objects(w, 4, in);
                std::string path = base + "." + w[1];
                int mode = 0;
                std::string comp = w[3];
                if (comp.size() > 2 && comp[comp.size() - 2] == ':') { mode = comp.back() - '0'; comp.resize(comp.size() - 2); }
                if (comp == "gz") path += ".gz";
                else if (comp == "bz2") path += ".bz2";
                else if (comp != "none") throw bad_op{};
                std::string res;
                try {
                    write_file(path, format_string(w[1], o, true), in, mode);
                    try {
                        osmium::io::File file{path, format_string(w[1], o, false)};
                        osmium::io::Reader reader{file};
                        res = read_all(reader);
                    } catch (const std::exception& e) {
                        res = "err:read:" + class_of(e);
                    }
                } catch (const bad_op&) {
                    throw;
                } catch (const std::exception& e) {
                    res = "err:write:" + class_of(e);
                }
                ::unlink(path.c_str());
                return res;
            }
            if (w[0] == "expat" && w.size() == 2) {
                return run_expat(unhex(w[1]));
            }
        } catch (const bad_op&) {
            return "bad-op";
        } catch (const std::exception& e) {
            return "exception:" + class_of(e);
        }
        return "bad-op";
    });
}
