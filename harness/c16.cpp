// C16 harness: runs the REAL comparators and the REAL CheckOrder on the op lines the
// Lean model driver (lean/Driver/C16.lean) also receives.
//   cmp t1 id1 v1 ts1 vis1 t2 id2 v2 ts2 vis2 -> "lt nots rev eq eqti idorder gt le ge ne"
//   chk k:id ...                                -> "1"/"0"
//   sortchk <objs as t:id:v:ts:vis> ...         -> property monitor on the implementation
//       alone: sort with operator< via ObjectPointerCollection, then CheckOrder; prints
//       "sorted-accepted 1|0 distinct 1|0"
//   triple <3 objs as 5 fields each>            -> property monitor: strict-weak-order laws
//       on the implementation for that triple, prints "ok" or "fail:<law>:<cmp>"
#include "common.hpp"

#include <osmium/builder/osm_object_builder.hpp>
#include <osmium/handler/check_order.hpp>
#include <osmium/memory/buffer.hpp>
#include <osmium/object_pointer_collection.hpp>
#include <osmium/osm/object_comparisons.hpp>
#include <osmium/visitor.hpp>

#include <set>

using osmium::memory::Buffer;

static const osmium::OSMObject& make(Buffer& buf, int type, int64_t id, uint32_t v, uint32_t ts, bool vis) {
    std::size_t off = 0;
    switch (type) {
        case 1: {
            osmium::builder::NodeBuilder b{buf};
            b.set_id(id).set_version(v).set_timestamp(osmium::Timestamp{ts}).set_visible(vis);
            break;
        }
        case 2: {
            osmium::builder::WayBuilder b{buf};
            b.set_id(id).set_version(v).set_timestamp(osmium::Timestamp{ts}).set_visible(vis);
            break;
        }
        case 3: {
            osmium::builder::RelationBuilder b{buf};
            b.set_id(id).set_version(v).set_timestamp(osmium::Timestamp{ts}).set_visible(vis);
            break;
        }
        default: {
            osmium::builder::AreaBuilder b{buf};
            b.set_id(id).set_version(v).set_timestamp(osmium::Timestamp{ts}).set_visible(vis);
            break;
        }
    }
    off = buf.commit();
    return buf.get<osmium::OSMObject>(off);
}

struct Spec { int type; int64_t id; uint32_t v; uint32_t ts; bool vis; };

static bool parse_spec(const std::vector<std::string>& w, std::size_t at, Spec& s) {
    if (at + 5 > w.size()) return false;
    s.type = std::stoi(w[at]);
    s.id = std::stoll(w[at + 1]);
    s.v = static_cast<uint32_t>(std::stoul(w[at + 2]));
    s.ts = static_cast<uint32_t>(std::stoul(w[at + 3]));
    s.vis = w[at + 4] == "1";
    return true;
}

static std::string b01(bool b) { return b ? "1" : "0"; }

template <typename LT>
static std::string laws(const char* name, LT lt, const osmium::OSMObject& a, const osmium::OSMObject& b, const osmium::OSMObject& c) {
    if (lt(a, a)) return std::string{"fail:irrefl:"} + name;
    if (lt(a, b) && lt(b, a)) return std::string{"fail:asymm:"} + name;
    if (lt(a, b) && lt(b, c) && !lt(a, c)) return std::string{"fail:trans:"} + name;
    if (!lt(a, b) && !lt(b, a) && !lt(b, c) && !lt(c, b) && (lt(a, c) || lt(c, a))) return std::string{"fail:incomp:"} + name;
    return "";
}

int main() {
    return vh::line_loop([](const std::string& line) -> std::string {
        const auto w = vh::words(line);
        if (w.empty()) return "bad-op";
        try {
            if (w[0] == "cmp") {
                Spec a{}, b{};
                if (w.size() != 11 || !parse_spec(w, 1, a) || !parse_spec(w, 6, b)) return "bad-op";
                Buffer buf{1024, Buffer::auto_grow::yes};
                make(buf, a.type, a.id, a.v, a.ts, a.vis);
                make(buf, b.type, b.id, b.v, b.ts, b.vis);
                auto it = buf.begin<osmium::OSMObject>();
                const osmium::OSMObject& oa = *it;
                ++it;
                const osmium::OSMObject& ob = *it;
                return b01(osmium::object_order_type_id_version{}(oa, ob)) + " " +
                       b01(osmium::object_order_type_id_version_without_timestamp{}(oa, ob)) + " " +
                       b01(osmium::object_order_type_id_reverse_version{}(oa, ob)) + " " +
                       b01(osmium::object_equal_type_id_version{}(oa, ob)) + " " +
                       b01(osmium::object_equal_type_id{}(oa, ob)) + " " +
                       b01(osmium::id_order{}(oa.id(), ob.id())) + " " +
                       b01(oa > ob) + " " + b01(oa <= ob) + " " + b01(oa >= ob) + " " + b01(oa != ob);
            }
            if (w[0] == "chk") {
                Buffer buf{4096, Buffer::auto_grow::yes};
                for (std::size_t i = 1; i < w.size(); ++i) {
                    const auto p = w[i].find(':');
                    if (p != 1) return "bad-op";
                    const int64_t id = std::stoll(w[i].substr(2));
                    const int t = w[i][0] == 'n' ? 1 : w[i][0] == 'w' ? 2 : w[i][0] == 'r' ? 3 : 0;
                    if (!t) return "bad-op";
                    make(buf, t, id, 1, 1, true);
                }
                osmium::handler::CheckOrder co;
                try {
                    osmium::apply(buf, co);
                } catch (const osmium::out_of_order_error&) {
                    return "0";
                }
                return "1";
            }
            if (w[0] == "triple") {
                Spec s[3];
                if (w.size() != 16) return "bad-op";
                Buffer buf{1024, Buffer::auto_grow::yes};
                for (int i = 0; i < 3; ++i) {
                    parse_spec(w, 1 + 5 * i, s[i]);
                    make(buf, s[i].type, s[i].id, s[i].v, s[i].ts, s[i].vis);
                }
                std::vector<const osmium::OSMObject*> o;
                for (const auto& x : buf.select<osmium::OSMObject>()) o.push_back(&x);
                const bool ts_uniform = (s[0].ts != 0) == (s[1].ts != 0) && (s[1].ts != 0) == (s[2].ts != 0);
                std::string r;
                if (ts_uniform) {
                    r = laws("lt", osmium::object_order_type_id_version{}, *o[0], *o[1], *o[2]);
                    if (!r.empty()) return r;
                    r = laws("rev", osmium::object_order_type_id_reverse_version{}, *o[0], *o[1], *o[2]);
                    if (!r.empty()) return r;
                }
                r = laws("nots", osmium::object_order_type_id_version_without_timestamp{}, *o[0], *o[1], *o[2]);
                if (!r.empty()) return r;
                {
                    const osmium::id_order io{};
                    const int64_t x = s[0].id, y = s[1].id, z = s[2].id;
                    if (io(x, x)) return "fail:irrefl:id_order";
                    if (io(x, y) && io(y, x)) return "fail:asymm:id_order";
                    if (io(x, y) && io(y, z) && !io(x, z)) return "fail:trans:id_order";
                    if (!io(x, y) && !io(y, x) && x != y) return "fail:total:id_order";
                    // id_order is the id rule every object comparator uses
                    if (s[0].type == s[1].type && s[0].v == s[1].v && x != y &&
                        io(x, y) != osmium::object_order_type_id_version_without_timestamp{}(*o[0], *o[1])) return "fail:id-rule-consistency:id_order";
                }
                // newest-first agrees with operator< across objects and reverses it between versions of one object
                {
                    const bool same_obj = s[0].type == s[1].type && s[0].id == s[1].id;
                    const bool rev = osmium::object_order_type_id_reverse_version{}(*o[0], *o[1]);
                    if (!same_obj && rev != osmium::object_order_type_id_version{}(*o[0], *o[1])) return "fail:rev-vs-lt-different-objects:rev";
                    if (same_obj && s[0].v != s[1].v && rev != osmium::object_order_type_id_version{}(*o[1], *o[0])) return "fail:rev-vs-lt-versions:rev";
                }
                // agreement with equality
                const bool inc = !osmium::object_order_type_id_version_without_timestamp{}(*o[0], *o[1]) &&
                                 !osmium::object_order_type_id_version_without_timestamp{}(*o[1], *o[0]);
                if (inc != (*o[0] == *o[1])) return "fail:eq-consistency:nots";
                return "ok";
            }
            if (w[0] == "sortchk") {
                Buffer buf{4096, Buffer::auto_grow::yes};
                std::set<std::pair<int, int64_t>> seen;
                bool distinct = true;
                for (std::size_t i = 1; i < w.size(); ++i) {
                    std::vector<std::string> f;
                    std::string cur;
                    for (char ch : w[i]) {
                        if (ch == ':') { f.push_back(cur); cur.clear(); } else cur += ch;
                    }
                    f.push_back(cur);
                    Spec s{};
                    if (!parse_spec(f, 0, s)) return "bad-op";
                    if (!seen.emplace(s.type, s.id).second) distinct = false;
                    make(buf, s.type, s.id, s.v, s.ts, s.vis);
                }
                osmium::ObjectPointerCollection coll;
                osmium::apply(buf, coll);
                coll.sort(osmium::object_order_type_id_version{});
                osmium::handler::CheckOrder co;
                bool accepted = true;
                try {
                    osmium::apply(coll.begin(), coll.end(), co);
                } catch (const osmium::out_of_order_error&) {
                    accepted = false;
                }
                return std::string{"sorted-accepted "} + b01(accepted) + " distinct " + b01(distinct);
            }
        } catch (const std::exception& e) {
            return std::string{"exception:"} + e.what();
        }
        return "bad-op";
    });
}
