// C06 harness: the REAL carry-over code of the four parsers fed with caller-chosen chunkings.
// Built with -fno-access-control so the private framing functions can be driven directly.
//
//   opl <cuts> <hex>            real line_by_line() with a recording worker -> "L <n> <hex>..."
//   pbf <cuts> <hex>            real PBFParser framing functions             -> "F <n> <hdr>:<blob>... [err:<class>]"
//   o5m <cuts> <script> <hex>   real O5mParser::ensure_bytes_available / m_data arithmetic
//                               script = e<N> | a<N> , comma separated        -> "r<0|1>:<consumed>:<windowhex> ..."
//   o5mds <cuts> <hex>          real O5mParser (whole run) on node-only files -> object digest or error
//   xml <cuts> <hex>            (reader op with format xml)
//   reader <fmt> <cuts> <hex>   the whole Reader behind a mock Decompressor that returns the pieces
//                               -> "ok n=<objects> h=<digest>" or "err:<class>:<what-hash>"
// <cuts> = "-" or comma separated ascending cut positions (0 < c < len), or "%<k>" / "%<k>+<o>":
//          pieces of k bytes, the first cut at o if o > 0.
// <hex>  = hex bytes, "-" (empty) or "@<path>" (the bytes of that file: long records).
// Long-record variants (digests `<len>:<fnv64>` instead of hex; same code under test):
//   oplx <cuts> <data>          -> "L <n> <len>:<fnv> ..."  or "err:<class>"
//   pbfx <cuts> <data>          -> "F <n> <hdrlen>:<fnv>/<bloblen>:<fnv> ... [err:<class>]"
//   o5mx <cuts> <script> <data> -> "r<0|1>:<consumed>:<len>:<fnv of the first and last 64 window bytes> ..."
//   file <fmt> @<path>          the whole Reader on the plain file itself (real NoDecompressor with its default
//                               1 MiB reads / the PBF fd path)           -> like `reader`
//   genfile <fmt> <kind> <n> <seed> <path>   a file with one huge object (kind way|rel with n refs/members)
//                               between small ones, written by the real Writer -> "ok <bytes>"
#include "common.hpp"

#include <csignal>
#include <thread>
#include <osmium/io/o5m_input.hpp>
#include <osmium/io/opl_input.hpp>
#include <osmium/io/pbf_input.hpp>
#include <osmium/io/xml_input.hpp>
#include <osmium/io/opl_output.hpp>
#include <osmium/io/pbf_output.hpp>
#include <osmium/io/xml_output.hpp>
#include <osmium/io/writer.hpp>
#include <osmium/builder/attr.hpp>
#include <fstream>
#include <iterator>
#include <osmium/io/compression.hpp>
#include <osmium/io/detail/o5m_input_format.hpp>
#include <osmium/io/detail/opl_input_format.hpp>
#include <osmium/io/detail/pbf_input_format.hpp>
#include <osmium/io/reader.hpp>
#include <osmium/osm.hpp>
#include <osmium/thread/pool.hpp>

#include <cxxabi.h>
#include <fcntl.h>
#include <sys/stat.h>
#include <unistd.h>

namespace oid = osmium::io::detail;

static std::vector<std::string> split_pieces(const std::string& data, const std::string& cuts) {
    std::vector<std::string> out;
    std::size_t last = 0;
    if (!cuts.empty() && cuts[0] == '%') {
        const auto plus = cuts.find('+');
        const std::size_t k = std::stoul(cuts.substr(1, plus == std::string::npos ? std::string::npos : plus - 1));
        const std::size_t o = plus == std::string::npos ? 0 : std::stoul(cuts.substr(plus + 1));
        if (k > 0) {
            for (std::size_t c = (o == 0 ? k : o); c < data.size(); c += k) {
                out.push_back(data.substr(last, c - last));
                last = c;
            }
        }
    } else if (cuts != "-") {
        std::size_t p = 0;
        while (p <= cuts.size()) {
            const auto q = cuts.find(',', p);
            const std::string tok = cuts.substr(p, q == std::string::npos ? std::string::npos : q - p);
            const std::size_t c = std::stoul(tok);
            if (c > last && c < data.size()) {
                out.push_back(data.substr(last, c - last));
                last = c;
            }
            if (q == std::string::npos) break;
            p = q + 1;
        }
    }
    if (last < data.size()) {
        out.push_back(data.substr(last));
    }
    return out;
}

// <data> argument: hex, "-" or "@path"
static bool get_data(const std::string& arg, std::string& data) {
    if (!arg.empty() && arg[0] == '@') {
        std::ifstream in{arg.substr(1), std::ios::binary};
        if (!in) return false;
        data.assign(std::istreambuf_iterator<char>{in}, std::istreambuf_iterator<char>{});
        return true;
    }
    return vh::unhex(arg, data);
}

static uint64_t fnv(const std::string& s, uint64_t h = 1469598103934665603ULL) {
    for (unsigned char c : s) {
        h ^= c;
        h *= 1099511628211ULL;
    }
    return h;
}

static std::string dig(const std::string& s) {
    return std::to_string(s.size()) + ":" + std::to_string(fnv(s));
}

// window digest of the o5mx op: length + digest of the first and last 64 bytes (the window is a contiguous
// part of the stream and is printed after every step: full digests would make a script quadratic)
static std::string digw(const std::string& s) {
    if (s.size() <= 128) return dig(s);
    return std::to_string(s.size()) + ":" + std::to_string(fnv(s.substr(0, 64) + s.substr(s.size() - 64)));
}

static std::string class_of(const std::exception& e) {
    int status = 0;
    char* n = abi::__cxa_demangle(typeid(e).name(), nullptr, nullptr, &status);
    std::string s = (status == 0 && n) ? n : typeid(e).name();
    std::free(n);
    return s;
}

// ---- opl -------------------------------------------------------------------------------
struct OplWorker {
    std::vector<std::string> pieces;
    std::size_t next = 0;
    bool done = false;
    std::vector<std::string> lines;
    bool input_done() const { return done; }
    std::string get_input() {
        if (done) return {};
        if (next < pieces.size()) return pieces[next++];
        done = true;
        return {};
    }
    void parse_line(const char* data) { lines.emplace_back(data); }
};

// ---- parser scaffolding ------------------------------------------------------------------
struct ParserEnv {
    osmium::thread::Pool pool{1};
    oid::future_string_queue_type input_queue{0, "in"};
    oid::future_buffer_queue_type output_queue{0, "out"};
    std::promise<osmium::io::Header> header_promise;
    std::atomic<std::size_t> offset{0};
    oid::parser_arguments args;
    explicit ParserEnv(const std::vector<std::string>& pieces) :
        args{pool, -1, input_queue, output_queue, header_promise, &offset,
             osmium::osm_entity_bits::all, osmium::io::read_meta::yes, osmium::io::buffers_type::any, false} {
        for (const auto& p : pieces) {
            oid::add_to_queue(input_queue, std::string{p});
        }
        oid::add_end_of_data_to_queue(input_queue);
    }
};

// ---- mock decompressor for the whole-Reader monitor --------------------------------------
static std::vector<std::string> g_pieces;

class PieceDecompressor final : public osmium::io::Decompressor {
    std::size_t m_next = 0;
public:
    std::string read() override {
        if (m_next < g_pieces.size()) return g_pieces[m_next++];
        return {};
    }
    void close() override {}
};

static std::string digest_object(const osmium::OSMEntity& e) {
    std::string s;
    s += std::to_string(static_cast<int>(e.type()));
    if (e.type() == osmium::item_type::changeset) {
        const auto& c = static_cast<const osmium::Changeset&>(e);
        s += " " + std::to_string(c.id()) + " " + std::to_string(c.uid()) + " " + c.user();
        for (const auto& t : c.tags()) { s += " T"; s += t.key(); s += "="; s += t.value(); }
        s += " k" + std::to_string(c.num_changes()) + " d" + std::to_string(c.num_comments()) +
             " s" + std::to_string(static_cast<uint32_t>(c.created_at())) + " e" + std::to_string(static_cast<uint32_t>(c.closed_at())) +
             " B" + std::to_string(c.bounds().bottom_left().x()) + "," + std::to_string(c.bounds().bottom_left().y()) + "," +
             std::to_string(c.bounds().top_right().x()) + "," + std::to_string(c.bounds().top_right().y());
        for (const auto& cm : c.discussion()) {
            s += " C" + std::to_string(static_cast<uint32_t>(cm.date())) + ":" + std::to_string(cm.uid()) + ":" + vh::hex(cm.user()) + ":" + vh::hex(cm.text());
        }
        return s;
    }
    const auto& o = static_cast<const osmium::OSMObject&>(e);
    s += " " + std::to_string(o.id()) + " v" + std::to_string(o.version()) + (o.visible() ? " V" : " D") +
         " t" + std::to_string(static_cast<uint32_t>(o.timestamp())) + " c" + std::to_string(o.changeset()) +
         " u" + std::to_string(o.uid()) + " " + vh::hex(o.user());
    for (const auto& t : o.tags()) { s += " T" + vh::hex(t.key()) + "=" + vh::hex(t.value()); }
    if (o.type() == osmium::item_type::node) {
        const auto& n = static_cast<const osmium::Node&>(o);
        s += " L" + std::to_string(n.location().x()) + "," + std::to_string(n.location().y());
    } else if (o.type() == osmium::item_type::way) {
        for (const auto& nr : static_cast<const osmium::Way&>(o).nodes()) {
            s += " N" + std::to_string(nr.ref()) + "@" + std::to_string(nr.location().x()) + "," + std::to_string(nr.location().y());
        }
    } else if (o.type() == osmium::item_type::relation) {
        for (const auto& m : static_cast<const osmium::Relation&>(o).members()) {
            s += " M" + std::to_string(static_cast<int>(m.type())) + ":" + std::to_string(m.ref()) + ":" + vh::hex(m.role());
        }
    }
    return s;
}

static std::string run_reader(const std::string& fmt, const std::vector<std::string>& pieces, const std::string& dir) {
    g_pieces = pieces;
    (void)dir;
    static const std::string dummy{"x"};
    uint64_t h = 1469598103934665603ULL;
    std::size_t n = 0;
    std::string hdr;
    try {
        // a memory-buffer File: the registered (mock) buffer decompressor hands out g_pieces
        osmium::io::File file{dummy.data(), dummy.size(), fmt + ".gz"};
        osmium::io::Reader reader{file};
        const auto header = reader.header();
        hdr = header.get("generator");
        for (const auto& b : header.boxes()) {
            hdr += "|" + std::to_string(b.bottom_left().x()) + "," + std::to_string(b.bottom_left().y()) + "," +
                   std::to_string(b.top_right().x()) + "," + std::to_string(b.top_right().y());
        }
        hdr += header.has_multiple_object_versions() ? "|H" : "";
        while (osmium::memory::Buffer buffer = reader.read()) {
            for (const auto& e : buffer.select<osmium::OSMEntity>()) {
                h = fnv(digest_object(e) + "\n", h);
                ++n;
            }
        }
        reader.close();
    } catch (const std::exception& e) {
        return "err:" + class_of(e) + ":" + std::to_string(fnv(e.what()) % 100000000ULL) + (getenv("C06_WHAT") ? std::string{" "} + e.what() : std::string{});
    }
    return "ok n=" + std::to_string(n) + " h=" + std::to_string(h) + " hdr=" + vh::hex(hdr);
}

// The plain file itself: real NoDecompressor (default input_buffer_size reads) / PBF fd path.
static std::string run_reader_file(const std::string& fmt, const std::string& path) {
    uint64_t h = 1469598103934665603ULL;
    std::size_t n = 0;
    std::string hdr;
    try {
        osmium::io::File file{path, fmt};
        osmium::io::Reader reader{file};
        const auto header = reader.header();
        hdr = header.get("generator");
        for (const auto& b : header.boxes()) {
            hdr += "|" + std::to_string(b.bottom_left().x()) + "," + std::to_string(b.bottom_left().y()) + "," +
                   std::to_string(b.top_right().x()) + "," + std::to_string(b.top_right().y());
        }
        hdr += header.has_multiple_object_versions() ? "|H" : "";
        while (osmium::memory::Buffer buffer = reader.read()) {
            for (const auto& e : buffer.select<osmium::OSMEntity>()) {
                h = fnv(digest_object(e) + "\n", h);
                ++n;
            }
        }
        reader.close();
    } catch (const std::exception& e) {
        return "err:" + class_of(e) + ":" + std::to_string(fnv(e.what()) % 100000000ULL) + (getenv("C06_WHAT") ? std::string{" "} + e.what() : std::string{});
    }
    return "ok n=" + std::to_string(n) + " h=" + std::to_string(h) + " hdr=" + vh::hex(hdr);
}

// The same bytes through a FIFO: a writer thread hands the pieces to the kernel with pauses in
// between, so read(2) on the Reader's side returns short counts in the middle of the stream
// (pipes, stdin, child processes).  The REAL NoDecompressor / PBF fd reader are used.
static std::string run_reader_fifo(const std::string& fmt, const std::vector<std::string>& pieces, const std::string& dir) {
    static int counter = 0;
    const std::string path = dir + "/fifo-" + std::to_string(getpid()) + "-" + std::to_string(++counter) + "." + fmt;
    ::unlink(path.c_str());
    if (::mkfifo(path.c_str(), 0600) != 0) return "bad-op";
    std::thread writer{[&]() {
        const int fd = ::open(path.c_str(), O_WRONLY);
        if (fd < 0) return;
        for (const auto& p : pieces) {
            std::size_t off = 0;
            while (off < p.size()) {
                const auto r = ::write(fd, p.data() + off, p.size() - off);
                if (r <= 0) { ::close(fd); return; }
                off += static_cast<std::size_t>(r);
            }
            ::usleep(1500);
        }
        ::close(fd);
    }};
    uint64_t h = 1469598103934665603ULL;
    std::size_t n = 0;
    std::string hdr;
    std::string res;
    try {
        osmium::io::File file{path, fmt};
        osmium::io::Reader reader{file};
        const auto header = reader.header();
        hdr = header.get("generator");
        for (const auto& b : header.boxes()) {
            hdr += "|" + std::to_string(b.bottom_left().x()) + "," + std::to_string(b.bottom_left().y()) + "," +
                   std::to_string(b.top_right().x()) + "," + std::to_string(b.top_right().y());
        }
        hdr += header.has_multiple_object_versions() ? "|H" : "";
        while (osmium::memory::Buffer buffer = reader.read()) {
            for (const auto& e : buffer.select<osmium::OSMEntity>()) {
                h = fnv(digest_object(e) + "\n", h);
                ++n;
            }
        }
        reader.close();
        res = "ok n=" + std::to_string(n) + " h=" + std::to_string(h) + " hdr=" + vh::hex(hdr);
    } catch (const std::exception& e) {
        res = "err:" + class_of(e) + ":" + std::to_string(fnv(e.what()) % 100000000ULL) + (getenv("C06_WHAT") ? std::string{" "} + e.what() : std::string{});
    }
    {   // unblock a writer that is still waiting (Reader gave up early): drain the FIFO
        const int fd = ::open(path.c_str(), O_RDONLY | O_NONBLOCK);
        writer.join();
        if (fd >= 0) ::close(fd);
    }
    ::unlink(path.c_str());
    return res;
}

int main(int argc, char** argv) {
    const std::string dir = argc > 1 ? argv[1] : ".";
    ::signal(SIGPIPE, SIG_IGN);
    // NOTE: no real gzip support is compiled in (no gzip_compression.hpp), so this registration is the only one
    osmium::io::CompressionFactory::instance().register_compression(
        osmium::io::file_compression::gzip,
        [](int, osmium::io::fsync) -> osmium::io::Compressor* { return nullptr; },
        [](int fd) -> osmium::io::Decompressor* { ::close(fd); return new PieceDecompressor{}; },
        [](const char*, std::size_t) -> osmium::io::Decompressor* { return new PieceDecompressor{}; });

    return vh::line_loop([&](const std::string& line) -> std::string {
        const auto w = vh::words(line);
        if (w.empty()) return "bad-op";
        try {
            if ((w[0] == "opl" || w[0] == "oplx") && w.size() == 3) {
                const bool x = w[0] == "oplx";
                std::string data;
                if (!get_data(w[2], data)) return "bad-op";
                OplWorker worker;
                worker.pieces = split_pieces(data, w[1]);
                try {
                    oid::line_by_line(worker);
                } catch (const std::exception& e) {
                    return "err:" + class_of(e);
                }
                std::string out = "L " + std::to_string(worker.lines.size());
                for (const auto& l : worker.lines) out += " " + (x ? dig(l) : vh::hex(l));
                return out;
            }
            if ((w[0] == "pbf" || w[0] == "pbfx") && w.size() == 3) {
                const bool x = w[0] == "pbfx";
                std::string data;
                if (!get_data(w[2], data)) return "bad-op";
                ParserEnv env{split_pieces(data, w[1])};
                oid::PBFParser parser{env.args};
                std::vector<std::string> frames;
                std::string err;
                try {
                    bool first = true;
                    while (true) {
                        // check_type_and_get_blob_size, split so that the header bytes can be shown
                        const auto size = parser.read_blob_header_size_from_file();
                        if (size == 0) break;
                        parser.ensure_available_in_input_queue(size);
                        const std::string hdr{parser.m_input_buffer.data(), size};
                        const auto blob_size = oid::PBFParser::decode_blob_header(protozero::data_view{parser.m_input_buffer.data(), size}, first ? "OSMHeader" : "OSMData");
                        parser.pop_from_input_queue(size);
                        const std::string blob = parser.read_from_input_queue_with_check(blob_size);
                        frames.push_back(x ? dig(hdr) + "/" + dig(blob) : vh::hex(hdr) + ":" + vh::hex(blob));
                        first = false;
                    }
                } catch (const osmium::pbf_error& e) {
                    const std::string m = e.what();
                    if (m.find("truncated") != std::string::npos || m.find("unexpected EOF") != std::string::npos) err = "err:truncated";
                    else if (m.find("BlobHeader size") != std::string::npos) err = "err:header-too-large";
                    else if (m.find("invalid blob size") != std::string::npos) err = "err:blob-too-large";
                    else err = "err:header-format";
                } catch (const protozero::exception&) {
                    err = "err:header-format";
                }
                std::string out = "F " + std::to_string(frames.size());
                for (const auto& f : frames) out += " " + f;
                if (!err.empty()) out += " " + err;
                return out;
            }
            if ((w[0] == "o5m" || w[0] == "o5mx") && w.size() == 4) {
                const bool x = w[0] == "o5mx";
                std::string data;
                if (!get_data(w[3], data)) return "bad-op";
                ParserEnv env{split_pieces(data, w[1])};
                oid::O5mParser parser{env.args};
                std::string out;
                std::size_t p = 0;
                const std::string& sc = w[2];
                while (p < sc.size()) {
                    const auto q = sc.find(',', p);
                    const std::string tok = sc.substr(p, q == std::string::npos ? std::string::npos : q - p);
                    const std::size_t n = std::stoul(tok.substr(1));
                    bool r = true;
                    if (tok[0] == 'e') {
                        r = parser.ensure_bytes_available(n);
                    } else {
                        const std::size_t avail = static_cast<std::size_t>(parser.m_end - parser.m_data);
                        parser.m_data += (n < avail ? n : avail);
                    }
                    if (!out.empty()) out += " ";
                    // the window is only meaningful if it lies inside m_input
                    const char* base = parser.m_input.data();
                    const bool inside = parser.m_data >= base && parser.m_end <= base + parser.m_input.size() && parser.m_data <= parser.m_end;
                    out += std::string{"r"} + (r ? "1" : "0") + ":" + std::to_string(parser.m_data - base) + ":" +
                           (inside ? (x ? digw(std::string{parser.m_data, parser.m_end}) : vh::hex(std::string{parser.m_data, parser.m_end})) : std::string{"STALE"});
                    if (q == std::string::npos) break;
                    p = q + 1;
                }
                return out;
            }
            if (w[0] == "gen" && w.size() == 4) {
                // gen <fmt> <n> <seed>: a small valid file written by the real Writer -> hex
                using namespace osmium::builder::attr;
                const std::string fmt = w[1];
                const std::size_t n = std::stoul(w[2]);
                vh::SplitMix64 rng{std::stoull(w[3])};
                const std::string path = dir + "/c06gen." + fmt;
                {
                    osmium::io::File file{path, fmt == "pbf" ? "pbf,pbf_compression=none" : fmt};
                    osmium::io::Header header;
                    header.set("generator", "c06");
                    osmium::io::Writer writer{file, header, osmium::io::overwrite::allow};
                    osmium::memory::Buffer buffer{4096, osmium::memory::Buffer::auto_grow::yes};
                    static const char* keys[] = {"highway", "name", "k=v", "a b", "x,y", "ref"};
                    for (std::size_t i = 0; i < n; ++i) {
                        const int kind = i < (n + 2) / 3 ? 0 : (i < 2 * (n + 1) / 3 ? 1 : 2);
                        const int64_t id = static_cast<int64_t>(i * 3 + 1 + rng.below(3));
                        const std::string user = rng.below(3) ? "user" + std::to_string(rng.below(4)) : "";
                        std::vector<std::pair<const char*, const char*>> tags;
                        for (std::size_t k = rng.below(3); k > 0; --k) tags.emplace_back(keys[rng.below(6)], keys[rng.below(6)]);
                        if (kind == 0) {
                            osmium::builder::add_node(buffer, _id(id), _version(1 + rng.below(3)), _timestamp(osmium::Timestamp{static_cast<uint32_t>(1000000 + rng.below(100000))}),
                                _cid(rng.below(1000)), _uid(rng.below(50)), _user(user),
                                _location(osmium::Location{static_cast<int32_t>(static_cast<int64_t>(rng.below(3600000001ULL)) - 1800000000), static_cast<int32_t>(static_cast<int64_t>(rng.below(1800000001ULL)) - 900000000)}), _tags(tags));
                        } else if (kind == 1) {
                            std::vector<osmium::object_id_type> refs;
                            for (std::size_t k = 1 + rng.below(5); k > 0; --k) refs.push_back(static_cast<int64_t>(1 + rng.below(100)));
                            osmium::builder::add_way(buffer, _id(id), _version(1), _timestamp(osmium::Timestamp{static_cast<uint32_t>(1000000 + rng.below(100000))}),
                                _cid(rng.below(1000)), _uid(rng.below(50)), _user(user), _nodes(refs), _tags(tags));
                        } else {
                            std::vector<osmium::builder::attr::member_type> members;
                            for (std::size_t k = rng.below(4); k > 0; --k) members.emplace_back(osmium::nwr_index_to_item_type(static_cast<unsigned>(rng.below(3))), static_cast<int64_t>(1 + rng.below(100)), keys[rng.below(6)]);
                            osmium::builder::add_relation(buffer, _id(id), _version(1), _timestamp(osmium::Timestamp{static_cast<uint32_t>(1000000 + rng.below(100000))}),
                                _cid(rng.below(1000)), _uid(rng.below(50)), _user(user), _members(members), _tags(tags));
                        }
                    }
                    writer(std::move(buffer));
                    writer.close();
                }
                std::ifstream in{path, std::ios::binary};
                const std::string bytes{std::istreambuf_iterator<char>{in}, std::istreambuf_iterator<char>{}};
                ::unlink(path.c_str());
                return vh::hex(bytes);
            }
            if (w[0] == "genfile" && w.size() == 6) {
                // genfile <fmt> <kind> <n> <seed> <path>: small objects around ONE huge object (a way with n
                // node refs or a relation with n members), written by the real Writer
                using namespace osmium::builder::attr;
                const std::string fmt = w[1];
                const std::string kind = w[2];
                const std::size_t n = std::stoul(w[3]);
                vh::SplitMix64 rng{std::stoull(w[4])};
                const std::string path = w[5];
                {
                    osmium::io::File file{path, fmt == "pbf" ? "pbf,pbf_compression=none" : fmt};
                    osmium::io::Header header;
                    header.set("generator", "c06");
                    osmium::io::Writer writer{file, header, osmium::io::overwrite::allow};
                    osmium::memory::Buffer buffer{1024 * 1024, osmium::memory::Buffer::auto_grow::yes};
                    const std::size_t nn = 2 + rng.below(4);
                    for (std::size_t i = 0; i < nn; ++i) {
                        osmium::builder::add_node(buffer, _id(static_cast<int64_t>(i + 1)), _version(1), _timestamp(osmium::Timestamp{static_cast<uint32_t>(1000000 + rng.below(100000))}),
                            _cid(rng.below(1000)), _uid(rng.below(50)), _user("u"),
                            _location(osmium::Location{static_cast<int32_t>(rng.below(1000000)), static_cast<int32_t>(rng.below(1000000))}), _tag("k", "v"));
                    }
                    if (kind == "way") {
                        std::vector<osmium::object_id_type> refs;
                        refs.reserve(n);
                        for (std::size_t k = 0; k < n; ++k) refs.push_back(static_cast<int64_t>(1 + rng.below(1ULL << 40)));
                        osmium::builder::add_way(buffer, _id(10), _version(1), _timestamp(osmium::Timestamp{1000000U}), _cid(1), _uid(1), _user("u"), _nodes(refs), _tag("highway", "x"));
                        osmium::builder::add_way(buffer, _id(11), _version(1), _timestamp(osmium::Timestamp{1000001U}), _cid(1), _uid(1), _user("u"), _nodes({1, 2, 3}));
                    } else {
                        static const char* roles[] = {"", "outer", "inner", "a b"};
                        std::vector<osmium::builder::attr::member_type> members;
                        members.reserve(n);
                        for (std::size_t k = 0; k < n; ++k) members.emplace_back(osmium::nwr_index_to_item_type(static_cast<unsigned>(rng.below(3))), static_cast<int64_t>(1 + rng.below(1ULL << 40)), roles[rng.below(4)]);
                        osmium::builder::add_way(buffer, _id(10), _version(1), _timestamp(osmium::Timestamp{1000000U}), _cid(1), _uid(1), _user("u"), _nodes({1, 2}));
                        osmium::builder::add_relation(buffer, _id(20), _version(1), _timestamp(osmium::Timestamp{1000000U}), _cid(1), _uid(1), _user("u"), _members(members), _tag("type", "x"));
                        osmium::builder::add_relation(buffer, _id(21), _version(1), _timestamp(osmium::Timestamp{1000001U}), _cid(1), _uid(1), _user("u"), _tag("type", "y"));
                    }
                    writer(std::move(buffer));
                    writer.close();
                }
                struct stat st{};
                if (::stat(path.c_str(), &st) != 0) return "bad-op";
                return "ok " + std::to_string(st.st_size);
            }
            if (w[0] == "file" && w.size() == 3 && w[2].size() > 1 && w[2][0] == '@') {
                return run_reader_file(w[1], w[2].substr(1));
            }
            if (w[0] == "fifo" && w.size() == 4) {
                std::string data;
                if (!get_data(w[3], data)) return "bad-op";
                return run_reader_fifo(w[1], split_pieces(data, w[2]), dir);
            }
            if (w[0] == "reader" && w.size() == 4) {
                std::string data;
                if (!get_data(w[3], data)) return "bad-op";
                return run_reader(w[1], split_pieces(data, w[2]), dir);
            }
        } catch (const std::exception& e) {
            return "exception:" + class_of(e);
        }
        return "bad-op";
    });
}
