// C08 harness: fault-injecting test bench for "osmium::io::Writer produces the complete file
// or throws; OS write errors are never lost".
//
// The executable interposes write/fsync/close/dup/open/open64/fdopen/fileno (Part A) and
// drives the REAL osmium::io::Writer / reliable_write against a fault plan (Part B).
//
//   rw <size> <sched>
//       -> rw calls=<n>:<r>,... res=<ok|sys:E> total=<bytes> inorder=<0|1> [runaway=1]
//   run fmt=<opl|xml|pbf|debug|ids|blackhole|mock> comp=<none|gz|bz2> fsync=<0|1> script=<s> fault=<f>
//       stdio=<cookie|real> qmax=<n> pool=<n> perturb=<seed> trace=<0|1> [mock=<m>] [pbfopt=<s>]
//       [ibuf=<n>] [tag=<n>]
//     script: comma list of  b<k> operator()(Buffer with k objects)   a1 operator()(Buffer holding only an Area)
//                            i<k> k x operator()(Item: node/way/relation)   j<k> k x operator()(Item: an Area)
//                            f flush()   c close()
//     ibuf=<n>: Writer::set_buffer_size(n) (internal item buffer; "buffer is full" path)
//     tag=<n>:  every object gets n extra pseudo-random tag-value characters (badly compressible output)
//     fault parts: w@<o>:<E>[:p|:t|:pt]  wk@<k>:<E> (the k-th write(2) call fails ONCE, later ones succeed)
//                  fsync:<E>  close:<k>:<E>  short:<m>  eintr:<n>  rlimit@<o>  dup  fdopen
//     debug/ids have no reader: the file is compared with a reference (debug: what a fresh Writer
//     produces for ALL handed-over objects in ONE buffer; ids: an independent re-implementation)
//       -> run ctor=.. calls=.. file=.. decode=.. nobj=.. match=.. prefix=.. w=c/b/f/e/s
//          fs=c/f cl=c/f dup=n late=n hang=0|1 [chunks=..] [leaked=n]
//   probe comp=<none|gz|bz2> stdio=<cookie|real> [fsync=<0|1>]
//       -> probe interposed_bytes=.. file=.. writes=.. fsyncs=.. closes=.. dups=..
//   fds -> fds open=<open fds of the process> targets=<registered> cookies=<used slots>
//
// argv[1] = scratch directory (default /verif/.build/c08_run), argv[2] = watchdog seconds (20).

#ifdef _FORTIFY_SOURCE
# undef _FORTIFY_SOURCE
#endif
#ifndef _GNU_SOURCE
# define _GNU_SOURCE 1
#endif

#include "common.hpp"

#include <osmium/builder/attr.hpp>
#include <osmium/builder/osm_object_builder.hpp>
#include <osmium/io/bzip2_compression.hpp>
#include <osmium/io/debug_output.hpp>
#include <osmium/io/ids_output.hpp>
#include <osmium/io/gzip_compression.hpp>
#include <osmium/io/opl_input.hpp>
#include <osmium/io/opl_output.hpp>
#include <osmium/io/pbf_input.hpp>
#include <osmium/io/pbf_output.hpp>
#include <osmium/io/reader.hpp>
#include <osmium/io/writer.hpp>
#include <osmium/io/xml_input.hpp>
#include <osmium/io/xml_output.hpp>
#include <osmium/memory/buffer.hpp>
#include <osmium/osm.hpp>
#include <osmium/thread/pool.hpp>

#include <atomic>
#include <chrono>
#include <cstdarg>
#include <cstdlib>
#include <cstring>
#include <memory>
#include <mutex>
#include <optional>
#include <thread>

#include <dlfcn.h>
#include <fcntl.h>
#include <signal.h>
#include <sys/resource.h>
#include <sys/stat.h>
#include <unistd.h>

// ===========================================================================================
// Part A: the interposer
// ===========================================================================================

namespace ip {

using write_fn  = ssize_t (*)(int, const void*, size_t);
using fsync_fn  = int (*)(int);
using close_fn  = int (*)(int);
using dup_fn    = int (*)(int);
using open_fn   = int (*)(const char*, int, ...);
using fdopen_fn = FILE* (*)(int, const char*);
using fileno_fn = int (*)(FILE*);

template <typename F>
struct Real {
    std::atomic<F> p{nullptr};
    const char* name;
    constexpr explicit Real(const char* n) : name(n) {}
    F get() {
        F f = p.load(std::memory_order_acquire);
        if (!f) {
            f = reinterpret_cast<F>(dlsym(RTLD_NEXT, name));
            if (!f) {
                _exit(97);
            }
            p.store(f, std::memory_order_release);
        }
        return f;
    }
};

static Real<write_fn> r_write{"write"};
static Real<fsync_fn> r_fsync{"fsync"};
static Real<close_fn> r_close{"close"};
static Real<dup_fn> r_dup{"dup"};
static Real<open_fn> r_open{"open"};
static Real<open_fn> r_open64{"open64"};
static Real<fdopen_fn> r_fdopen{"fdopen"};
static Real<fileno_fn> r_fileno{"fileno"};

// resolve everything before main so that no dlsym happens inside write()
__attribute__((constructor)) static void resolve_all() {
    r_write.get();
    r_fsync.get();
    r_close.get();
    r_dup.get();
    r_open.get();
    r_open64.get();
    r_fdopen.get();
    r_fileno.get();
}

// ---- target fd table ------------------------------------------------------------------

constexpr int max_targets = 8;
struct TSlot {
    std::atomic<int> fd{-1};
};
static TSlot g_targets[max_targets];

static bool is_target(int fd) noexcept {
    if (fd < 0) {
        return false;
    }
    for (auto& s : g_targets) {
        if (s.fd.load(std::memory_order_acquire) == fd) {
            return true;
        }
    }
    return false;
}

static std::mutex g_mx; // protects plan, offsets, the tables (registration), g_path

static bool register_target_locked(int fd) noexcept {
    for (auto& s : g_targets) {
        if (s.fd.load(std::memory_order_relaxed) == -1) {
            s.fd.store(fd, std::memory_order_release);
            return true;
        }
    }
    return false; // table full: cannot happen with the library's fd usage
}

static void unregister_target_locked(int fd) noexcept {
    for (auto& s : g_targets) {
        if (s.fd.load(std::memory_order_relaxed) == fd) {
            s.fd.store(-1, std::memory_order_release);
        }
    }
}

// ---- cookie streams ---------------------------------------------------------------------

struct CSlot {
    std::atomic<FILE*> fp{nullptr};
    std::atomic<bool> used{false};
    int fd = -1;
};
constexpr int max_cookies = 8;
static CSlot g_cookies[max_cookies];

// ---- the plan and the counters ------------------------------------------------------------

struct WFault {
    int64_t off = 0;
    int err = 0;
    bool partial = false;
    bool transient = false;
    bool spent = false; // transient fault already delivered
    int64_t call = 0;   // > 0: "the call-th write(2) on the output fails once" (off is ignored)
};

struct SchedTok {
    char kind = 'k'; // k, i, e
    int64_t val = 0;
};

struct RwCall {
    uint64_t n;
    char kind; // k, i, e
    int64_t val;
};

struct Plan {
    bool active = false;  // a run is in progress (open() registers the path)
    bool swallow = false; // rw mode
    bool cookie = true;   // stdio mode
    int nw = 0;
    WFault w[4];
    int fsync_err = 0;
    int close_k = 0;
    int close_err = 0;
    int64_t short_m = 0;
    int64_t eintr_n = 0;
    bool dup_fault = false;
    bool fdopen_fault = false;
    bool perturb = false;
    vh::SplitMix64 rng{0};
    char path[512] = {0};
    int64_t off = 0;
    // swallow mode
    std::vector<SchedTok> sched;
    std::size_t sched_pos = 0;
    const char* pattern = nullptr;
    std::size_t pattern_size = 0;
    bool inorder = true;
    bool runaway = false;
    std::vector<RwCall> rwcalls;
    uint64_t rwcalls_total = 0;
};
static Plan g_plan;

struct Counters {
    std::atomic<uint64_t> wcalls{0}, wbytes{0}, wfaults{0}, weintr{0}, wshort{0};
    std::atomic<uint64_t> fscalls{0}, fsfaults{0};
    std::atomic<uint64_t> clcalls{0}, clfaults{0};
    std::atomic<uint64_t> dups{0};
    std::atomic<uint64_t> late{0};
    void reset() {
        wcalls = 0; wbytes = 0; wfaults = 0; weintr = 0; wshort = 0;
        fscalls = 0; fsfaults = 0; clcalls = 0; clfaults = 0; dups = 0; late = 0;
    }
};
static Counters g_cnt;

static std::atomic<int> g_phase{0}; // 0 = before Writer::close() returned, 1 = after

constexpr std::size_t max_chunks = 4096;
static uint64_t g_chunks[max_chunks];
static std::atomic<std::size_t> g_nchunks{0};

static void fault_fired() noexcept {
    if (g_phase.load(std::memory_order_relaxed) != 0) {
        g_cnt.late.fetch_add(1, std::memory_order_relaxed);
    }
}

// write() on a target fd in swallow mode (rw op). g_mx held.
static ssize_t swallow_write_locked(const void* buf, size_t n) {
    Plan& p = g_plan;
    const uint64_t idx = g_cnt.wcalls.load(std::memory_order_relaxed);
    ++p.rwcalls_total;
    RwCall rc{n, 'k', 0};
    ssize_t result = 0;
    int err = 0;
    if (idx > 200) {
        p.runaway = true;
        rc.kind = 'e';
        rc.val = 5;
        result = -1;
        err = 5;
    } else {
        SchedTok t;
        t.kind = 'k';
        t.val = static_cast<int64_t>(n);
        if (p.sched_pos < p.sched.size()) {
            t = p.sched[p.sched_pos++];
        }
        // check the bytes presented
        const auto off = static_cast<std::size_t>(p.off);
        if (off + n > p.pattern_size || (n > 0 && std::memcmp(buf, p.pattern + off, n) != 0)) {
            p.inorder = false;
        }
        if (t.kind == 'i') {
            rc.kind = 'i';
            result = -1;
            err = EINTR;
            g_cnt.weintr.fetch_add(1, std::memory_order_relaxed);
        } else if (t.kind == 'e') {
            rc.kind = 'e';
            rc.val = t.val;
            result = -1;
            err = static_cast<int>(t.val);
            g_cnt.wfaults.fetch_add(1, std::memory_order_relaxed);
        } else {
            const auto k = static_cast<uint64_t>(t.val) < n ? static_cast<uint64_t>(t.val) : static_cast<uint64_t>(n);
            rc.val = static_cast<int64_t>(k);
            result = static_cast<ssize_t>(k);
            p.off += static_cast<int64_t>(k);
            g_cnt.wbytes.fetch_add(k, std::memory_order_relaxed);
            if (k < n) {
                g_cnt.wshort.fetch_add(1, std::memory_order_relaxed);
            }
        }
    }
    if (p.rwcalls.size() < 40) {
        p.rwcalls.push_back(rc);
    }
    if (result < 0) {
        errno = err;
    }
    return result;
}

static ssize_t target_write(int fd, const void* buf, size_t n) {
    unsigned sleep_us = 0;
    {
        const std::lock_guard<std::mutex> lock{g_mx};
        if (g_plan.perturb) {
            const uint64_t r = g_plan.rng.next();
            if (r & 1U) {
                sleep_us = static_cast<unsigned>((r >> 1U) % 301U);
            }
        }
    }
    if (sleep_us) {
        ::usleep(sleep_us);
    }

    const std::lock_guard<std::mutex> lock{g_mx};
    Plan& p = g_plan;
    const uint64_t idx = g_cnt.wcalls.fetch_add(1, std::memory_order_relaxed) + 1;
    {
        const std::size_t c = g_nchunks.load(std::memory_order_relaxed);
        if (c < max_chunks) {
            g_chunks[c] = n;
            g_nchunks.store(c + 1, std::memory_order_release);
        }
    }

    if (p.swallow) {
        return swallow_write_locked(buf, n);
    }

    if (p.eintr_n > 0 && idx % static_cast<uint64_t>(p.eintr_n) == 0) {
        g_cnt.weintr.fetch_add(1, std::memory_order_relaxed);
        errno = EINTR;
        return -1;
    }

    size_t m = n;
    if (p.short_m > 0 && m > static_cast<size_t>(p.short_m)) {
        m = static_cast<size_t>(p.short_m);
    }

    for (int i = 0; i < p.nw; ++i) {
        WFault& f = p.w[i];
        if (f.spent) {
            continue;
        }
        if (f.call > 0) {
            if (static_cast<uint64_t>(f.call) == idx) {
                f.spent = true;
                g_cnt.wfaults.fetch_add(1, std::memory_order_relaxed);
                fault_fired();
                errno = f.err;
                return -1;
            }
            continue;
        }
        if (p.off + static_cast<int64_t>(m) > f.off) {
            if (f.partial && p.off < f.off) {
                m = static_cast<size_t>(f.off - p.off); // short write up to the fault offset
                continue;
            }
            if (f.transient) {
                f.spent = true;
            }
            g_cnt.wfaults.fetch_add(1, std::memory_order_relaxed);
            fault_fired();
            errno = f.err;
            return -1;
        }
    }

    const ssize_t r = r_write.get()(fd, buf, m);
    const int saved = errno;
    if (r > 0) {
        p.off += r;
        g_cnt.wbytes.fetch_add(static_cast<uint64_t>(r), std::memory_order_relaxed);
    }
    if (r >= 0 && static_cast<size_t>(r) < n) {
        g_cnt.wshort.fetch_add(1, std::memory_order_relaxed);
    }
    errno = saved;
    return r;
}

// glibc's _IO_new_file_write: loop over write() until done or error; no EINTR retry.
static ssize_t cookie_write(void* cookie, const char* buf, size_t size);
static int cookie_close(void* cookie);

} // namespace ip

extern "C" {

ssize_t write(int fd, const void* buf, size_t n) {
    if (!ip::is_target(fd)) {
        return ip::r_write.get()(fd, buf, n);
    }
    return ip::target_write(fd, buf, n);
}

int fsync(int fd) {
    if (!ip::is_target(fd)) {
        return ip::r_fsync.get()(fd);
    }
    int err = 0;
    {
        const std::lock_guard<std::mutex> lock{ip::g_mx};
        ip::g_cnt.fscalls.fetch_add(1, std::memory_order_relaxed);
        err = ip::g_plan.fsync_err;
        if (err) {
            ip::g_cnt.fsfaults.fetch_add(1, std::memory_order_relaxed);
            ip::fault_fired();
        }
    }
    if (err) {
        errno = err;
        return -1;
    }
    return ip::r_fsync.get()(fd);
}

int close(int fd) {
    if (!ip::is_target(fd)) {
        return ip::r_close.get()(fd);
    }
    int err = 0;
    {
        const std::lock_guard<std::mutex> lock{ip::g_mx};
        const uint64_t k = ip::g_cnt.clcalls.fetch_add(1, std::memory_order_relaxed) + 1;
        ip::unregister_target_locked(fd);
        if (ip::g_plan.close_k > 0 && k == static_cast<uint64_t>(ip::g_plan.close_k)) {
            err = ip::g_plan.close_err;
            ip::g_cnt.clfaults.fetch_add(1, std::memory_order_relaxed);
            ip::fault_fired();
        }
    }
    const int r = ip::r_close.get()(fd); // always really close
    if (err) {
        errno = err;
        return -1;
    }
    return r;
}

int dup(int fd) noexcept {
    if (!ip::is_target(fd)) {
        return ip::r_dup.get()(fd);
    }
    const std::lock_guard<std::mutex> lock{ip::g_mx};
    ip::g_cnt.dups.fetch_add(1, std::memory_order_relaxed);
    if (ip::g_plan.dup_fault) {
        errno = EMFILE;
        return -1;
    }
    const int nfd = ip::r_dup.get()(fd);
    if (nfd >= 0) {
        ip::register_target_locked(nfd);
    }
    return nfd;
}

static int c08_open_common(ip::open_fn real, const char* path, int flags, mode_t mode) {
    const int fd = real(path, flags, mode);
    if (fd >= 0 && path && (flags & O_ACCMODE) == O_WRONLY) {
        const int saved = errno;
        {
            const std::lock_guard<std::mutex> lock{ip::g_mx};
            if (ip::g_plan.active && ip::g_plan.path[0] != '\0' && std::strcmp(path, ip::g_plan.path) == 0) {
                ip::register_target_locked(fd);
            }
        }
        errno = saved;
    }
    return fd;
}

int open(const char* path, int flags, ...) {
    mode_t mode = 0;
    if ((flags & O_CREAT) || (flags & O_TMPFILE) == O_TMPFILE) {
        va_list ap;
        va_start(ap, flags);
        mode = static_cast<mode_t>(va_arg(ap, int));
        va_end(ap);
    }
    return c08_open_common(ip::r_open.get(), path, flags, mode);
}

int open64(const char* path, int flags, ...) {
    mode_t mode = 0;
    if ((flags & O_CREAT) || (flags & O_TMPFILE) == O_TMPFILE) {
        va_list ap;
        va_start(ap, flags);
        mode = static_cast<mode_t>(va_arg(ap, int));
        va_end(ap);
    }
    return c08_open_common(ip::r_open64.get(), path, flags, mode);
}

FILE* fdopen(int fd, const char* mode) noexcept {
    if (!ip::is_target(fd)) {
        return ip::r_fdopen.get()(fd, mode);
    }
    ip::CSlot* slot = nullptr;
    {
        const std::lock_guard<std::mutex> lock{ip::g_mx};
        if (ip::g_plan.fdopen_fault) {
            errno = ENOMEM;
            return nullptr;
        }
        if (!ip::g_plan.cookie) {
            return ip::r_fdopen.get()(fd, mode);
        }
        for (auto& s : ip::g_cookies) {
            if (!s.used.load(std::memory_order_relaxed)) {
                s.used.store(true, std::memory_order_relaxed);
                s.fd = fd;
                slot = &s;
                break;
            }
        }
    }
    if (!slot) {
        errno = ENOMEM;
        return nullptr;
    }
    cookie_io_functions_t funcs;
    funcs.read = nullptr;
    funcs.write = ip::cookie_write;
    funcs.seek = nullptr;
    funcs.close = ip::cookie_close;
    FILE* fp = fopencookie(slot, mode, funcs);
    if (!fp) {
        const int saved = errno;
        slot->used.store(false, std::memory_order_release);
        errno = saved;
        return nullptr;
    }
    slot->fp.store(fp, std::memory_order_release);
    return fp;
}

int fileno(FILE* fp) noexcept {
    if (fp) {
        for (auto& s : ip::g_cookies) {
            if (s.fp.load(std::memory_order_acquire) == fp) {
                return s.fd;
            }
        }
    }
    return ip::r_fileno.get()(fp);
}

} // extern "C"

namespace ip {

static ssize_t cookie_write(void* cookie, const char* buf, size_t size) {
    auto* slot = static_cast<CSlot*>(cookie);
    size_t done = 0;
    while (done < size) {
        const ssize_t r = ::write(slot->fd, buf + done, size - done);
        if (r < 0) {
            break; // errno stays set; done < size makes glibc set the error flag
        }
        done += static_cast<size_t>(r);
    }
    return static_cast<ssize_t>(done);
}

static int cookie_close(void* cookie) {
    auto* slot = static_cast<CSlot*>(cookie);
    const int fd = slot->fd;
    slot->fp.store(nullptr, std::memory_order_release);
    slot->fd = -1;
    slot->used.store(false, std::memory_order_release);
    return ::close(fd);
}

} // namespace ip

// ===========================================================================================
// Part B: ops
// ===========================================================================================

namespace {

using osmium::memory::Buffer;

std::string g_dir = "/verif/.build/c08_run";
uint64_t g_run_counter = 0;
int64_t g_watchdog_ms = 20000;
bool g_keep_files = false; // environment C08_KEEP=1: do not unlink the run files (debugging aid)

// ---- exception classification -----------------------------------------------------------------

struct MockError : public std::runtime_error {
    MockError() : std::runtime_error("mock") {}
};

std::string classify(const std::exception_ptr& ep) {
    try {
        std::rethrow_exception(ep);
    } catch (const osmium::gzip_error& e) {
        return "gzip:" + std::to_string(e.system_errno);
    } catch (const osmium::bzip2_error& e) {
        return "bzip2:" + std::to_string(e.system_errno);
    } catch (const osmium::pbf_error&) {
        return "pbf";
    } catch (const osmium::xml_error&) {
        return "xml";
    } catch (const osmium::opl_error&) {
        return "opl";
    } catch (const osmium::format_version_error&) {
        return "format";
    } catch (const osmium::io_error&) {
        return "io";
    } catch (const std::system_error& e) {
        return "sys:" + std::to_string(e.code().value());
    } catch (const MockError&) {
        return "mock";
    } catch (...) {
        return "other";
    }
}

// ---- mock output format -------------------------------------------------------------------------

enum class mock_fault { none, hdr, buf, blk, end, empty };

struct MockCfg {
    std::atomic<int> kind{0};
    std::atomic<int> j{0};
    std::atomic<int> counter{0};
};
MockCfg g_mock;

struct MockBlock {
    int j;
    std::size_t n;
    int fault; // 0 none, 1 throw, 2 empty

    std::string operator()() const {
        if (fault == 1) {
            throw MockError{};
        }
        if (fault == 2) {
            return std::string{};
        }
        return "block " + std::to_string(j) + " " + std::to_string(n) + "\n";
    }
};

class MockOutputFormat final : public osmium::io::detail::OutputFormat {

public:

    MockOutputFormat(osmium::thread::Pool& pool, const osmium::io::File& /*file*/, osmium::io::detail::future_string_queue_type& output_queue) :
        OutputFormat(pool, output_queue) {
    }

    void write_header(const osmium::io::Header& /*header*/) override {
        if (g_mock.kind == static_cast<int>(mock_fault::hdr)) {
            throw MockError{};
        }
    }

    void write_buffer(Buffer&& buffer) override {
        const int j = ++g_mock.counter;
        const int kind = g_mock.kind;
        const int fj = g_mock.j;
        if (kind == static_cast<int>(mock_fault::buf) && j == fj) {
            throw MockError{};
        }
        std::size_t n = 0;
        for (auto it = buffer.cbegin(); it != buffer.cend(); ++it) {
            ++n;
        }
        int fault = 0;
        if (j == fj) {
            if (kind == static_cast<int>(mock_fault::blk)) {
                fault = 1;
            } else if (kind == static_cast<int>(mock_fault::empty)) {
                fault = 2;
            }
        }
        m_output_queue.push(m_pool.submit(MockBlock{j, n, fault}));
    }

    void write_end() override {
        if (g_mock.kind == static_cast<int>(mock_fault::end)) {
            throw MockError{};
        }
    }

}; // class MockOutputFormat

// The mock encoder borrows the factory slot of file_format::debug for the duration of a
// `fmt=mock` run; every other run (re-)installs the real DebugOutputFormat there.
void install_debug_slot(bool mock) {
    auto& factory = osmium::io::detail::OutputFormatFactory::instance();
    if (mock) {
        factory.register_output_format(osmium::io::file_format::debug,
            [](osmium::thread::Pool& pool, const osmium::io::File& file, osmium::io::detail::future_string_queue_type& output_queue) -> osmium::io::detail::OutputFormat* {
                return new MockOutputFormat(pool, file, output_queue);
        });
    } else {
        factory.register_output_format(osmium::io::file_format::debug,
            [](osmium::thread::Pool& pool, const osmium::io::File& file, osmium::io::detail::future_string_queue_type& output_queue) -> osmium::io::detail::OutputFormat* {
                return new osmium::io::detail::DebugOutputFormat(pool, file, output_queue);
        });
    }
}

// ---- objects -----------------------------------------------------------------------------------------

struct Obj {
    int type = 0; // 1 node, 2 way, 3 relation
    int64_t id = 0;
    uint32_t version = 0;
    std::string tagval;
    std::size_t n = 0;
    int32_t x = 0;
    int32_t y = 0;
    bool operator==(const Obj& o) const {
        return type == o.type && id == o.id && version == o.version && tagval == o.tagval && n == o.n && x == o.x && y == o.y;
    }
};

int obj_type(uint64_t g) {
    return g % 7 == 0 ? 3 : (g % 3 == 0 ? 2 : 1);
}

osmium::Location obj_location(uint64_t g) {
    return osmium::Location{static_cast<double>(static_cast<int64_t>(g % 360) - 180) + 0.5,
                            static_cast<double>(static_cast<int64_t>(g % 170) - 85) + 0.25};
}

int64_t g_tag_extra = 0; // run option tag=<n>

// tag value of object g: "value-<g>" plus g_tag_extra pseudo-random characters (a function of g
// only) so that the compressed output of a run can be made larger than zlib's / stdio's buffers
std::string tag_value(uint64_t g) {
    std::string v = "value-" + std::to_string(g);
    if (g_tag_extra > 0) {
        static const char alphabet[] = "abcdefghijklmnopqrstuvwxyzABCDEFGHIJKLMNOPQRSTUVWXYZ0123456789-_";
        vh::SplitMix64 seeder{g ^ 0xc08c08c08c08ULL};
        vh::SplitMix64 rng{seeder.next()}; // streams of different objects are unrelated
        v += '-';
        for (int64_t i = 0; i < g_tag_extra; ++i) {
            v += alphabet[rng.next() & 63U];
        }
    }
    return v;
}

Obj expected_obj(uint64_t g) {
    Obj o;
    o.type = obj_type(g);
    o.id = static_cast<int64_t>(g);
    o.version = 1;
    o.tagval = tag_value(g);
    if (o.type == 1) {
        const auto loc = obj_location(g);
        o.x = loc.x();
        o.y = loc.y();
    } else if (o.type == 2) {
        o.n = 3;
    } else {
        o.n = 1;
    }
    return o;
}

void add_object(Buffer& buffer, uint64_t g) {
    using namespace osmium::builder::attr; // NOLINT(google-build-using-namespace)
    const std::string user = "u" + std::to_string(g % 5);
    const std::string key = "k" + std::to_string(g % 4);
    const std::string val = tag_value(g);
    const auto id = static_cast<osmium::object_id_type>(g);
    const osmium::Timestamp ts{static_cast<uint32_t>(1500000000ULL + g)};
    const auto uid = static_cast<osmium::user_id_type>(1 + g % 5);
    switch (obj_type(g)) {
        case 3:
            osmium::builder::add_relation(buffer, _id(id), _version(1), _cid(1), _timestamp(ts), _uid(uid), _user(user.c_str()), _visible(true),
                                          _tag(key.c_str(), val.c_str()), _member(osmium::item_type::node, id));
            break;
        case 2:
            osmium::builder::add_way(buffer, _id(id), _version(1), _cid(1), _timestamp(ts), _uid(uid), _user(user.c_str()), _visible(true),
                                     _tag(key.c_str(), val.c_str()), _nodes({id, id + 1, id + 2}));
            break;
        default:
            osmium::builder::add_node(buffer, _id(id), _version(1), _cid(1), _timestamp(ts), _uid(uid), _user(user.c_str()), _visible(true),
                                      _tag(key.c_str(), val.c_str()), _location(obj_location(g)));
            break;
    }
}

Obj decoded_obj(const osmium::OSMObject& obj) {
    Obj o;
    switch (obj.type()) {
        case osmium::item_type::node:
            o.type = 1;
            break;
        case osmium::item_type::way:
            o.type = 2;
            break;
        case osmium::item_type::relation:
            o.type = 3;
            break;
        default:
            o.type = 9;
            break;
    }
    o.id = obj.id();
    o.version = obj.version();
    if (!obj.tags().empty()) {
        o.tagval = obj.tags().begin()->value();
    }
    if (o.type == 1) {
        const auto loc = static_cast<const osmium::Node&>(obj).location();
        o.x = loc.x();
        o.y = loc.y();
    } else if (o.type == 2) {
        o.n = static_cast<const osmium::Way&>(obj).nodes().size();
    } else if (o.type == 3) {
        o.n = static_cast<const osmium::Relation&>(obj).members().size();
    }
    return o;
}

// ---- watchdog ----------------------------------------------------------------------------------------

int64_t now_ms() {
    return std::chrono::duration_cast<std::chrono::milliseconds>(std::chrono::steady_clock::now().time_since_epoch()).count();
}

struct RunInfo {
    std::mutex mx;
    std::string op;     // "run", "rw", "probe"
    std::string ctor;   // empty = not known yet
    std::vector<std::string> calls;
    int stage = 0;      // 0 ctor, 1 script call, 2 dtor, 3 decode, 4 done
    std::string path;
    bool trace = false;
    bool rlimit_set = false;
    struct rlimit old_limit{};
};
RunInfo g_info;

std::atomic<int64_t> g_deadline{0}; // 0 = idle, -1 = watchdog fired

long file_size_of(const std::string& path) {
    struct stat st{};
    if (::stat(path.c_str(), &st) != 0) {
        return -1;
    }
    return static_cast<long>(st.st_size);
}

std::string counters_string() {
    std::string s;
    s += " w=" + std::to_string(ip::g_cnt.wcalls.load()) + "/" + std::to_string(ip::g_cnt.wbytes.load()) + "/" +
         std::to_string(ip::g_cnt.wfaults.load()) + "/" + std::to_string(ip::g_cnt.weintr.load()) + "/" + std::to_string(ip::g_cnt.wshort.load());
    s += " fs=" + std::to_string(ip::g_cnt.fscalls.load()) + "/" + std::to_string(ip::g_cnt.fsfaults.load());
    s += " cl=" + std::to_string(ip::g_cnt.clcalls.load()) + "/" + std::to_string(ip::g_cnt.clfaults.load());
    s += " dup=" + std::to_string(ip::g_cnt.dups.load());
    s += " late=" + std::to_string(ip::g_cnt.late.load());
    return s;
}

std::string chunks_string() {
    const std::size_t c = ip::g_nchunks.load(std::memory_order_acquire);
    if (c == 0) {
        return " chunks=-";
    }
    std::string s = " chunks=";
    for (std::size_t i = 0; i < c; ++i) {
        if (i) {
            s += ',';
        }
        s += std::to_string(ip::g_chunks[i]);
    }
    return s;
}

std::string join_calls(const std::vector<std::string>& calls) {
    if (calls.empty()) {
        return "-";
    }
    std::string s;
    for (std::size_t i = 0; i < calls.size(); ++i) {
        if (i) {
            s += ';';
        }
        s += calls[i];
    }
    return s;
}

void watchdog_main() {
    while (true) {
        std::this_thread::sleep_for(std::chrono::milliseconds(50));
        int64_t d = g_deadline.load();
        if (d <= 0 || now_ms() < d) {
            continue;
        }
        if (!g_deadline.compare_exchange_strong(d, -1)) {
            continue;
        }
        std::string line;
        {
            const std::lock_guard<std::mutex> lock{g_info.mx};
            if (g_info.rlimit_set) {
                ::setrlimit(RLIMIT_FSIZE, &g_info.old_limit);
            }
            const long size_now = g_info.path.empty() ? -1 : file_size_of(g_info.path);
            if (!g_info.path.empty() && !g_keep_files) {
                ::unlink(g_info.path.c_str());
            }
            if (g_info.op == "run") {
                auto calls = g_info.calls;
                if (g_info.stage == 1) {
                    calls.emplace_back("hang");
                } else if (g_info.stage == 2) {
                    calls.emplace_back("dtor-hang");
                }
                line = "run ctor=" + (g_info.ctor.empty() ? std::string{"hang"} : g_info.ctor) +
                       " calls=" + join_calls(calls) +
                       " file=" + std::to_string(size_now) +
                       " decode=" + (g_info.stage == 3 ? "hang" : "-") +
                       " nobj=0 match=0 prefix=0" + counters_string() + " hang=1";
                if (g_info.trace) {
                    line += chunks_string();
                }
            } else {
                line = g_info.op + " hang=1";
            }
        }
        line += '\n';
        std::fwrite(line.data(), 1, line.size(), stdout);
        std::fflush(stdout);
        _exit(3);
    }
}

void arm_watchdog(const std::string& op) {
    {
        const std::lock_guard<std::mutex> lock{g_info.mx};
        g_info.op = op;
        g_info.ctor.clear();
        g_info.calls.clear();
        g_info.stage = 0;
        g_info.path.clear();
        g_info.trace = false;
        g_info.rlimit_set = false;
    }
    g_deadline.store(now_ms() + g_watchdog_ms);
}

void disarm_watchdog() {
    if (g_deadline.exchange(0) == -1) {
        // the watchdog is printing its line and will _exit
        while (true) {
            std::this_thread::sleep_for(std::chrono::seconds(1));
        }
    }
}

void info_stage(int stage) {
    const std::lock_guard<std::mutex> lock{g_info.mx};
    g_info.stage = stage;
}

// ---- helpers ------------------------------------------------------------------------------------------

std::vector<std::string> split(const std::string& s, char sep) {
    std::vector<std::string> out;
    std::string cur;
    for (const char c : s) {
        if (c == sep) {
            out.push_back(cur);
            cur.clear();
        } else {
            cur += c;
        }
    }
    out.push_back(cur);
    return out;
}

bool parse_i64(const std::string& s, int64_t& v) {
    if (s.empty() || s.size() > 18) {
        return false;
    }
    v = 0;
    for (const char c : s) {
        if (c < '0' || c > '9') {
            return false;
        }
        v = v * 10 + (c - '0');
    }
    return true;
}

void reset_plan_locked() {
    ip::Plan& p = ip::g_plan;
    p.active = false;
    p.swallow = false;
    p.cookie = true;
    p.nw = 0;
    for (auto& w : p.w) {
        w = ip::WFault{};
    }
    p.fsync_err = 0;
    p.close_k = 0;
    p.close_err = 0;
    p.short_m = 0;
    p.eintr_n = 0;
    p.dup_fault = false;
    p.fdopen_fault = false;
    p.perturb = false;
    p.path[0] = '\0';
    p.off = 0;
    p.sched.clear();
    p.sched_pos = 0;
    p.pattern = nullptr;
    p.pattern_size = 0;
    p.inorder = true;
    p.runaway = false;
    p.rwcalls.clear();
    p.rwcalls_total = 0;
}

void reset_counters() {
    ip::g_cnt.reset();
    ip::g_nchunks.store(0);
    ip::g_phase.store(0);
}

// Close whatever the library left behind. Returns the number of target fds that were still
// open on our file (fds the library leaked).
int sweep_targets(const std::string& path) {
    // cookie streams first (never seen in practice: every FILE* is fclose()d by file_wrapper)
    for (auto& s : ip::g_cookies) {
        FILE* fp = s.fp.load();
        if (fp) {
            std::fclose(fp);
        }
    }
    int leaked = 0;
    struct stat want{};
    const bool have = ::stat(path.c_str(), &want) == 0;
    const std::lock_guard<std::mutex> lock{ip::g_mx};
    for (auto& s : ip::g_targets) {
        const int fd = s.fd.load();
        if (fd < 0) {
            continue;
        }
        s.fd.store(-1);
        struct stat st{};
        if (::fstat(fd, &st) == 0 && (!have || (st.st_dev == want.st_dev && st.st_ino == want.st_ino))) {
            // still open on our file (in stdio=real mode fclose() closes the fd behind our back
            // and fstat fails or shows something else)
            ip::r_close.get()(fd);
            ++leaked;
        }
    }
    return leaked;
}

// The Reader leaks its fd when its constructor throws (e.g. a PBF file without header): close
// every fd of the process that still points at one of this run's files. Returns the count.
int close_fds_on(const std::string& path) {
    int closed = 0;
    for (int fd = 3; fd < 1024; ++fd) {
        char link[64];
        char target[1024];
        std::snprintf(link, sizeof(link), "/proc/self/fd/%d", fd);
        const ssize_t n = ::readlink(link, target, sizeof(target) - 1);
        if (n <= 0) {
            continue;
        }
        target[n] = '\0';
        if (std::strncmp(target, path.c_str(), path.size()) == 0) {
            ip::r_close.get()(fd);
            ++closed;
        }
    }
    return closed;
}

// ---- op: rw ----------------------------------------------------------------------------------------------

std::vector<char> g_pattern;

void ensure_pattern(std::size_t size) {
    if (g_pattern.size() >= size) {
        return;
    }
    const std::size_t old = g_pattern.size();
    g_pattern.resize(size);
    for (std::size_t j = old; j < size; ++j) {
        g_pattern[j] = static_cast<char>((j * 7 + 3) % 251);
    }
}

std::string op_rw(const std::vector<std::string>& w) {
    if (w.size() != 3) {
        return "bad-op";
    }
    int64_t size = 0;
    if (!parse_i64(w[1], size) || size > 268435456) {
        return "bad-op";
    }
    std::vector<ip::SchedTok> sched;
    if (w[2] != "-") {
        for (const auto& t : split(w[2], ',')) {
            ip::SchedTok tok;
            if (t == "i") {
                tok.kind = 'i';
            } else if (t.size() > 1 && (t[0] == 'k' || t[0] == 'e')) {
                tok.kind = t[0];
                if (!parse_i64(t.substr(1), tok.val)) {
                    return "bad-op";
                }
                if (tok.kind == 'e' && (tok.val <= 0 || tok.val > 4095)) {
                    return "bad-op";
                }
            } else {
                return "bad-op";
            }
            sched.push_back(tok);
        }
    }
    ensure_pattern(static_cast<std::size_t>(size));

    const int fd = ip::r_open.get()("/dev/null", O_WRONLY);
    if (fd < 0) {
        return "rw setup-failed";
    }
    arm_watchdog("rw");
    reset_counters();
    {
        const std::lock_guard<std::mutex> lock{ip::g_mx};
        reset_plan_locked();
        ip::g_plan.swallow = true;
        ip::g_plan.sched = std::move(sched);
        ip::g_plan.pattern = g_pattern.data();
        ip::g_plan.pattern_size = static_cast<std::size_t>(size);
        ip::register_target_locked(fd);
    }

    std::string res = "ok";
    try {
        osmium::io::detail::reliable_write(fd, static_cast<const char*>(g_pattern.data()), static_cast<std::size_t>(size));
    } catch (const std::system_error& e) {
        res = "sys:" + std::to_string(e.code().value());
    } catch (...) {
        res = "other";
    }

    std::string out = "rw calls=";
    {
        const std::lock_guard<std::mutex> lock{ip::g_mx};
        ip::unregister_target_locked(fd);
        const ip::Plan& p = ip::g_plan;
        if (p.rwcalls.empty()) {
            out += "-";
        }
        for (std::size_t i = 0; i < p.rwcalls.size(); ++i) {
            if (i) {
                out += ',';
            }
            const auto& c = p.rwcalls[i];
            out += std::to_string(c.n) + ":";
            if (c.kind == 'i') {
                out += "i";
            } else if (c.kind == 'e') {
                out += "e" + std::to_string(c.val);
            } else {
                out += std::to_string(c.val);
            }
        }
        if (p.rwcalls_total > p.rwcalls.size()) {
            out += ",+" + std::to_string(p.rwcalls_total - p.rwcalls.size());
        }
        out += " res=" + res;
        out += " total=" + std::to_string(p.off);
        out += std::string{" inorder="} + (p.inorder ? "1" : "0");
        if (p.runaway) {
            out += " runaway=1";
        }
        reset_plan_locked();
    }
    ip::r_close.get()(fd);
    disarm_watchdog();
    return out;
}

// ---- op: run ---------------------------------------------------------------------------------------------

struct ScriptItem {
    char kind; // b, i, a, j, f, c
    int64_t k;
};

struct RunSpec {
    std::string fmt = "opl";
    std::string comp = "none";
    bool do_fsync = false;
    std::string script = "b3,c";
    std::string fault = "none";
    bool cookie = true;
    int64_t qmax = 0;
    int64_t pool = 0;
    int64_t perturb = 0;
    bool trace = false;
    std::string mock = "none";
    std::string pbfopt;
    int64_t ibuf = 0;
    int64_t tag = 0;
    // parsed
    std::vector<ScriptItem> items;
    int64_t rlimit = -1;
    int mock_kind = 0;
    int mock_j = 0;
};

struct RunResult {
    std::string ctor;
    std::vector<std::string> calls;
    long file = -1;
    std::string decode = "ok";
    std::size_t nobj = 0;
    bool match = false;
    bool prefix = false;
    int leaked = 0;
};

bool parse_script(RunSpec& s) {
    for (const auto& t : split(s.script, ',')) {
        if (t == "f" || t == "c") {
            s.items.push_back(ScriptItem{t[0], 0});
            continue;
        }
        if (t.size() < 2 || (t[0] != 'b' && t[0] != 'i' && t[0] != 'a' && t[0] != 'j')) {
            return false;
        }
        int64_t k = 0;
        if (!parse_i64(t.substr(1), k) || k > 10000000) {
            return false;
        }
        if (t[0] == 'a' && k != 1) {
            return false;
        }
        s.items.push_back(ScriptItem{t[0], k});
    }
    return true;
}

bool parse_errno(const std::string& s, int& e) {
    int64_t v = 0;
    if (!parse_i64(s, v) || v <= 0 || v > 4095) {
        return false;
    }
    e = static_cast<int>(v);
    return true;
}

// fills the plan (g_mx held by caller) and s.rlimit
bool parse_fault(RunSpec& s, ip::Plan& p) {
    if (s.fault == "none") {
        return true;
    }
    for (const auto& part : split(s.fault, '+')) {
        if (part == "none") {
            continue;
        }
        if (part == "dup") {
            p.dup_fault = true;
            continue;
        }
        if (part == "fdopen") {
            p.fdopen_fault = true;
            continue;
        }
        const auto f = split(part, ':');
        if (f[0].compare(0, 3, "wk@") == 0) {
            if (f.size() != 2 || p.nw >= 4) {
                return false;
            }
            ip::WFault wf;
            if (!parse_i64(f[0].substr(3), wf.call) || wf.call < 1 || !parse_errno(f[1], wf.err) || wf.err == EINTR) {
                return false;
            }
            wf.transient = true;
            p.w[p.nw++] = wf;
        } else if (f[0].compare(0, 2, "w@") == 0) {
            if (f.size() < 2 || f.size() > 3 || p.nw >= 4) {
                return false;
            }
            ip::WFault wf;
            if (!parse_i64(f[0].substr(2), wf.off) || !parse_errno(f[1], wf.err) || wf.err == EINTR) {
                return false;
            }
            if (f.size() == 3) {
                if (f[2] == "p") {
                    wf.partial = true;
                } else if (f[2] == "t") {
                    wf.transient = true;
                } else if (f[2] == "pt" || f[2] == "tp") {
                    wf.partial = true;
                    wf.transient = true;
                } else {
                    return false;
                }
            }
            p.w[p.nw++] = wf;
        } else if (f[0] == "fsync") {
            if (f.size() != 2 || !parse_errno(f[1], p.fsync_err)) {
                return false;
            }
        } else if (f[0] == "close") {
            int64_t k = 0;
            if (f.size() != 3 || !parse_i64(f[1], k) || k < 1 || k > 1000 || !parse_errno(f[2], p.close_err)) {
                return false;
            }
            p.close_k = static_cast<int>(k);
        } else if (f[0] == "short") {
            if (f.size() != 2 || !parse_i64(f[1], p.short_m) || p.short_m < 1) {
                return false;
            }
        } else if (f[0] == "eintr") {
            if (f.size() != 2 || !parse_i64(f[1], p.eintr_n) || p.eintr_n < 2) {
                return false;
            }
        } else if (f[0].compare(0, 7, "rlimit@") == 0) {
            if (f.size() != 1 || !parse_i64(f[0].substr(7), s.rlimit)) {
                return false;
            }
        } else {
            return false;
        }
    }
    return true;
}

bool parse_mock(RunSpec& s) {
    const std::string& m = s.mock;
    auto num = [&](std::size_t at) {
        int64_t v = 0;
        if (!parse_i64(m.substr(at), v) || v < 1 || v > 1000000) {
            return false;
        }
        s.mock_j = static_cast<int>(v);
        return true;
    };
    if (m == "none") {
        s.mock_kind = static_cast<int>(mock_fault::none);
        return true;
    }
    if (m == "hdr") {
        s.mock_kind = static_cast<int>(mock_fault::hdr);
        return true;
    }
    if (m == "end") {
        s.mock_kind = static_cast<int>(mock_fault::end);
        return true;
    }
    if (m.compare(0, 3, "buf") == 0) {
        s.mock_kind = static_cast<int>(mock_fault::buf);
        return num(3);
    }
    if (m.compare(0, 3, "blk") == 0) {
        s.mock_kind = static_cast<int>(mock_fault::blk);
        return num(3);
    }
    if (m.compare(0, 5, "empty") == 0) {
        s.mock_kind = static_cast<int>(mock_fault::empty);
        return num(5);
    }
    return false;
}

bool parse_run_fields(const std::vector<std::string>& w, RunSpec& s, bool probe) {
    for (std::size_t i = 1; i < w.size(); ++i) {
        const auto eq = w[i].find('=');
        if (eq == std::string::npos) {
            return false;
        }
        const std::string key = w[i].substr(0, eq);
        const std::string val = w[i].substr(eq + 1);
        auto flag = [&](bool& b) {
            if (val == "0") {
                b = false;
            } else if (val == "1") {
                b = true;
            } else {
                return false;
            }
            return true;
        };
        if (key == "comp") {
            if (val != "none" && val != "gz" && val != "bz2") {
                return false;
            }
            s.comp = val;
        } else if (key == "stdio") {
            if (val != "cookie" && val != "real") {
                return false;
            }
            s.cookie = val == "cookie";
        } else if (key == "fsync") {
            if (!flag(s.do_fsync)) {
                return false;
            }
        } else if (probe) {
            return false;
        } else if (key == "fmt") {
            if (val != "opl" && val != "xml" && val != "pbf" && val != "mock" && val != "debug" && val != "ids" && val != "blackhole") {
                return false;
            }
            s.fmt = val;
        } else if (key == "script") {
            s.script = val;
        } else if (key == "fault") {
            s.fault = val;
        } else if (key == "qmax") {
            if (!parse_i64(val, s.qmax) || s.qmax > 1000000) {
                return false;
            }
        } else if (key == "pool") {
            if (!parse_i64(val, s.pool) || s.pool > 32) {
                return false;
            }
        } else if (key == "perturb") {
            if (!parse_i64(val, s.perturb)) {
                return false;
            }
        } else if (key == "trace") {
            if (!flag(s.trace)) {
                return false;
            }
        } else if (key == "mock") {
            s.mock = val;
        } else if (key == "pbfopt") {
            s.pbfopt = val;
        } else if (key == "ibuf") {
            if (!parse_i64(val, s.ibuf) || s.ibuf < 64 || s.ibuf > 100000000) {
                return false;
            }
        } else if (key == "tag") {
            if (!parse_i64(val, s.tag) || s.tag > 900) {
                return false;
            }
        } else {
            return false;
        }
    }
    if (!parse_script(s) || !parse_mock(s)) {
        return false;
    }
    if (s.fmt != "pbf" && !s.pbfopt.empty()) {
        return false;
    }
    if (s.fmt != "mock" && s.mock != "none") {
        return false;
    }
    return true;
}

std::string format_string(const RunSpec& s, bool for_writing) {
    std::string f = s.fmt == "opl" ? "opl" : s.fmt == "xml" ? "osm" : s.fmt == "pbf" ? "pbf" : s.fmt == "ids" ? "ids" : s.fmt == "blackhole" ? "blackhole" : "debug";
    if (s.comp == "gz") {
        f += ".gz";
    } else if (s.comp == "bz2") {
        f += ".bz2";
    }
    if (for_writing && !s.pbfopt.empty()) {
        f += ",";
        f += s.pbfopt;
    }
    return f;
}

std::string file_suffix(const RunSpec& s) {
    std::string f = s.fmt == "opl" ? ".opl" : s.fmt == "xml" ? ".osm" : s.fmt == "pbf" ? ".osm.pbf" : s.fmt == "ids" ? ".ids" : s.fmt == "blackhole" ? ".blackhole" : s.fmt == "mock" ? ".mock" : ".debug";
    if (s.comp == "gz") {
        f += ".gz";
    } else if (s.comp == "bz2") {
        f += ".bz2";
    }
    return f;
}

// What the mock encoder writes when nothing fails.
std::string mock_expected(const RunSpec& s) {
    std::string out;
    int j = 0;
    int64_t pending = 0;
    bool closed = false;
    auto block = [&](int64_t n) {
        ++j;
        out += "block " + std::to_string(j) + " " + std::to_string(n) + "\n";
    };
    auto flush = [&]() {
        if (pending > 0) {
            block(pending);
            pending = 0;
        }
    };
    for (const auto& it : s.items) {
        if (closed) {
            break; // calls after close() throw; nothing more can be written
        }
        switch (it.kind) {
            case 'b':
            case 'a':
                flush();
                if (it.k > 0) {
                    block(it.k);
                }
                break;
            case 'i':
            case 'j':
                pending += it.k;
                break;
            case 'f':
                flush();
                break;
            default:
                flush();
                closed = true;
                break;
        }
    }
    if (!closed) {
        flush(); // the destructor closes
    }
    return out;
}

// Read the whole file through the library's decompressor for s.comp.
void read_decompressed(const RunSpec& s, const std::string& path, std::string& data) {
    const int fd = osmium::io::detail::open_for_reading(path);
    const auto comp = s.comp == "gz" ? osmium::io::file_compression::gzip
                    : s.comp == "bz2" ? osmium::io::file_compression::bzip2
                    : osmium::io::file_compression::none;
    auto dec = osmium::io::CompressionFactory::instance().create_decompressor(comp, fd);
    while (true) {
        const std::string chunk = dec->read();
        if (chunk.empty()) {
            break;
        }
        data += chunk;
    }
    dec->close();
}

void decode_mock(const RunSpec& s, const std::string& path, RunResult& r) {
    std::string data;
    try {
        read_decompressed(s, path, data);
        r.decode = "ok";
    } catch (...) {
        r.decode = "err:" + classify(std::current_exception());
    }
    const std::string expected = mock_expected(s);
    for (const char c : data) {
        if (c == '\n') {
            ++r.nobj;
        }
    }
    r.match = data == expected;
    r.prefix = expected.compare(0, data.size(), data) == 0 && data.size() <= expected.size();
}

void decode_real(const RunSpec& s, const std::string& path, const std::vector<uint64_t>& handed, RunResult& r) {
    std::vector<Obj> decoded;
    // The Reader does not decompress around PBF: unpack into a second file first.
    const bool unpack = s.fmt == "pbf" && s.comp != "none";
    const std::string plain = path + ".plain.osm.pbf";
    try {
        if (unpack) {
            std::string data;
            read_decompressed(s, path, data);
            const int fd = osmium::io::detail::open_for_writing(plain, osmium::io::overwrite::allow);
            try {
                osmium::io::detail::reliable_write(fd, data.data(), data.size());
            } catch (...) {
                ::close(fd);
                throw;
            }
            osmium::io::detail::reliable_close(fd);
        }
        const osmium::io::File file = unpack ? osmium::io::File{plain, "pbf"} : osmium::io::File{path, format_string(s, false)};
        osmium::io::Reader reader{file};
        while (Buffer buffer = reader.read()) {
            for (const auto& obj : buffer.select<osmium::OSMObject>()) {
                decoded.push_back(decoded_obj(obj));
            }
        }
        reader.close();
        r.decode = "ok";
    } catch (...) {
        r.decode = "err:" + classify(std::current_exception());
    }
    if (unpack) {
        ::unlink(plain.c_str());
    }
    r.nobj = decoded.size();
    bool is_prefix = decoded.size() <= handed.size();
    for (std::size_t i = 0; is_prefix && i < decoded.size(); ++i) {
        if (!(decoded[i] == expected_obj(handed[i]))) {
            is_prefix = false;
        }
    }
    r.prefix = is_prefix;
    r.match = is_prefix && decoded.size() == handed.size();
}

// ---- formats without a reader: compare with a reference ------------------------------------------

// `ids` format (ids_output_format.hpp), written down independently: one line per object,
// type letter + id
std::string ids_reference(const std::vector<uint64_t>& handed) {
    std::string out;
    for (const uint64_t g : handed) {
        out += obj_type(g) == 3 ? 'r' : (obj_type(g) == 2 ? 'w' : 'n');
        out += std::to_string(g);
        out += '\n';
    }
    return out;
}

// `debug` format: what a FRESH Writer (no faults: the plan is inactive, its fd is no target)
// writes for all handed-over objects in ONE buffer with the same header
bool debug_reference(const std::string& path, const std::vector<uint64_t>& handed, std::string& out) {
    const std::string ref = path + ".ref.debug";
    bool ok = true;
    try {
        osmium::io::Header header;
        header.set("generator", "c08");
        osmium::io::Writer writer{osmium::io::File{ref, "debug"}, header, osmium::io::overwrite::allow};
        if (!handed.empty()) {
            Buffer buffer{1024, Buffer::auto_grow::yes};
            for (const uint64_t g : handed) {
                add_object(buffer, g);
            }
            writer(std::move(buffer));
        }
        writer.close();
        RunSpec plain;
        read_decompressed(plain, ref, out);
    } catch (...) {
        ok = false;
    }
    ::unlink(ref.c_str());
    return ok;
}

std::size_t count_lines_starting(const std::string& data, const char* const* prefixes, std::size_t np) {
    std::size_t n = 0;
    std::size_t pos = 0;
    while (pos < data.size()) {
        for (std::size_t i = 0; i < np; ++i) {
            const std::size_t len = std::strlen(prefixes[i]);
            if (data.compare(pos, len, prefixes[i]) == 0) {
                ++n;
                break;
            }
        }
        const std::size_t nl = data.find('\n', pos);
        if (nl == std::string::npos) {
            break;
        }
        pos = nl + 1;
    }
    return n;
}

void decode_reference(const RunSpec& s, const std::string& path, const std::vector<uint64_t>& handed, RunResult& r) {
    std::string data;
    try {
        read_decompressed(s, path, data);
        r.decode = "ok";
    } catch (...) {
        r.decode = "err:" + classify(std::current_exception());
    }
    std::string expected;
    if (s.fmt == "ids") {
        expected = ids_reference(handed);
        static const char* const pre[] = {"n", "w", "r"};
        r.nobj = count_lines_starting(data, pre, 3);
    } else if (s.fmt == "debug") {
        if (!debug_reference(path, handed, expected)) {
            r.decode = "err:reference";
        }
        static const char* const pre[] = {"node ", "way ", "relation "};
        r.nobj = count_lines_starting(data, pre, 3);
    } // blackhole: nothing is ever written
    r.match = data == expected;
    r.prefix = data.size() <= expected.size() && expected.compare(0, data.size(), data) == 0;
}

template <typename F>
std::string guarded(F&& f) {
    try {
        return f();
    } catch (...) {
        return "exc:" + classify(std::current_exception());
    }
}

RunResult do_run(RunSpec& s) {
    RunResult r;
    const std::string path = g_dir + "/run" + std::to_string(++g_run_counter) + file_suffix(s);

    reset_counters();
    bool plan_ok = true;
    {
        const std::lock_guard<std::mutex> lock{ip::g_mx};
        reset_plan_locked();
        ip::Plan& p = ip::g_plan;
        plan_ok = parse_fault(s, p);
        if (plan_ok && path.size() < sizeof(p.path)) {
            p.active = true;
            p.cookie = s.cookie;
            std::strcpy(p.path, path.c_str());
            if (s.perturb != 0) {
                p.perturb = true;
                p.rng = vh::SplitMix64{static_cast<uint64_t>(s.perturb) ^ 0x5bd1e995c08c08ULL};
            }
        } else {
            plan_ok = false;
            reset_plan_locked();
        }
    }
    if (!plan_ok) {
        r.ctor = "bad-op";
        return r;
    }
    g_mock.kind = s.mock_kind;
    g_mock.j = s.mock_j;
    g_mock.counter = 0;
    install_debug_slot(s.fmt == "mock");
    g_tag_extra = s.tag;
    {
        const std::lock_guard<std::mutex> lock{g_info.mx};
        g_info.path = path;
        g_info.trace = s.trace;
    }

    vh::SplitMix64 rng{static_cast<uint64_t>(s.perturb)};
    auto perturb = [&]() {
        if (s.perturb != 0) {
            const uint64_t v = rng.next();
            if (v & 1U) {
                ::usleep(static_cast<unsigned>((v >> 1U) % 301U));
            }
        }
    };

    struct rlimit old_limit{};
    if (s.rlimit >= 0) {
        ::getrlimit(RLIMIT_FSIZE, &old_limit);
        struct rlimit nl = old_limit;
        nl.rlim_cur = static_cast<rlim_t>(s.rlimit);
        {
            const std::lock_guard<std::mutex> lock{g_info.mx};
            g_info.old_limit = old_limit;
            g_info.rlimit_set = true;
        }
        ::setrlimit(RLIMIT_FSIZE, &nl);
    }

    std::vector<uint64_t> handed; // every object the script tried to hand over
    uint64_t g = 0;

    {
        std::unique_ptr<osmium::thread::Pool> pool;
        if (s.pool > 0) {
            pool = std::make_unique<osmium::thread::Pool>(static_cast<int>(s.pool));
        }
        std::optional<osmium::io::Writer> writer;

        if (s.qmax > 0) {
            ::setenv("OSMIUM_MAX_OUTPUT_QUEUE_SIZE", std::to_string(s.qmax).c_str(), 1);
        }
        r.ctor = guarded([&]() -> std::string {
            const osmium::io::File file{path, format_string(s, true)};
            osmium::io::Header header;
            header.set("generator", "c08");
            const auto sync = s.do_fsync ? osmium::io::fsync::yes : osmium::io::fsync::no;
            if (pool) {
                writer.emplace(file, header, osmium::io::overwrite::allow, sync, *pool);
            } else {
                writer.emplace(file, header, osmium::io::overwrite::allow, sync);
            }
            if (s.ibuf > 0) {
                writer->set_buffer_size(static_cast<std::size_t>(s.ibuf));
            }
            return "ok";
        });
        if (s.qmax > 0) {
            ::unsetenv("OSMIUM_MAX_OUTPUT_QUEUE_SIZE");
        }
        {
            const std::lock_guard<std::mutex> lock{g_info.mx};
            g_info.ctor = r.ctor;
            g_info.stage = 1;
        }

        if (writer) {
            for (const auto& it : s.items) {
                perturb();
                std::string outcome;
                switch (it.kind) {
                    case 'b': {
                        Buffer buffer{1024, Buffer::auto_grow::yes};
                        for (int64_t i = 0; i < it.k; ++i) {
                            ++g;
                            add_object(buffer, g);
                            handed.push_back(g);
                        }
                        outcome = guarded([&]() -> std::string {
                            (*writer)(std::move(buffer));
                            return "ok";
                        });
                        break;
                    }
                    case 'a': {
                        using namespace osmium::builder::attr; // NOLINT(google-build-using-namespace)
                        Buffer buffer{1024, Buffer::auto_grow::yes};
                        ++g;
                        osmium::builder::add_area(buffer, _id(static_cast<osmium::object_id_type>(g)));
                        outcome = guarded([&]() -> std::string {
                            (*writer)(std::move(buffer));
                            return "ok";
                        });
                        break;
                    }
                    case 'i': {
                        outcome = "ok";
                        bool failed = false;
                        for (int64_t i = 0; i < it.k; ++i) {
                            ++g;
                            handed.push_back(g);
                            if (failed) {
                                continue; // the group ended with the first exception
                            }
                            Buffer buffer{1024, Buffer::auto_grow::yes};
                            add_object(buffer, g);
                            const std::string o = guarded([&]() -> std::string {
                                (*writer)(*buffer.begin());
                                return "ok";
                            });
                            if (o != "ok") {
                                outcome = o;
                                failed = true;
                            }
                        }
                        break;
                    }
                    case 'j': {
                        // Area items handed over one by one: they sit in the Writer's internal
                        // buffer until flush() / operator()(Buffer&&) / "buffer is full" / close()
                        using namespace osmium::builder::attr; // NOLINT(google-build-using-namespace)
                        outcome = "ok";
                        for (int64_t i = 0; i < it.k; ++i) {
                            ++g;
                            Buffer buffer{1024, Buffer::auto_grow::yes};
                            osmium::builder::add_area(buffer, _id(static_cast<osmium::object_id_type>(g)));
                            const std::string o = guarded([&]() -> std::string {
                                (*writer)(*buffer.begin());
                                return "ok";
                            });
                            if (o != "ok") {
                                outcome = o;
                                break;
                            }
                        }
                        break;
                    }
                    case 'f':
                        outcome = guarded([&]() -> std::string {
                            writer->flush();
                            return "ok";
                        });
                        break;
                    default:
                        outcome = guarded([&]() -> std::string {
                            const std::size_t n = writer->close();
                            return "ok:" + std::to_string(n);
                        });
                        ip::g_phase.store(1);
                        break;
                }
                r.calls.push_back(outcome);
                {
                    const std::lock_guard<std::mutex> lock{g_info.mx};
                    g_info.calls = r.calls;
                }
            }
        }
        ip::g_phase.store(1);
        info_stage(2);
        perturb();
        writer.reset(); // the Writer is destroyed here
        pool.reset();
    }

    if (s.rlimit >= 0) {
        ::setrlimit(RLIMIT_FSIZE, &old_limit);
        const std::lock_guard<std::mutex> lock{g_info.mx};
        g_info.rlimit_set = false;
    }

    {
        const std::lock_guard<std::mutex> lock{ip::g_mx};
        ip::g_plan.active = false;
        ip::g_plan.perturb = false;
        ip::g_plan.path[0] = '\0';
    }
    r.leaked = sweep_targets(path);

    info_stage(3);
    r.file = file_size_of(path);
    if (s.fmt == "mock") {
        decode_mock(s, path, r);
    } else if (s.fmt == "debug" || s.fmt == "ids" || s.fmt == "blackhole") {
        decode_reference(s, path, handed, r);
    } else {
        decode_real(s, path, handed, r);
    }
    info_stage(4);
    if (r.decode != "ok") {
        close_fds_on(path);
    }
    if (!g_keep_files) {
        ::unlink(path.c_str());
    }
    return r;
}

std::string op_run(const std::vector<std::string>& w) {
    RunSpec s;
    if (!parse_run_fields(w, s, false)) {
        return "bad-op";
    }
    arm_watchdog("run");
    const RunResult r = do_run(s);
    if (r.ctor == "bad-op") {
        disarm_watchdog();
        return "bad-op";
    }
    std::string out = "run ctor=" + r.ctor +
                      " calls=" + join_calls(r.calls) +
                      " file=" + std::to_string(r.file) +
                      " decode=" + r.decode +
                      " nobj=" + std::to_string(r.nobj) +
                      " match=" + (r.match ? "1" : "0") +
                      " prefix=" + (r.prefix ? "1" : "0") +
                      counters_string() + " hang=0";
    if (s.trace) {
        out += chunks_string();
    }
    if (r.leaked > 0) {
        out += " leaked=" + std::to_string(r.leaked);
    }
    disarm_watchdog();
    return out;
}

std::string op_probe(const std::vector<std::string>& w) {
    RunSpec s;
    if (!parse_run_fields(w, s, true)) {
        return "bad-op";
    }
    arm_watchdog("probe");
    const RunResult r = do_run(s);
    std::string out = "probe interposed_bytes=" + std::to_string(ip::g_cnt.wbytes.load()) +
                      " file=" + std::to_string(r.file) +
                      " writes=" + std::to_string(ip::g_cnt.wcalls.load()) +
                      " fsyncs=" + std::to_string(ip::g_cnt.fscalls.load()) +
                      " closes=" + std::to_string(ip::g_cnt.clcalls.load()) +
                      " dups=" + std::to_string(ip::g_cnt.dups.load());
    disarm_watchdog();
    return out;
}

// Bookkeeping check for long sessions: open fds of the process, registered targets, cookie slots.
std::string op_fds() {
    int open_fds = 0;
    for (int fd = 0; fd < 4096; ++fd) {
        if (::fcntl(fd, F_GETFD) != -1) {
            ++open_fds;
        }
    }
    int targets = 0;
    for (auto& t : ip::g_targets) {
        if (t.fd.load() >= 0) {
            ++targets;
        }
    }
    int cookies = 0;
    for (auto& c : ip::g_cookies) {
        if (c.used.load()) {
            ++cookies;
        }
    }
    return "fds open=" + std::to_string(open_fds) + " targets=" + std::to_string(targets) + " cookies=" + std::to_string(cookies);
}

} // namespace

int main(int argc, char** argv) {
    if (argc > 1) {
        g_dir = argv[1];
    }
    if (argc > 2) {
        g_watchdog_ms = std::atol(argv[2]) * 1000;
        if (g_watchdog_ms <= 0) {
            g_watchdog_ms = 20000;
        }
    }
    g_keep_files = std::getenv("C08_KEEP") != nullptr;
    ::mkdir(g_dir.c_str(), 0777);
    if (char* real = ::realpath(g_dir.c_str(), nullptr)) { // close_fds_on() compares with /proc/self/fd links
        g_dir = real;
        std::free(real);
    }
    ::signal(SIGXFSZ, SIG_IGN);
    ::signal(SIGPIPE, SIG_IGN);
    std::setvbuf(stdout, nullptr, _IOLBF, 1 << 16); // every result line is flushed at once
    std::thread{watchdog_main}.detach();

    return vh::line_loop([](const std::string& line) -> std::string {
        const auto w = vh::words(line);
        if (w.empty()) {
            return "bad-op";
        }
        try {
            if (w[0] == "rw") {
                return op_rw(w);
            }
            if (w[0] == "run") {
                return op_run(w);
            }
            if (w[0] == "probe") {
                return op_probe(w);
            }
            if (w[0] == "fds") {
                return op_fds();
            }
        } catch (...) {
            disarm_watchdog();
            return "harness-exception:" + classify(std::current_exception());
        }
        return "bad-op";
    });
}
