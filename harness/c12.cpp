// C12 harness: runs the REAL id->Location index classes (created through
// osmium::index::MapFactory with string configs) and the REAL NodeLocationsForWays handler on
// the op lines the Lean model driver (lean/Driver/C12.lean) also receives.  See that file for
// the line protocol.  argv[1] = scratch directory (under /verif/.build) for dump files and
// named index files; everything created there is removed again.
//
// Extra op (implementation only, observation outside C12's registered-types domain):
//   sizet  -> DenseMemArray<uint64_t,size_t> vs DenseMmapArray<uint64_t,size_t> on an unset id
#include "common.hpp"

#include <osmium/builder/osm_object_builder.hpp>
#include <osmium/handler/node_locations_for_ways.hpp>
#include <osmium/index/map/all.hpp>
#include <osmium/index/node_locations_map.hpp>
#include <osmium/memory/buffer.hpp>
#include <osmium/osm/location.hpp>

#include <dirent.h>
#include <fcntl.h>
#include <sys/stat.h>
#include <unistd.h>

#include <memory>

using id_type = osmium::unsigned_object_id_type;
using map_type = osmium::index::map::Map<id_type, osmium::Location>;
using factory_type = osmium::index::MapFactory<id_type, osmium::Location>;
using flex_type = osmium::index::map::FlexMem<id_type, osmium::Location>;

static std::string g_scratch;
static unsigned long g_counter = 0;

static std::string scratch_file(const char* tag) {
    return g_scratch + "/c12-" + std::to_string(::getpid()) + "-" + std::to_string(++g_counter) + "-" + tag;
}

// The file-backed vectors never close their fd (create_map_with_fd / create_tmp_file hand the
// fd to the mapping, nobody closes it): close everything above `base` between ops so a long
// op stream does not run out of descriptors.
static int lowest_free_fd() {
    const int fd = ::dup(0);
    ::close(fd);
    return fd;
}

static void close_fds_from(int base) {
    std::vector<int> fds;
    DIR* d = ::opendir("/proc/self/fd");
    if (!d) return;
    const int dfd = ::dirfd(d);
    while (const dirent* e = ::readdir(d)) {
        if (e->d_name[0] < '0' || e->d_name[0] > '9') continue;
        const int fd = std::atoi(e->d_name);
        if (fd >= base && fd != dfd) fds.push_back(fd);
    }
    ::closedir(d);
    for (int fd : fds) ::close(fd);
}

static std::string loc_tok(const osmium::Location& l) {
    return std::to_string(l.x()) + ":" + std::to_string(l.y());
}

static osmium::Location gen_loc(uint64_t id, uint64_t i) {
    // id*7919 stays below 2^64 for every id the generators produce (< 2^50)
    const int64_t x = static_cast<int64_t>((id * 7919ULL + i) % 3600000001ULL) - 1800000000LL;
    const int64_t y = static_cast<int64_t>(i % 1800000001ULL) - 900000000LL;
    return osmium::Location{static_cast<int32_t>(x), static_cast<int32_t>(y)};
}

static uint64_t loc_word(const osmium::Location& l) {
    return static_cast<uint64_t>(static_cast<uint32_t>(l.x())) | (static_cast<uint64_t>(static_cast<uint32_t>(l.y())) << 32U);
}

static inline uint64_t hstep(uint64_t h, uint64_t w) { return (h ^ w) * 1099511628211ULL; }
static const uint64_t H0 = 14695981039346656037ULL;

static bool split_nums(const std::string& tok, std::vector<long long>& out, char sep = ':') {
    out.clear();
    std::size_t p = 1;
    while (p <= tok.size()) {
        std::size_t q = tok.find(sep, p);
        if (q == std::string::npos) q = tok.size();
        if (q == p) return false;
        try {
            std::size_t used = 0;
            out.push_back(std::stoll(tok.substr(p, q - p), &used));
            if (used != q - p) return false;
        } catch (...) {
            return false;
        }
        p = q + 1;
    }
    return true;
}

// hash the 64-bit little-endian words of a file; returns false if the file can not be read
static bool hash_file(const std::string& name, std::size_t& bytes, uint64_t& h) {
    const int fd = ::open(name.c_str(), O_RDONLY);
    if (fd < 0) return false;
    h = H0;
    bytes = 0;
    std::vector<uint64_t> buf(1U << 16U);
    for (;;) {
        const ssize_t n = ::read(fd, buf.data(), buf.size() * 8);
        if (n < 0) { ::close(fd); return false; }
        if (n == 0) break;
        if (n % 8) { ::close(fd); return false; }
        for (ssize_t i = 0; i < n / 8; ++i) h = hstep(h, buf[i]);
        bytes += static_cast<std::size_t>(n);
    }
    ::close(fd);
    return true;
}

struct Cur {
    std::unique_ptr<map_type> map;
    std::string file;           // named file of a ":f" index or of a loaded dump
    std::string kind;           // factory name to reopen with
    std::vector<std::string> files; // everything to delete at the end of the line
};

static bool make_map(const std::string& impl, Cur& c, std::string& err) {
    std::string name = impl;
    const auto at = name.find('@');
    if (at != std::string::npos) {
        const long long want = std::stoll(name.substr(at + 1));
        name = name.substr(0, at);
        if (name != "flex_mem") { err = "bad-impl"; return false; }
#ifdef OSMIUM_VERIF_FLEXMEM_MIN_DENSE_ENTRIES
        if (want != (OSMIUM_VERIF_FLEXMEM_MIN_DENSE_ENTRIES)) { err = "bad-threshold"; return false; }
#else
        (void)want;
#endif
    }
    if (name.size() > 2 && name.substr(name.size() - 2) == ":f") {
        name = name.substr(0, name.size() - 2);
        if (name != "dense_file_array" && name != "sparse_file_array") { err = "bad-impl"; return false; }
        c.file = scratch_file("idx");
        c.files.push_back(c.file);
        c.kind = name;
        c.map = factory_type::instance().create_map(name + "," + c.file);
        return true;
    }
    if (!factory_type::instance().has_map_type(name)) { err = "bad-impl"; return false; }
    c.kind = name;
    c.map = factory_type::instance().create_map(name);
    return true;
}

static std::string get_tok(const map_type& m, id_type id) {
    const osmium::Location ne = m.get_noexcept(id);
    try {
        const osmium::Location l = m.get(id);
        return l == ne ? loc_tok(l) : loc_tok(l) + "!" + loc_tok(ne);
    } catch (const osmium::not_found&) {
        return ne == osmium::index::empty_value<osmium::Location>() ? std::string{"nf"} : "nf!" + loc_tok(ne);
    }
}

static std::string run_map_line(const std::vector<std::string>& w) {
    Cur c;
    std::string out = "ok";
    std::string err;
    const int fd_base = lowest_free_fd();
    try {
        if (!make_map(w[1], c, err)) return err;
        std::vector<long long> n;
        for (std::size_t t = 2; t < w.size(); ++t) {
            const std::string& tok = w[t];
            const char k = tok[0];
            if (k == 's') {
                if (!split_nums(tok, n) || n.size() != 3) { out += " bad-tok"; continue; }
                c.map->set(static_cast<id_type>(n[0]), osmium::Location{static_cast<int32_t>(n[1]), static_cast<int32_t>(n[2])});
            } else if (k == 'G') {
                if (!split_nums(tok, n) || n.size() != 5) { out += " bad-tok"; continue; }
                const uint64_t cnt = n[0], a = n[1], b = n[2], base = n[3], stride = n[4];
                for (uint64_t i = 0; i < cnt; ++i) {
                    const uint64_t id = base + ((a * i + b) % cnt) * stride;
                    c.map->set(id, gen_loc(id, i));
                }
            } else if (tok == "S") {
                c.map->sort();
            } else if (k == 'g') {
                if (!split_nums(tok, n) || n.size() != 1) { out += " bad-tok"; continue; }
                out += " " + get_tok(*c.map, static_cast<id_type>(n[0]));
            } else if (k == 'Q') {
                if (!split_nums(tok, n) || n.size() != 3) { out += " bad-tok"; continue; }
                uint64_t h = H0;
                uint64_t found = 0;
                const auto empty = osmium::index::empty_value<osmium::Location>();
                for (uint64_t i = 0; i < static_cast<uint64_t>(n[0]); ++i) {
                    const osmium::Location l = c.map->get_noexcept(static_cast<uint64_t>(n[1]) + i * static_cast<uint64_t>(n[2]));
                    if (l == empty) {
                        h = hstep(h, 0);
                    } else {
                        ++found;
                        h = hstep(hstep(h, 1), loc_word(l));
                    }
                }
                out += " q" + std::to_string(found) + ":" + std::to_string(h);
            } else if (tok == "d") {
                const auto* f = dynamic_cast<const flex_type*>(c.map.get());
                out += f ? (f->is_dense() ? " D1" : " D0") : " D-";
            } else if (tok == "DL" || tok == "DA") {
                const bool list = tok == "DL";
                const std::string name = scratch_file(list ? "list" : "array");
                const int fd = ::open(name.c_str(), O_CREAT | O_TRUNC | O_RDWR, 0644);
                if (fd < 0) return "io-error";
                c.files.push_back(name);
                bool ok = true;
                try {
                    if (list) c.map->dump_as_list(fd); else c.map->dump_as_array(fd);
                } catch (const osmium::not_found&) {
                    throw;
                } catch (const std::runtime_error&) {
                    ok = false;
                }
                ::close(fd);
                if (!ok) { out += list ? " dlerr" : " daerr"; continue; }
                std::size_t bytes = 0;
                uint64_t h = 0;
                if (!hash_file(name, bytes, h)) return "io-error";
                const std::size_t rec = list ? sizeof(std::pair<id_type, osmium::Location>) : sizeof(osmium::Location);
                if (bytes % rec) { out += " bad-dump-size"; continue; }
                out += std::string{list ? " dl" : " da"} + std::to_string(bytes / rec) + ":" + std::to_string(h);
                c.map.reset();
                c.kind = list ? "sparse_file_array" : "dense_file_array";
                c.file = name;
                c.map = factory_type::instance().create_map(c.kind + "," + c.file);
            } else if (tok == "R") {
                if (c.file.empty()) { out += " bad-tok"; continue; }
                c.map.reset();
                c.map = factory_type::instance().create_map(c.kind + "," + c.file);
                out += " r";
            } else {
                out += " bad-tok";
            }
        }
    } catch (const std::bad_alloc&) {
        out = "exception:bad_alloc";
    } catch (const std::system_error& e) {
        out = std::string{"exception:system_error:"} + std::to_string(e.code().value());
    } catch (const std::exception& e) {
        out = std::string{"exception:"} + e.what();
    }
    c.map.reset();
    for (const auto& f : c.files) ::unlink(f.c_str());
    close_fds_from(fd_base);
    return out;
}

// `<ref>` or `<ref>@<x>:<y>` (the location the node ref carries BEFORE the handler sees the way)
static bool parse_ref(const std::string& t, osmium::NodeRef& out) {
    try {
        std::size_t used = 0;
        const auto at = t.find('@');
        const std::string r = t.substr(0, at);
        if (r.empty()) return false;
        const long long ref = std::stoll(r, &used);
        if (used != r.size()) return false;
        osmium::Location loc;    // undefined
        if (at != std::string::npos) {
            const std::string l = t.substr(at + 1);
            const auto c = l.find(':');
            if (c == std::string::npos || c == 0 || c + 1 >= l.size()) return false;
            const long long x = std::stoll(l.substr(0, c), &used);
            if (used != c) return false;
            const long long y = std::stoll(l.substr(c + 1), &used);
            if (used != l.size() - c - 1) return false;
            loc = osmium::Location{static_cast<int32_t>(x), static_cast<int32_t>(y)};
        }
        out = osmium::NodeRef{ref, loc};
        return true;
    } catch (...) {
        return false;
    }
}

static std::string way_tok(const osmium::Way& way, bool threw) {
    std::string body;
    for (const auto& nr : way.nodes()) {
        if (!body.empty()) body += ",";
        body += std::to_string(nr.ref()) + "=";
        body += nr.location() == osmium::index::empty_value<osmium::Location>() ? std::string{"-"} : loc_tok(nr.location());
    }
    if (body.empty()) body = ".";
    return body + (threw ? "!" : "");
}

// One handler life: the two indexes + the handler on top of them.
struct Session {
    osmium::index::map::Dummy<id_type, osmium::Location> dummy_pos;
    osmium::index::map::Dummy<id_type, osmium::Location> dummy_neg;
    Cur cp;
    Cur cn;
    std::unique_ptr<osmium::handler::NodeLocationsForWays<map_type, map_type>> handler;

    bool open(const std::string& ipos, const std::string& ineg, bool ignore_errors, std::string& err) {
        map_type* pos = &dummy_pos;
        map_type* neg = &dummy_neg;
        if (ipos != "dummy") { if (!make_map(ipos, cp, err)) return false; pos = cp.map.get(); }
        if (ineg != "dummy") { if (!make_map(ineg, cn, err)) return false; neg = cn.map.get(); }
        handler.reset(new osmium::handler::NodeLocationsForWays<map_type, map_type>{*pos, *neg});
        if (ignore_errors) handler->ignore_errors();
        return true;
    }

    void close() {
        handler.reset();
        cp.map.reset();
        cn.map.reset();
        for (const auto& f : cp.files) ::unlink(f.c_str());
        for (const auto& f : cn.files) ::unlink(f.c_str());
        cp.files.clear();
        cn.files.clear();
    }
};

static std::string run_nlfw_line(const std::vector<std::string>& w) {
    if (w.size() < 4) return "bad-op";
    std::string out = "ok";
    const int fd_base = lowest_free_fd();
    // the way objects of the line live in their own buffers until the end of the line
    std::vector<std::unique_ptr<osmium::memory::Buffer>> ways;
    std::unique_ptr<Session> se{new Session};
    try {
        std::string err;
        bool ign = w[3] == "1";
        if (!se->open(w[1], w[2], ign, err)) { se->close(); close_fds_from(fd_base); return err; }
        std::vector<long long> n;
        for (std::size_t t = 4; t < w.size(); ++t) {
            const std::string& tok = w[t];
            if (tok[0] == 'n') {
                if (!split_nums(tok, n) || n.size() != 3) { out = "bad-op"; break; }
                osmium::memory::Buffer buf{1024, osmium::memory::Buffer::auto_grow::yes};
                {
                    osmium::builder::NodeBuilder b{buf};
                    b.set_id(n[0]).set_location(osmium::Location{static_cast<int32_t>(n[1]), static_cast<int32_t>(n[2])});
                }
                buf.commit();
                se->handler->node(buf.get<osmium::Node>(0));
            } else if (tok[0] == 'w' || tok[0] == 'W') {
                osmium::memory::Buffer* buf = nullptr;
                if (tok[0] == 'w') {
                    std::vector<osmium::NodeRef> refs;
                    bool good = true;
                    std::size_t p = 1;
                    while (p < tok.size()) {
                        std::size_t q = tok.find(',', p);
                        if (q == std::string::npos) q = tok.size();
                        osmium::NodeRef nr;
                        if (!parse_ref(tok.substr(p, q - p), nr)) { good = false; break; }
                        refs.push_back(nr);
                        p = q + 1;
                    }
                    if (!good) { out = "bad-op"; break; }
                    ways.emplace_back(new osmium::memory::Buffer{1024, osmium::memory::Buffer::auto_grow::yes});
                    buf = ways.back().get();
                    {
                        osmium::builder::WayBuilder b{*buf};
                        b.set_id(static_cast<osmium::object_id_type>(ways.size()));
                        osmium::builder::WayNodeListBuilder nl{b};
                        for (const auto& nr : refs) nl.add_node_ref(nr);
                    }
                    buf->commit();
                } else {
                    if (!split_nums(tok, n) || n.size() != 1 || n[0] < 0 || static_cast<std::size_t>(n[0]) >= ways.size()) { out = "bad-op"; break; }
                    buf = ways[static_cast<std::size_t>(n[0])].get();
                }
                auto& way = buf->get<osmium::Way>(0);
                bool threw = false;
                try {
                    se->handler->way(way);
                } catch (const osmium::not_found&) {
                    threw = true;
                }
                out += " " + way_tok(way, threw);
            } else if (tok == "I") {
                ign = true;
                se->handler->ignore_errors();
            } else if (tok == "C") {
                se->handler->clear();
            } else if (tok == "X") {
                se->close();
                se.reset(new Session);
                if (!se->open(w[1], w[2], ign, err)) { out = err; break; }
            } else {
                out = "bad-op";
                break;
            }
        }
    } catch (const std::bad_alloc&) {
        out = "exception:bad_alloc";
    } catch (const std::exception& e) {
        out = std::string{"exception:"} + e.what();
    }
    se->close();
    close_fds_from(fd_base);
    return out;
}

static std::string run_sizet() {
    // observation O-C12-1 (value type size_t is not a registered type): unset slots of the
    // std::vector based dense map read as 0, not as empty_value<size_t>()
    osmium::index::map::DenseMemArray<uint64_t, std::size_t> a;
    osmium::index::map::DenseMmapArray<uint64_t, std::size_t> b;
    a.set(5, 100);
    b.set(5, 100);
    std::string out = "ok";
    try { out += " mem:" + std::to_string(a.get(3)); } catch (const osmium::not_found&) { out += " mem:nf"; }
    try { out += " mmap:" + std::to_string(b.get(3)); } catch (const osmium::not_found&) { out += " mmap:nf"; }
    return out;
}

int main(int argc, char** argv) {
    g_scratch = argc > 1 ? argv[1] : ".";
    return vh::line_loop([](const std::string& line) -> std::string {
        const auto w = vh::words(line);
        if (w.empty()) return "bad-op";
        if (w[0] == "m" && w.size() >= 2) return run_map_line(w);
        if (w[0] == "w") return run_nlfw_line(w);
        if (w[0] == "sizet") return run_sizet();
        if (w[0] == "types") {
            std::string out = "ok";
            for (const auto& t : factory_type::instance().map_types()) out += " " + t;
            return out;
        }
        return "bad-op";
    });
}
