// Canonical one-line dump of libosmium objects; the Lean side is Osmium.Osm.dump
// (lean/Osmium/Model/Osm.lean).  Owned by the lead: extend only by asking.
#pragma once
#include "common.hpp"

#include <osmium/io/header.hpp>
#include <osmium/osm.hpp>

namespace vh {

inline std::string dump_loc(const osmium::Location& l) {
    return std::to_string(l.x()) + "," + std::to_string(l.y());
}

inline std::string dump_tags(const osmium::TagList& tags) {
    std::string s;
    for (const auto& t : tags) {
        s += " T" + hex(t.key()) + "=" + hex(t.value());
    }
    return s;
}

inline std::string dump_object(const osmium::OSMEntity& e) {
    std::string s;
    if (e.type() == osmium::item_type::changeset) {
        const auto& c = static_cast<const osmium::Changeset&>(e);
        s = "c " + std::to_string(c.id()) + " a" + std::to_string(static_cast<uint32_t>(c.created_at())) +
            " z" + std::to_string(static_cast<uint32_t>(c.closed_at())) + " n" + std::to_string(c.num_changes()) +
            " m" + std::to_string(c.num_comments()) + " u" + std::to_string(c.uid()) + " " + hex(c.user()) +
            " B" + dump_loc(c.bounds().bottom_left()) + ";" + dump_loc(c.bounds().top_right()) + dump_tags(c.tags());
        for (const auto& cm : c.discussion()) {
            s += " C" + std::to_string(static_cast<uint32_t>(cm.date())) + ":" + std::to_string(cm.uid()) + ":" + hex(cm.user()) + ":" + hex(cm.text());
        }
        return s;
    }
    const auto& o = static_cast<const osmium::OSMObject&>(e);
    const char* k = o.type() == osmium::item_type::node ? "n" : o.type() == osmium::item_type::way ? "w" : o.type() == osmium::item_type::relation ? "r" : "a";
    s = std::string{k} + " " + std::to_string(o.id()) + " v" + std::to_string(o.version()) + (o.visible() ? " V" : " D") +
        " t" + std::to_string(static_cast<uint32_t>(o.timestamp())) + " c" + std::to_string(o.changeset()) +
        " u" + std::to_string(o.uid()) + " " + hex(o.user()) + dump_tags(o.tags());
    if (o.type() == osmium::item_type::node) {
        s += " L" + dump_loc(static_cast<const osmium::Node&>(o).location());
    } else if (o.type() == osmium::item_type::way) {
        for (const auto& nr : static_cast<const osmium::Way&>(o).nodes()) {
            s += " N" + std::to_string(nr.ref()) + "@" + dump_loc(nr.location());
        }
    } else if (o.type() == osmium::item_type::relation) {
        for (const auto& m : static_cast<const osmium::Relation&>(o).members()) {
            s += " M" + std::to_string(static_cast<int>(m.type())) + ":" + std::to_string(m.ref()) + ":" + hex(m.role());
        }
    }
    return s;
}

inline std::string dump_header(const osmium::io::Header& h) {
    std::string s = "h " + hex(h.get("generator")) + (h.has_multiple_object_versions() ? " H" : " S");
    for (const auto& b : h.boxes()) {
        s += " B" + dump_loc(b.bottom_left()) + ";" + dump_loc(b.top_right());
    }
    return s;
}

} // namespace vh
