// C10 harness: the REAL area-assembly code of /repo/include/osmium/area on the op lines the Lean
// model driver (lean/Driver/C10.lean) also receives.  Compiled with -fno-access-control so that
// SegmentList::m_segments and BasicAssembler internals can be reached without touching /repo.
//
//   seg ax ay bx by cx cy dx dy
//        s = NodeRefSegment(a,b), t = NodeRefSegment(c,d) ->
//        "lt(s,t) lt(t,s) eq osx(s,t) osx(t,s) yro(s,t) yro(t,s) I(s,t) I(t,s)"  where
//        I = "0" (undefined Location) or "1:x:y" (the Location calculate_intersection returned)
//   list x1 y1 x2 y2  x1 y1 x2 y2 ...
//        the segments are put into a SegmentList in this order; sort(); erase_duplicate_segments();
//        find_intersections() -> "sorted=<segs> erased=<segs> pairs=N overlap=N ix=N"
//   extract id:x:y ...   one way through extract_segments_from_way ->
//        "segs=<segs> invalid=N dupnodes=N"
//   ring o|i x y x y ...  ProtoRing built from the directed segments between consecutive points,
//        "sum=S cw=0|1 fixed=<points> fsum=S"
//   asm <mode> <cfg> w<id>:<role> id:x:y ... w<id>:<role> ...
//        mode w : Assembler(way)              (first way only)
//        mode r : Assembler(relation, members)
//        mode m : MultipolygonManager, relation tagged type=multipolygon (two passes)
//        mode v : MultipolygonManager, every way tagged and fed as a way (areas from closed ways)
//        cfg bits: 1 create_empty_areas, 2 check_roles, 4 ignore_invalid_locations
//        -> "ret=R areas=N <area>* stats=... problems=... notes=-|maxdepth|toomany"
//           area = "A<from_way>:<orig_id>[O:id@x@y,..|I:...|...]"
//   rb x1 y1 x2 y2  x1 y1 x2 y2 ...
//        RING BUILDING, step by step, on a real BasicAssembler whose m_segment_list holds these
//        segments: sort(); erase_duplicate_segments(); find_intersections(); then the REAL
//        create_locations_list(), find_split_locations() and
//          - no split location:  create_rings_simple_case()  (get_next_segment, add_new_ring,
//            find_enclosing_ring, ProtoRing::fix_direction)
//          - split locations:    add_new_ring_complex() driven by the two loops of
//            create_rings_complex_case() (copied here: the partial rings are not observable after
//            the real function has merged them), then — on a second assembler — the real
//            create_rings_complex_case(), whose final rings are printed as well
//        -> "n=N ix=K [segs=.. locs=item.rev,.. open=N opens=x:y;.. splits=x:y;..
//             (simple rings=O:item.rev,..|I<outer>:..  |  complex pieces=item.rev,..|.. final=ret:..)]"
#include "common.hpp"

#include <osmium/area/assembler.hpp>
#include <osmium/area/multipolygon_manager.hpp>
#include <osmium/area/problem_reporter.hpp>
#include <osmium/builder/osm_object_builder.hpp>
#include <osmium/memory/buffer.hpp>
#include <osmium/osm/area.hpp>
#include <osmium/visitor.hpp>

#include <algorithm>
#include <list>

#include <sys/resource.h>
#include <unistd.h>

using osmium::area::detail::NodeRefSegment;
using osmium::area::detail::ProtoRing;
using osmium::area::detail::SegmentList;
using osmium::area::detail::role_type;
using osmium::memory::Buffer;

static std::string b01(bool b) { return b ? "1" : "0"; }

static std::string locs(const osmium::Location& l) {
    return std::to_string(l.x()) + ":" + std::to_string(l.y());
}

static std::string segs(const NodeRefSegment& s) {
    return std::to_string(s.first().location().x()) + "," + std::to_string(s.first().location().y()) + "," +
           std::to_string(s.second().location().x()) + "," + std::to_string(s.second().location().y());
}

static std::string seglist(const SegmentList& sl) {
    if (sl.empty()) return "-";
    std::string out;
    for (const auto& s : sl) {
        if (!out.empty()) out += ';';
        out += segs(s);
    }
    return out;
}

static osmium::Location loc(int64_t x, int64_t y) {
    return osmium::Location{static_cast<int32_t>(x), static_cast<int32_t>(y)};
}

static bool parse_node(const std::string& tok, osmium::NodeRef& nr) {
    const auto p1 = tok.find(':');
    if (p1 == std::string::npos) return false;
    const auto p2 = tok.find(':', p1 + 1);
    if (p2 == std::string::npos) return false;
    const int64_t id = std::stoll(tok.substr(0, p1));
    const int64_t x = std::stoll(tok.substr(p1 + 1, p2 - p1 - 1));
    const int64_t y = std::stoll(tok.substr(p2 + 1));
    nr = osmium::NodeRef{id, loc(x, y)};
    return true;
}

static std::string isect(const NodeRefSegment& s, const NodeRefSegment& t) {
    const osmium::Location l = osmium::area::detail::calculate_intersection(s, t);
    if (!l) return "0";
    return "1:" + locs(l);
}

struct Recorder : public osmium::area::ProblemReporter {
    std::vector<std::string> calls;
    std::vector<std::string> multi; // from an unordered container: sorted before printing

    void report_duplicate_node(osmium::object_id_type a, osmium::object_id_type b, osmium::Location l) override {
        calls.push_back("dupnode:" + std::to_string(a) + ":" + std::to_string(b) + ":" + locs(l));
    }
    void report_touching_ring(osmium::object_id_type id, osmium::Location l) override {
        calls.push_back("touch:" + std::to_string(id) + ":" + locs(l));
    }
    void report_intersection(osmium::object_id_type w1, osmium::Location a, osmium::Location b,
                             osmium::object_id_type w2, osmium::Location c, osmium::Location d, osmium::Location i) override {
        calls.push_back("isect:" + std::to_string(w1) + ":" + locs(a) + ":" + locs(b) + ":" + std::to_string(w2) + ":" + locs(c) + ":" + locs(d) + ":" + locs(i));
    }
    void report_duplicate_segment(const osmium::NodeRef& a, const osmium::NodeRef& b) override {
        calls.push_back("dupseg:" + locs(a.location()) + ":" + locs(b.location()));
    }
    void report_overlapping_segment(const osmium::NodeRef& a, const osmium::NodeRef& b) override {
        calls.push_back("overlap:" + locs(a.location()) + ":" + locs(b.location()));
    }
    void report_ring_not_closed(const osmium::NodeRef& nr, const osmium::Way* way) override {
        calls.push_back("open:" + std::to_string(nr.ref()) + ":" + locs(nr.location()) + ":" + (way ? std::to_string(way->id()) : std::string{"-"}));
    }
    void report_role_should_be_outer(osmium::object_id_type w, osmium::Location a, osmium::Location b) override {
        calls.push_back("should-outer:" + std::to_string(w) + ":" + locs(a) + ":" + locs(b));
    }
    void report_role_should_be_inner(osmium::object_id_type w, osmium::Location a, osmium::Location b) override {
        calls.push_back("should-inner:" + std::to_string(w) + ":" + locs(a) + ":" + locs(b));
    }
    void report_way_in_multiple_rings(const osmium::Way& way) override {
        multi.push_back("multi:" + std::to_string(way.id()));
    }
    void report_inner_with_same_tags(const osmium::Way& way) override {
        calls.push_back("innertags:" + std::to_string(way.id()));
    }
    void report_invalid_location(osmium::object_id_type w, osmium::object_id_type n) override {
        calls.push_back("invalid:" + std::to_string(w) + ":" + std::to_string(n));
    }
    void report_duplicate_way(const osmium::Way& way) override {
        calls.push_back("dupway:" + std::to_string(way.id()));
    }
    void report_way(const osmium::Way&) override {
    }

    std::string str() {
        std::sort(multi.begin(), multi.end());
        std::string out;
        for (const auto& c : calls) { if (!out.empty()) out += ';'; out += c; }
        for (const auto& c : multi) { if (!out.empty()) out += ';'; out += c; }
        return out.empty() ? "-" : out;
    }
};

static std::string stats_str(const osmium::area::area_stats& s) {
    std::ostringstream o;
    o << "complex=" << s.area_really_complex_case << ",simple=" << s.area_simple_case << ",touchcase=" << s.area_touching_rings_case
      << ",dupnodes=" << s.duplicate_nodes << ",dupsegs=" << s.duplicate_segments << ",dupways=" << s.duplicate_ways
      << ",fromrel=" << s.from_relations << ",fromway=" << s.from_ways << ",inner=" << s.inner_rings
      << ",ix=" << s.intersections << ",members=" << s.member_ways << ",nodes=" << s.nodes << ",open=" << s.open_rings
      << ",outer=" << s.outer_rings << ",overlap=" << s.overlapping_segments << ",short=" << s.short_ways
      << ",single=" << s.single_way_in_mp_relation << ",touching=" << s.touching_rings << ",multi=" << s.ways_in_multiple_rings
      << ",wrongrole=" << s.wrong_role << ",invalid=" << s.invalid_locations << ",noway=" << s.no_way_in_mp_relation;
    return o.str();
}

template <typename TRing>
static std::string ring_str(const char* kind, const TRing& ring) {
    std::string out = kind;
    out += ':';
    bool first = true;
    for (const auto& nr : ring) {
        if (!first) out += ',';
        first = false;
        out += std::to_string(nr.ref()) + "@" + std::to_string(nr.location().x()) + "@" + std::to_string(nr.location().y());
    }
    return out;
}

static std::string areas_str(const Buffer& buf, std::size_t& count) {
    std::string out;
    count = 0;
    for (const auto& area : buf.select<osmium::Area>()) {
        ++count;
        out += " A" + b01(area.from_way()) + ":" + std::to_string(area.orig_id()) + "[";
        bool first = true;
        for (const auto& outer : area.outer_rings()) {
            if (!first) out += '|';
            first = false;
            out += ring_str("O", outer);
            for (const auto& inner : area.inner_rings(outer)) {
                out += '|';
                out += ring_str("I", inner);
            }
        }
        out += "]";
    }
    return out;
}

struct WaySpec {
    int64_t id;
    char role;
    std::vector<osmium::NodeRef> nodes;
};

static const char* role_name(char r) {
    switch (r) {
        case 'o': return "outer";
        case 'i': return "inner";
        case 'e': return "";
        default: return "foo";
    }
}

static std::size_t add_way(Buffer& buf, const WaySpec& w, bool tagged) {
    {
        osmium::builder::WayBuilder b{buf};
        b.set_id(w.id).set_version(1).set_visible(true);
        b.set_user("");
        if (tagged) {
            osmium::builder::TagListBuilder tl{b};
            tl.add_tag("landuse", "forest");
        }
        {
            osmium::builder::WayNodeListBuilder nl{b};
            for (const auto& nr : w.nodes) nl.add_node_ref(nr);
        }
    }
    return buf.commit();
}

static std::size_t add_relation(Buffer& buf, const std::vector<WaySpec>& ways, bool with_node_member) {
    {
        osmium::builder::RelationBuilder b{buf};
        b.set_id(7).set_version(1).set_visible(true);
        b.set_user("");
        {
            osmium::builder::TagListBuilder tl{b};
            tl.add_tag("type", "multipolygon");
            tl.add_tag("landuse", "forest");
        }
        {
            osmium::builder::RelationMemberListBuilder ml{b};
            if (with_node_member) ml.add_member(osmium::item_type::node, 99, "label");
            for (const auto& w : ways) ml.add_member(osmium::item_type::way, w.id, role_name(w.role));
        }
    }
    return buf.commit();
}

static std::string do_asm(const std::vector<std::string>& w) {
    if (w.size() < 4) return "bad-op";
    const char mode = w[1][0];
    const int cfg = std::stoi(w[2]);
    std::vector<WaySpec> ways;
    for (std::size_t i = 3; i < w.size(); ++i) {
        if (w[i][0] == 'w') {
            const auto p = w[i].find(':');
            if (p == std::string::npos || p + 1 >= w[i].size()) return "bad-op";
            WaySpec ws;
            ws.id = std::stoll(w[i].substr(1, p - 1));
            ws.role = w[i][p + 1];
            ways.push_back(ws);
        } else {
            if (ways.empty()) return "bad-op";
            osmium::NodeRef nr;
            if (!parse_node(w[i], nr)) return "bad-op";
            ways.back().nodes.push_back(nr);
        }
    }
    if (ways.empty()) return "bad-op";

    Recorder rec;
    osmium::area::AssemblerConfig config;
    config.problem_reporter = &rec;
    config.create_empty_areas = (cfg & 1) != 0;
    config.check_roles = (cfg & 2) != 0;
    config.ignore_invalid_locations = (cfg & 4) != 0;
    // debug level 1 only prints a few lines to stderr (debug() is level > 1): captured to learn WHY
    // create_rings() gave up (max_depth / max_split_locations), never changes behaviour
    config.debug_level = 1;
    std::ostringstream captured;
    struct CerrGuard {
        std::streambuf* old;
        explicit CerrGuard(std::streambuf* nb) : old(std::cerr.rdbuf(nb)) {}
        ~CerrGuard() { std::cerr.rdbuf(old); }
    } guard{captured.rdbuf()};

    Buffer in{1024 * 64, Buffer::auto_grow::yes};
    Buffer out{1024 * 64, Buffer::auto_grow::yes};
    bool ret = false;
    osmium::area::area_stats stats;

    if (mode == 'w') {
        const auto pos = add_way(in, ways[0], true);
        osmium::area::Assembler assembler{config};
        ret = assembler(in.get<osmium::Way>(pos), out);
        stats = assembler.stats();
    } else if (mode == 'r') {
        std::vector<std::size_t> offs;
        for (const auto& ws : ways) {
            offs.push_back(add_way(in, ws, false));
        }
        const std::size_t rel_off = add_relation(in, ways, (cfg & 8) != 0);
        std::vector<const osmium::Way*> members;
        for (const auto o : offs) members.push_back(&in.get<osmium::Way>(o));
        osmium::area::Assembler assembler{config};
        ret = assembler(in.get<osmium::Relation>(rel_off), members, out);
        stats = assembler.stats();
    } else if (mode == 'm' || mode == 'v') {
        // first pass: relations; second pass: ways in ascending id order (the manager checks order)
        Buffer rels{1024 * 16, Buffer::auto_grow::yes};
        if (mode == 'm') add_relation(rels, ways, (cfg & 8) != 0);
        std::vector<const WaySpec*> sorted;
        for (const auto& ws : ways) sorted.push_back(&ws);
        std::stable_sort(sorted.begin(), sorted.end(), [](const WaySpec* a, const WaySpec* b) { return a->id < b->id; });
        int64_t last = 0;
        for (const auto* ws : sorted) {
            if (ws->id == last) continue; // a way exists once in a file even if it is a member twice
            last = ws->id;
            add_way(in, *ws, mode == 'v');
        }
        osmium::area::MultipolygonManager<osmium::area::Assembler> mgr{config};
        osmium::apply(rels, mgr);
        mgr.prepare_for_lookup();
        osmium::apply(in, mgr.handler([&out](Buffer&& b) {
            for (const auto& item : b) { out.add_item(item); out.commit(); }
        }));
        mgr.flush_output();
        {
            Buffer rest = mgr.read();
            for (const auto& item : rest) { out.add_item(item); out.commit(); }
        }
        stats = mgr.stats();
        ret = true;
    } else {
        return "bad-op";
    }
    std::size_t n = 0;
    const std::string as = areas_str(out, n);
    std::string notes;
    if (captured.str().find("Exceeded max depth") != std::string::npos) notes += "maxdepth";
    if (captured.str().find("Ignoring polygon with") != std::string::npos) notes += std::string{notes.empty() ? "" : ","} + "toomany";
    if (notes.empty()) notes = "-";
    return "ret=" + b01(ret) + " areas=" + std::to_string(n) + as + " stats=" + stats_str(stats) + " problems=" + rec.str() + " notes=" + notes;
}


// ---- ring building, step by step ------------------------------------------------------------------

using osmium::area::detail::BasicAssembler;

static std::string entry_str(const BasicAssembler& ba, const NodeRefSegment* seg) {
    const auto idx = seg - &ba.m_segment_list.m_segments[0];
    return std::to_string(idx) + "." + (seg->is_reverse() ? "1" : "0");
}

static std::string ring_entries(const BasicAssembler& ba, const ProtoRing& ring) {
    std::string out;
    for (const auto* seg : ring.segments()) {
        if (!out.empty()) out += ',';
        out += entry_str(ba, seg);
    }
    return out;
}

static void fill_segments(BasicAssembler& ba, const std::vector<std::string>& w) {
    // node ids by location: 1000 + rank of the location
    std::vector<osmium::Location> ls;
    for (std::size_t i = 1; i + 1 < w.size(); i += 2) ls.push_back(loc(std::stoll(w[i]), std::stoll(w[i + 1])));
    std::vector<osmium::Location> sorted = ls;
    std::sort(sorted.begin(), sorted.end());
    sorted.erase(std::unique(sorted.begin(), sorted.end()), sorted.end());
    const auto id_of = [&](const osmium::Location& l) {
        return static_cast<int64_t>(1000 + (std::lower_bound(sorted.begin(), sorted.end(), l) - sorted.begin()));
    };
    for (std::size_t k = 0; k + 1 < ls.size(); k += 2) {
        ba.m_segment_list.m_segments.emplace_back(osmium::NodeRef{id_of(ls[k]), ls[k]}, osmium::NodeRef{id_of(ls[k + 1]), ls[k + 1]},
                                                  role_type::outer, nullptr);
    }
}

static std::string do_rb(const std::vector<std::string>& w) {
    if ((w.size() - 1) % 4 != 0) return "bad-op";
    Recorder rec;
    osmium::area::AssemblerConfig config;
    config.problem_reporter = &rec;
    BasicAssembler ba{config};
    fill_segments(ba, w);
    for (const auto& s : ba.m_segment_list) {
        if (s.first().location() == s.second().location()) return "bad-op"; // never created by extract_segments_from_way
    }
    ba.m_segment_list.sort();
    uint64_t dup = 0;
    uint64_t ov = 0;
    ba.m_segment_list.erase_duplicate_segments(nullptr, dup, ov);
    std::string out = "n=" + std::to_string(ba.m_segment_list.size());
    if (ba.m_segment_list.empty()) return out;
    const auto ix = ba.m_segment_list.find_intersections(nullptr);
    out += " ix=" + std::to_string(ix);
    if (ix) return out;
    out += " segs=" + seglist(ba.m_segment_list);

    ba.create_locations_list();
    out += " locs=";
    for (std::size_t i = 0; i < ba.m_locations.size(); ++i) {
        if (i) out += ',';
        out += std::to_string(static_cast<uint32_t>(ba.m_locations[i].item)) + "." + (ba.m_locations[i].reverse ? "1" : "0");
    }

    const bool ok = ba.find_split_locations();
    out += " open=" + std::to_string(ba.m_stats.open_rings) + " opens=";
    {
        std::string o;
        for (const auto& c : rec.calls) {
            // "open:<id>:<x>:<y>:<way>"
            if (c.rfind("open:", 0) == 0) {
                const auto p1 = c.find(':', 5);
                const auto p3 = c.rfind(':');
                if (!o.empty()) o += ';';
                o += c.substr(p1 + 1, p3 - p1 - 1);
            }
        }
        out += o.empty() ? "-" : o;
    }
    out += " splits=";
    if (ba.m_split_locations.empty()) out += "-";
    for (std::size_t i = 0; i < ba.m_split_locations.size(); ++i) {
        if (i) out += ';';
        out += locs(ba.m_split_locations[i]);
    }
    out += std::string{" ret="} + b01(ok);
    if (!ok) return out;

    if (ba.m_split_locations.empty()) {
        ba.create_rings_simple_case();
        out += " simple rings=";
        bool first = true;
        for (const auto& ring : ba.m_rings) {
            if (!first) out += '|';
            first = false;
            if (ring.is_outer()) {
                out += "O";
            } else {
                std::size_t k = 0;
                for (const auto& r2 : ba.m_rings) {
                    if (&r2 == ring.outer_ring()) break;
                    ++k;
                }
                out += "I" + std::to_string(k);
            }
            out += ":" + ring_entries(ba, ring) + ":" + std::to_string(ring.sum());
        }
        return out;
    }
    if (ba.m_split_locations.size() > BasicAssembler::max_split_locations) return out + " toomany";

    // the two loops of create_rings_complex_case() around the REAL add_new_ring_complex()
    {
        auto count_remaining = ba.m_segment_list.size();
        for (const osmium::Location& location : ba.m_split_locations) {
            const auto range = std::equal_range(ba.m_locations.begin(), ba.m_locations.end(), BasicAssembler::slocation{},
                                                [&ba, &location](const BasicAssembler::slocation& lhs, const BasicAssembler::slocation& rhs) {
                                                    return lhs.location(ba.m_segment_list, location) < rhs.location(ba.m_segment_list, location);
                                                });
            for (auto it = range.first; it != range.second; ++it) {
                if (!ba.m_segment_list[it->item].is_done()) {
                    count_remaining -= ba.add_new_ring_complex(*it);
                    if (count_remaining == 0) break;
                }
            }
        }
        if (count_remaining > 0) {
            for (const auto& sl : ba.m_locations) {
                if (!ba.m_segment_list[sl.item].is_done()) {
                    count_remaining -= ba.add_new_ring_complex(sl);
                    if (count_remaining == 0) break;
                }
            }
        }
        out += " complex pieces=";
        bool first = true;
        for (const auto& ring : ba.m_rings) {
            if (!first) out += '|';
            first = false;
            out += ring_entries(ba, ring);
        }
    }
    // the real create_rings_complex_case() on a fresh assembler: its final rings are chains of those pieces
    {
        Recorder rec2;
        osmium::area::AssemblerConfig config2;
        config2.problem_reporter = &rec2;
        BasicAssembler bb{config2};
        fill_segments(bb, w);
        bb.m_segment_list.sort();
        bb.m_segment_list.erase_duplicate_segments(nullptr, dup, ov);
        bb.create_locations_list();
        bb.find_split_locations();
        const bool ret = bb.create_rings_complex_case();
        out += std::string{" final="} + b01(ret) + ":";
        bool first = true;
        for (const auto& ring : bb.m_rings) {
            if (!first) out += '|';
            first = false;
            out += ring_entries(bb, ring);
        }
    }
    return out;
}

// Watchdog for the ops that run the assembler: a defect in the ring-building loops (a mutated
// library, say) can make them spin and allocate without end.  Earlier output is flushed first, so
// the number of lines printed identifies the op; SIGALRM (default action) then ends the process.
struct Watchdog {
    Watchdog() { std::fflush(stdout); alarm(20); }
    ~Watchdog() { alarm(0); }
};

int main() {
    {
        struct rlimit rl;
        rl.rlim_cur = rl.rlim_max = 6ULL * 1024 * 1024 * 1024;
        setrlimit(RLIMIT_AS, &rl);
    }
    return vh::line_loop([](const std::string& line) -> std::string {
        const auto w = vh::words(line);
        if (w.empty()) return "bad-op";
        try {
            if (w[0] == "seg") {
                if (w.size() != 9) return "bad-op";
                int64_t v[8];
                for (int i = 0; i < 8; ++i) v[i] = std::stoll(w[1 + i]);
                const NodeRefSegment s{osmium::NodeRef{1, loc(v[0], v[1])}, osmium::NodeRef{2, loc(v[2], v[3])}, role_type::outer, nullptr};
                const NodeRefSegment t{osmium::NodeRef{3, loc(v[4], v[5])}, osmium::NodeRef{4, loc(v[6], v[7])}, role_type::outer, nullptr};
                using namespace osmium::area::detail;
                return b01(s < t) + " " + b01(t < s) + " " + b01(s == t) + " " + b01(outside_x_range(s, t)) + " " + b01(outside_x_range(t, s)) + " " +
                       b01(y_range_overlap(s, t)) + " " + b01(y_range_overlap(t, s)) + " " + isect(s, t) + " " + isect(t, s);
            }
            if (w[0] == "list") {
                if ((w.size() - 1) % 4 != 0) return "bad-op";
                SegmentList sl{false};
                for (std::size_t i = 1; i + 3 < w.size(); i += 4) {
                    sl.m_segments.emplace_back(osmium::NodeRef{static_cast<int64_t>(i), loc(std::stoll(w[i]), std::stoll(w[i + 1]))},
                                               osmium::NodeRef{static_cast<int64_t>(i + 1), loc(std::stoll(w[i + 2]), std::stoll(w[i + 3]))},
                                               role_type::outer, nullptr);
                }
                sl.sort();
                std::string out = "sorted=" + seglist(sl);
                uint64_t dup = 0;
                uint64_t ov = 0;
                sl.erase_duplicate_segments(nullptr, dup, ov);
                out += " erased=" + seglist(sl) + " pairs=" + std::to_string(dup) + " overlap=" + std::to_string(ov);
                out += " ix=" + std::to_string(sl.find_intersections(nullptr));
                return out;
            }
            if (w[0] == "extract") {
                WaySpec ws;
                ws.id = 5;
                ws.role = 'o';
                for (std::size_t i = 1; i < w.size(); ++i) {
                    osmium::NodeRef nr;
                    if (!parse_node(w[i], nr)) return "bad-op";
                    ws.nodes.push_back(nr);
                }
                Buffer in{4096, Buffer::auto_grow::yes};
                add_way(in, ws, false);
                SegmentList sl{false};
                uint64_t dupnodes = 0;
                const uint32_t invalid = sl.extract_segments_from_way(nullptr, dupnodes, in.get<osmium::Way>(0));
                return "segs=" + seglist(sl) + " invalid=" + std::to_string(invalid) + " dupnodes=" + std::to_string(dupnodes);
            }
            if (w[0] == "ring") {
                if (w.size() < 6 || (w.size() - 2) % 2 != 0) return "bad-op";
                std::vector<osmium::NodeRef> pts;
                for (std::size_t i = 2; i + 1 < w.size(); i += 2) {
                    pts.emplace_back(static_cast<int64_t>(i), loc(std::stoll(w[i]), std::stoll(w[i + 1])));
                }
                std::vector<NodeRefSegment> store;
                store.reserve(pts.size());
                for (std::size_t i = 0; i + 1 < pts.size(); ++i) {
                    store.emplace_back(pts[i], pts[i + 1], role_type::outer, nullptr);
                    if (store.back().start().location() != pts[i].location()) store.back().reverse();
                }
                ProtoRing ring{&store[0]};
                for (std::size_t i = 1; i < store.size(); ++i) ring.add_segment_back(&store[i]);
                std::string out = "sum=" + std::to_string(ring.sum()) + " cw=" + b01(ring.is_cw());
                ProtoRing dummy{&store[0]}; // only its address is used
                if (w[1] == "i") ring.set_outer_ring(&dummy);
                ring.fix_direction();
                out += " fixed=" + std::to_string(ring.get_node_ref_start().location().x()) + "," + std::to_string(ring.get_node_ref_start().location().y());
                for (const auto* s : ring.segments()) {
                    out += ";" + std::to_string(s->stop().location().x()) + "," + std::to_string(s->stop().location().y());
                }
                out += " fsum=" + std::to_string(ring.sum());
                return out;
            }
            if (w[0] == "asm") {
                const Watchdog wd;
                return do_asm(w);
            }
            if (w[0] == "rb") {
                const Watchdog wd;
                return do_rb(w);
            }
        } catch (const std::exception& e) {
            return std::string{"exception:"} + typeid(e).name();
        }
        return "bad-op";
    });
}
