// Shared constants printer (the "translator" half of the tie for constants): prints, from the
// CURRENT source, every compile-time constant that a Lean model hard-codes.  Compiled with
// -fno-access-control so private enums are reachable; the values are what the compiler sees, so
// any refactoring that keeps the value is silent and any edit that changes it changes
// lean/Osmium/Generated/Consts.lean, against which the `consts_tie` theorems are re-checked.
#include <osmium/builder/osm_object_builder.hpp>
#include <osmium/geom/tile.hpp>
#include <osmium/geom/wkb.hpp>
#include <osmium/io/detail/input_format.hpp>
#include <osmium/io/detail/o5m_input_format.hpp>
#include <osmium/io/detail/pbf.hpp>
#include <osmium/io/detail/pbf_decoder.hpp>
#include <osmium/io/detail/pbf_output_format.hpp>
#include <osmium/io/detail/read_write.hpp>
#include <osmium/io/detail/string_table.hpp>
#include <osmium/io/compression.hpp>
#include <osmium/memory/buffer.hpp>
#include <osmium/memory/item.hpp>
#include <osmium/osm.hpp>
#include <osmium/osm/item_type.hpp>
#include <osmium/osm/location.hpp>
#include <osmium/osm/types.hpp>
#include <osmium/storage/item_stash.hpp>
#include <osmium/thread/queue.hpp>

#include <cstdio>
#include <limits>

#define P(name, expr) std::printf("%s %lld\n", name, static_cast<long long>(expr))
#define PU(name, expr) std::printf("%s %llu\n", name, static_cast<unsigned long long>(expr))

int main() {
    using namespace osmium;
    // memory layout
    PU("alignBytes", memory::align_bytes);
    PU("bufMinCapacity", memory::Buffer::calculate_capacity(0));  // function-local enum min_capacity, observed through the function
    PU("sizeofItem", sizeof(memory::Item));
    PU("sizeofNode", sizeof(Node));
    PU("sizeofWay", sizeof(Way));
    PU("sizeofRelation", sizeof(Relation));
    PU("sizeofArea", sizeof(Area));
    PU("sizeofChangeset", sizeof(Changeset));
    PU("sizeofNodeRef", sizeof(NodeRef));
    PU("sizeofRelationMember", sizeof(RelationMember));
    PU("sizeofChangesetComment", sizeof(ChangesetComment));
    PU("sizeofTagList", sizeof(TagList));
    PU("sizeofStringSizeType", sizeof(string_size_type));
    PU("sizeofCommentSizeType", sizeof(changeset_comment_size_type));
    // item types
    PU("tyUndefined", static_cast<unsigned>(item_type::undefined));
    PU("tyNode", static_cast<unsigned>(item_type::node));
    PU("tyWay", static_cast<unsigned>(item_type::way));
    PU("tyRelation", static_cast<unsigned>(item_type::relation));
    PU("tyArea", static_cast<unsigned>(item_type::area));
    PU("tyChangeset", static_cast<unsigned>(item_type::changeset));
    PU("tyTagList", static_cast<unsigned>(item_type::tag_list));
    PU("tyWayNodeList", static_cast<unsigned>(item_type::way_node_list));
    PU("tyMemberList", static_cast<unsigned>(item_type::relation_member_list));
    PU("tyMemberListFull", static_cast<unsigned>(item_type::relation_member_list_with_full_members));
    PU("tyOuterRing", static_cast<unsigned>(item_type::outer_ring));
    PU("tyInnerRing", static_cast<unsigned>(item_type::inner_ring));
    PU("tyDiscussion", static_cast<unsigned>(item_type::changeset_discussion));
    // osm types
    PU("maxOsmStringLength", max_osm_string_length);
    P("coordinatePrecision", osmium::detail::coordinate_precision);
    P("undefinedCoordinate", Location::undefined_coordinate);
    // PBF
    P("pbfMaxBlobHeaderSize", io::detail::max_blob_header_size);
    PU("pbfMaxUncompressedBlobSize", io::detail::max_uncompressed_blob_size);
    PU("pbfMaxEntitiesPerBlock", io::detail::max_entities_per_block);
    P("pbfLonlatResolution", io::detail::lonlat_resolution);
    P("pbfResolutionConvert", io::detail::resolution_convert);
    PU("pbfStringTableMaxEntries", io::detail::StringTable::max_entries);
    // o5m
    PU("o5mNumberOfEntries", io::detail::ReferenceTable::number_of_entries);
    PU("o5mEntrySize", io::detail::ReferenceTable::entry_size);
    PU("o5mMaxLength", io::detail::ReferenceTable::max_length);
    // read/write
    PU("decompInputBufferSize", io::Decompressor::input_buffer_size);
    // stash
    PU("stashRemovedItemOffset", ItemStash::removed_item_offset);
    // geometry
    PU("maxZoom", geom::Tile::max_zoom);
    PU("wkbSRIDFlag", static_cast<unsigned>(geom::detail::WKBFactoryImpl::wkbSRID));
    PU("wkbPoint", static_cast<unsigned>(geom::detail::WKBFactoryImpl::wkbPoint));
    PU("wkbLineString", static_cast<unsigned>(geom::detail::WKBFactoryImpl::wkbLineString));
    PU("wkbPolygon", static_cast<unsigned>(geom::detail::WKBFactoryImpl::wkbPolygon));
    PU("wkbMultiPolygon", static_cast<unsigned>(geom::detail::WKBFactoryImpl::wkbMultiPolygon));
    return 0;
}
