// C13 harness: runs the REAL conversion functions of /repo/include on the op lines the Lean
// model driver (lean/Driver/C13.lean) also receives; see there for the line protocol.
// Extra implementation-only property monitors (not sent to the model):
//   crt <start> <count> <stride> <threads>  for x = start + i*stride (int32, wraps inside the
//        domain check): parse(format(x)) == x, whole string consumed, via Location::set_lon
//        and as_string_without_check.        -> "ok <count>" | "fail <x> <text> <got>"
//   trt <start> <count> <stride> <threads>  for t (uint32): Timestamp(t.to_iso_all()) == t and for t != 0
//        Timestamp(t.to_iso()) == t          -> "ok <count>" | "fail <t> <text>"
//   seq <errno 0|ERANGE|EINVAL|EDOM> <conv> <hex> [<conv> <hex> [<conv> <hex>]]   (also sent to the model)
//        sets errno to the given value, then calls the named conversions one after the other on THIS
//        thread with nothing in between (no formatting, no I/O: the outcomes are kept as numbers and
//        printed after the last call)        -> "<outcome> | <outcome> | <outcome>"
//        The conversions are functions of their argument: every outcome must be the outcome of the
//        same call on fresh state.  conv = sid ver cs uid nch ncm s2i32 s2i64 s2u64 oi64 ou32 c clon clat tp ts topl
#include "common.hpp"

#include <osmium/io/detail/opl_parser_functions.hpp>
#include <osmium/io/detail/output_format.hpp>
#include <osmium/memory/buffer.hpp>
#include <osmium/osm/location.hpp>
#include <osmium/osm/timestamp.hpp>
#include <osmium/osm/types_from_string.hpp>
#include <osmium/util/misc.hpp>

#include <atomic>
#include <cerrno>
#include <cstring>
#include <iterator>
#include <mutex>
#include <thread>

namespace {

struct Out : public osmium::io::detail::OutputBlock {
    Out() : OutputBlock(osmium::memory::Buffer{64}) {}
    std::string run(int64_t v) {
        m_out->clear();
        output_int(v);
        return *m_out;
    }
};

std::string fmt_coord(int32_t v) {
    std::string s;
    osmium::detail::append_location_coordinate_to_string(std::back_inserter(s), v);
    return s;
}

uint64_t fnv(uint64_t h, const std::string& s) {
    for (unsigned char c : s) {
        h = (h ^ c) * 1099511628211ULL;
    }
    return (h ^ 10U) * 1099511628211ULL;
}

template <typename F>
std::string sharded(int64_t start, uint64_t count, int64_t stride, unsigned threads, F&& check_one) {
    std::atomic<bool> failed{false};
    std::mutex mu;
    std::string failmsg;
    std::vector<std::thread> ts;
    if (threads == 0) threads = 1;
    const uint64_t per = (count + threads - 1) / threads;
    for (unsigned k = 0; k < threads; ++k) {
        ts.emplace_back([&, k]() {
            const uint64_t lo = k * per;
            const uint64_t hi = std::min(count, lo + per);
            for (uint64_t i = lo; i < hi && !failed.load(std::memory_order_relaxed); ++i) {
                const int64_t x = start + static_cast<int64_t>(i) * stride;
                std::string msg = check_one(x);
                if (!msg.empty()) {
                    std::lock_guard<std::mutex> g{mu};
                    if (!failed.exchange(true)) {
                        failmsg = msg;
                    }
                }
            }
        });
    }
    for (auto& t : ts) t.join();
    if (failed) return "fail " + failmsg;
    return "ok " + std::to_string(count);
}

template <typename T>
std::string opl_int(const std::string& s) {
    const char* p = s.c_str();
    try {
        const T v = osmium::io::detail::opl_parse_int<T>(&p);
        return "ok " + std::to_string(v) + " " + std::to_string(p - s.c_str());
    } catch (const osmium::opl_error&) {
        return "err";
    }
}

// ---- call sequences (history independence) -------------------------------------------------------
struct SeqR {
    int kind = 0; // 0 = err, 1 = "ok v", 2 = "ok v consumed", 3 = "v", 4 = unknown conversion
    long long v = 0;
    long long n = 0;
};

enum class Conv { sid, ver, cs, uid, nch, ncm, s2i32, s2i64, s2u64, oi64, ou32, c, clon, clat, tp, ts, topl, bad };

Conv conv_of(const std::string& n) {
    static const char* const names[] = {"sid", "ver", "cs", "uid", "nch", "ncm", "s2i32", "s2i64", "s2u64", "oi64", "ou32", "c", "clon", "clat", "tp", "ts", "topl"};
    for (int i = 0; i < static_cast<int>(Conv::bad); ++i) {
        if (n == names[i]) return static_cast<Conv>(i);
    }
    return Conv::bad;
}

// exactly one library call; nothing else that could read or write errno on the normal path
SeqR seq_call(Conv cv, const char* s) {
    SeqR r;
    try {
        switch (cv) {
            case Conv::sid: r.v = osmium::string_to_object_id(s); r.kind = 1; break;
            case Conv::ver: r.v = osmium::string_to_object_version(s); r.kind = 1; break;
            case Conv::cs: r.v = osmium::string_to_changeset_id(s); r.kind = 1; break;
            case Conv::uid: r.v = osmium::string_to_uid(s); r.kind = 1; break;
            case Conv::nch: r.v = osmium::string_to_num_changes(s); r.kind = 1; break;
            case Conv::ncm: r.v = osmium::string_to_num_comments(s); r.kind = 1; break;
            case Conv::s2i32: r.v = osmium::detail::str_to_int<int>(s); r.kind = 3; break;
            case Conv::s2i64: r.v = osmium::detail::str_to_int<int64_t>(s); r.kind = 3; break;
            case Conv::s2u64: r.v = static_cast<long long>(osmium::detail::str_to_int<std::size_t>(s)); r.kind = 3; break;
            case Conv::oi64: { const char* p = s; r.v = osmium::io::detail::opl_parse_int<int64_t>(&p); r.n = p - s; r.kind = 2; break; }
            case Conv::ou32: { const char* p = s; r.v = osmium::io::detail::opl_parse_int<uint32_t>(&p); r.n = p - s; r.kind = 2; break; }
            case Conv::c: { const char* p = s; osmium::Location l; l.set_lon_partial(&p); r.v = l.x(); r.n = p - s; r.kind = 2; break; }
            case Conv::clon: { osmium::Location l; l.set_lon(s); r.v = l.x(); r.kind = 1; break; }
            case Conv::clat: { osmium::Location l; l.set_lat(s); r.v = l.y(); r.kind = 1; break; }
            case Conv::tp: { const char* p = s; r.v = static_cast<long long>(osmium::detail::parse_timestamp(&p)); r.n = p - s; r.kind = 2; break; }
            case Conv::ts: { const osmium::Timestamp t{s}; r.v = uint32_t(t); r.kind = 1; break; }
            case Conv::topl: { const char* p = s; const osmium::Timestamp t = osmium::io::detail::opl_parse_timestamp(&p); r.v = uint32_t(t); r.n = p - s; r.kind = 2; break; }
            default: r.kind = 4; break;
        }
    } catch (const std::range_error&) {
        r.kind = 0;
    } catch (const osmium::invalid_location&) {
        r.kind = 0;
    } catch (const std::invalid_argument&) {
        r.kind = 0;
    } catch (const osmium::opl_error&) {
        r.kind = 0;
    }
    return r;
}

std::string seq_text(const SeqR& r) {
    switch (r.kind) {
        case 0: return "err";
        case 1: return "ok " + std::to_string(r.v);
        case 2: return "ok " + std::to_string(r.v) + " " + std::to_string(r.n);
        case 3: return std::to_string(r.v);
        default: return "bad-conv";
    }
}

std::string seq_op(const std::vector<std::string>& w) {
    int e = 0;
    if (w[1] == "0") e = 0;
    else if (w[1] == "ERANGE") e = ERANGE;
    else if (w[1] == "EINVAL") e = EINVAL;
    else if (w[1] == "EDOM") e = EDOM;
    else return "bad-op";
    const std::size_t n = (w.size() - 2) / 2;
    Conv cv[3] = {Conv::bad, Conv::bad, Conv::bad};
    std::string arg[3];
    for (std::size_t i = 0; i < n; ++i) {
        cv[i] = conv_of(w[2 + 2 * i]);
        if (cv[i] == Conv::bad || !vh::unhex(w[3 + 2 * i], arg[i])) return "bad-op";
    }
    SeqR r[3];
    errno = e;
    for (std::size_t i = 0; i < n; ++i) {
        r[i] = seq_call(cv[i], arg[i].c_str());
    }
    std::string out;
    for (std::size_t i = 0; i < n; ++i) {
        if (i) out += " | ";
        out += seq_text(r[i]);
    }
    return out;
}

std::string step(const std::string& line) {
    const auto w = vh::words(line);
    if (w.empty()) return "bad-op";
    const std::string& op = w[0];
    std::string s;
    try {
        if (op == "variant" && w.size() == 2) {
            return "variant " + w[1];
        }
        if (op == "tsvariant" && w.size() == 3) {
            return "tsvariant " + w[1] + " " + w[2];
        }
        if (op == "seq" && (w.size() == 4 || w.size() == 6 || w.size() == 8)) {
            return seq_op(w);
        }
        if (op == "c" && w.size() == 2 && vh::unhex(w[1], s)) {
            const char* p = s.c_str();
            int32_t v = 0;
            try {
                osmium::Location loc;
                loc.set_lon_partial(&p);
                v = loc.x();
            } catch (const osmium::invalid_location&) {
                // set_lon must reject as well
                try {
                    osmium::Location l2;
                    l2.set_lon(s.c_str());
                    return "err-but-set_lon-accepts";
                } catch (const osmium::invalid_location&) {
                }
                return "err";
            }
            // the strict entry points, each on its own
            bool full = true;
            try {
                osmium::Location l2;
                l2.set_lon(s.c_str());
                if (l2.x() != v) return "set_lon-differs";
            } catch (const osmium::invalid_location&) {
                full = false;
            }
            bool full_lat = true;
            try {
                osmium::Location l3;
                l3.set_lat(s.c_str());
                if (l3.y() != v) return "set_lat-differs";
                const char* q = s.c_str();
                osmium::Location l4;
                l4.set_lat_partial(&q);
                if (l4.y() != v || q != p) return "set_lat_partial-differs";
            } catch (const osmium::invalid_location&) {
                full_lat = false;
            }
            if (full != full_lat) {
                return std::string{"set_lon-set_lat-disagree-on-trailing-characters lon="} + (full ? "1" : "0") + " lat=" + (full_lat ? "1" : "0");
            }
            return "ok " + std::to_string(v) + " " + std::to_string(p - s.c_str()) + " " + (full ? "1" : "0");
        }
        if (op == "f" && w.size() == 2) {
            return fmt_coord(static_cast<int32_t>(std::stoll(w[1])));
        }
        if (op == "fsum" && w.size() == 4) {
            const int64_t a = std::stoll(w[1]);
            const uint64_t n = std::stoull(w[2]);
            const int64_t st = std::stoll(w[3]);
            uint64_t h = 14695981039346656037ULL;
            for (uint64_t i = 0; i < n; ++i) {
                h = fnv(h, fmt_coord(static_cast<int32_t>(a + static_cast<int64_t>(i) * st)));
            }
            return std::to_string(h);
        }
        if (op == "t" && w.size() == 2) {
            return osmium::Timestamp{static_cast<uint32_t>(std::stoull(w[1]))}.to_iso_all();
        }
        if (op == "ti" && w.size() == 2) {
            const std::string r = osmium::Timestamp{static_cast<uint32_t>(std::stoull(w[1]))}.to_iso();
            return r.empty() ? "-" : r;
        }
        if (op == "tsum" && w.size() == 4) {
            const int64_t a = std::stoll(w[1]);
            const uint64_t n = std::stoull(w[2]);
            const int64_t st = std::stoll(w[3]);
            uint64_t h = 14695981039346656037ULL;
            for (uint64_t i = 0; i < n; ++i) {
                h = fnv(h, osmium::Timestamp{static_cast<uint32_t>(a + static_cast<int64_t>(i) * st)}.to_iso_all());
            }
            return std::to_string(h);
        }
        if (op == "tp" && w.size() == 2 && vh::unhex(w[1], s)) {
            const char* p = s.c_str();
            try {
                const std::time_t t = osmium::detail::parse_timestamp(&p);
                const osmium::Timestamp ts{s.c_str()};
                const osmium::Timestamp ts2{s};
                if (ts != ts2) return "string-ctor-differs";
                return "ok " + std::to_string(static_cast<long long>(t)) + " " + std::to_string(uint32_t(ts)) + " " + std::to_string(p - s.c_str());
            } catch (const std::invalid_argument&) {
                try {
                    const osmium::Timestamp ts{s.c_str()};
                    return "err-but-ctor-accepts";
                } catch (const std::invalid_argument&) {
                }
                return "err";
            }
        }
        if (op == "topl" && w.size() == 2 && vh::unhex(w[1], s)) {
            const char* p = s.c_str();
            try {
                const osmium::Timestamp ts = osmium::io::detail::opl_parse_timestamp(&p);
                return "ok " + std::to_string(uint32_t(ts)) + " " + std::to_string(p - s.c_str());
            } catch (const osmium::opl_error&) {
                return "err";
            }
        }
        if (op == "oi" && w.size() == 3 && vh::unhex(w[2], s)) {
            if (w[1] == "i64") {
                static_assert(std::is_same<osmium::object_id_type, int64_t>::value, "object_id_type");
                const char* p = s.c_str();
                const char* q = s.c_str();
                const std::string r = opl_int<int64_t>(s);
                // the named wrapper must agree
                try {
                    const auto v = osmium::io::detail::opl_parse_id(&p);
                    if (r != "ok " + std::to_string(v) + " " + std::to_string(p - q)) return "opl_parse_id-differs";
                } catch (const osmium::opl_error&) {
                    if (r != "err") return "opl_parse_id-differs";
                }
                return r;
            }
            if (w[1] == "u32") {
                static_assert(std::is_same<osmium::object_version_type, uint32_t>::value, "object_version_type");
                static_assert(std::is_same<osmium::changeset_id_type, uint32_t>::value, "changeset_id_type");
                static_assert(std::is_same<osmium::user_id_type, uint32_t>::value, "user_id_type");
                static_assert(std::is_same<osmium::num_changes_type, uint32_t>::value, "num_changes_type");
                const std::string r = opl_int<uint32_t>(s);
                const char* p = s.c_str();
                try {
                    const auto v = osmium::io::detail::opl_parse_version(&p);
                    const char* p2 = s.c_str();
                    const auto v2 = osmium::io::detail::opl_parse_uid(&p2);
                    const char* p3 = s.c_str();
                    const auto v3 = osmium::io::detail::opl_parse_changeset_id(&p3);
                    if (v != v2 || v != v3 || r != "ok " + std::to_string(v) + " " + std::to_string(p - s.c_str())) return "opl_parse_version-differs";
                } catch (const osmium::opl_error&) {
                    if (r != "err") return "opl_parse_version-differs";
                }
                return r;
            }
            return "bad-op";
        }
        if (op == "sid" && w.size() == 2 && vh::unhex(w[1], s)) {
            try {
                return "ok " + std::to_string(osmium::string_to_object_id(s.c_str()));
            } catch (const std::range_error&) {
                return "err";
            }
        }
        if (op == "sul" && w.size() == 2 && vh::unhex(w[1], s)) {
            std::string r;
            try {
                r = "ok " + std::to_string(osmium::string_to_object_version(s.c_str()));
            } catch (const std::range_error&) {
                r = "err";
            }
            // all the named wrappers are the same function
            std::string r2;
            try {
                const auto a = osmium::string_to_changeset_id(s.c_str());
                const auto b = osmium::string_to_uid(s.c_str());
                const auto c = osmium::string_to_num_changes(s.c_str());
                const auto d = osmium::string_to_num_comments(s.c_str());
                r2 = (a == b && a == c && a == d) ? "ok " + std::to_string(a) : "wrappers-differ";
            } catch (const std::range_error&) {
                r2 = "err";
            }
            return r == r2 ? r : "wrappers-differ";
        }
        if (op == "s2i" && w.size() == 3 && vh::unhex(w[2], s)) {
            if (w[1] == "i32") return std::to_string(osmium::detail::str_to_int<int>(s.c_str()));
            if (w[1] == "i64") return std::to_string(osmium::detail::str_to_int<int64_t>(s.c_str()));
            if (w[1] == "u64") return std::to_string(osmium::detail::str_to_int<std::size_t>(s.c_str()));
            return "bad-op";
        }
        if (op == "out" && w.size() == 2) {
            const long long v = std::stoll(w[1]);
            if (v == std::numeric_limits<long long>::min()) return "ub"; // -INT64_MIN: not executed
            static Out o;
            return o.run(v);
        }
        if (op == "crt" && w.size() == 5) {
            return sharded(std::stoll(w[1]), std::stoull(w[2]), std::stoll(w[3]), static_cast<unsigned>(std::stoul(w[4])), [](int64_t x64) -> std::string {
                const int32_t x = static_cast<int32_t>(x64);
                char buf[32];
                char* e = osmium::detail::append_location_coordinate_to_string(buf, x);
                *e = '\0';
                try {
                    osmium::Location l;
                    l.set_lon(buf);
                    if (l.x() == x) return std::string{};
                    return std::to_string(x) + " " + buf + " " + std::to_string(l.x());
                } catch (const osmium::invalid_location&) {
                    return std::to_string(x) + " " + buf + " rejected";
                }
            });
        }
        if (op == "trt" && w.size() == 5) {
            return sharded(std::stoll(w[1]), std::stoull(w[2]), std::stoll(w[3]), static_cast<unsigned>(std::stoul(w[4])), [](int64_t x64) -> std::string {
                const uint32_t t = static_cast<uint32_t>(x64);
                const osmium::Timestamp ts{t};
                const std::string a = ts.to_iso_all();
                try {
                    if (uint32_t(osmium::Timestamp{a.c_str()}) != t) return std::to_string(t) + " " + a;
                    if (t != 0) {
                        const std::string b = ts.to_iso();
                        if (b != a) return std::to_string(t) + " to_iso:" + b;
                    } else if (!ts.to_iso().empty()) {
                        return std::string{"0 to_iso-not-empty"};
                    }
                } catch (const std::invalid_argument&) {
                    return std::to_string(t) + " " + a + " rejected";
                }
                return std::string{};
            });
        }
    } catch (const std::exception& e) {
        return std::string{"unexpected-exception"};
    }
    return "bad-op";
}

} // namespace

int main() {
    return vh::line_loop(step);
}
