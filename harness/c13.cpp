// C13 harness: runs the REAL conversion functions of /repo/include on the op lines the Lean
// model driver (lean/Driver/C13.lean) also receives; see there for the line protocol.
// Extra implementation-only property monitors (not sent to the model):
//   crt <start> <count> <stride> <threads>  for x = start + i*stride (int32, wraps inside the
//        domain check): parse(format(x)) == x, whole string consumed, via Location::set_lon
//        and as_string_without_check.        -> "ok <count>" | "fail <x> <text> <got>"
//   trt <start> <count> <stride> <threads>  for t (uint32): Timestamp(t.to_iso_all()) == t and for t != 0
//        Timestamp(t.to_iso()) == t          -> "ok <count>" | "fail <t> <text>"
#include "common.hpp"

#include <osmium/io/detail/opl_parser_functions.hpp>
#include <osmium/io/detail/output_format.hpp>
#include <osmium/memory/buffer.hpp>
#include <osmium/osm/location.hpp>
#include <osmium/osm/timestamp.hpp>
#include <osmium/osm/types_from_string.hpp>
#include <osmium/util/misc.hpp>

#include <atomic>
#include <cstring>
#include <iterator>
#include <mutex>
#include <thread>

namespace {

struct Out : public osmium::io::detail::OutputBlock {
    Out() : OutputBlock(osmium::memory::Buffer{64}) {}
    std::string run(int64_t v) {
        m_out->clear();
        output_int(v);
        return *m_out;
    }
};

std::string fmt_coord(int32_t v) {
    std::string s;
    osmium::detail::append_location_coordinate_to_string(std::back_inserter(s), v);
    return s;
}

uint64_t fnv(uint64_t h, const std::string& s) {
    for (unsigned char c : s) {
        h = (h ^ c) * 1099511628211ULL;
    }
    return (h ^ 10U) * 1099511628211ULL;
}

template <typename F>
std::string sharded(int64_t start, uint64_t count, int64_t stride, unsigned threads, F&& check_one) {
    std::atomic<bool> failed{false};
    std::mutex mu;
    std::string failmsg;
    std::vector<std::thread> ts;
    if (threads == 0) threads = 1;
    const uint64_t per = (count + threads - 1) / threads;
    for (unsigned k = 0; k < threads; ++k) {
        ts.emplace_back([&, k]() {
            const uint64_t lo = k * per;
            const uint64_t hi = std::min(count, lo + per);
            for (uint64_t i = lo; i < hi && !failed.load(std::memory_order_relaxed); ++i) {
                const int64_t x = start + static_cast<int64_t>(i) * stride;
                std::string msg = check_one(x);
                if (!msg.empty()) {
                    std::lock_guard<std::mutex> g{mu};
                    if (!failed.exchange(true)) {
                        failmsg = msg;
                    }
                }
            }
        });
    }
    for (auto& t : ts) t.join();
    if (failed) return "fail " + failmsg;
    return "ok " + std::to_string(count);
}

template <typename T>
std::string opl_int(const std::string& s) {
    const char* p = s.c_str();
    try {
        const T v = osmium::io::detail::opl_parse_int<T>(&p);
        return "ok " + std::to_string(v) + " " + std::to_string(p - s.c_str());
    } catch (const osmium::opl_error&) {
        return "err";
    }
}

std::string step(const std::string& line) {
    const auto w = vh::words(line);
    if (w.empty()) return "bad-op";
    const std::string& op = w[0];
    std::string s;
    try {
        if (op == "variant" && w.size() == 2) {
            return "variant " + w[1];
        }
        if (op == "tsvariant" && w.size() == 3) {
            return "tsvariant " + w[1] + " " + w[2];
        }
        if (op == "c" && w.size() == 2 && vh::unhex(w[1], s)) {
            const char* p = s.c_str();
            int32_t v = 0;
            try {
                osmium::Location loc;
                loc.set_lon_partial(&p);
                v = loc.x();
            } catch (const osmium::invalid_location&) {
                // set_lon must reject as well
                try {
                    osmium::Location l2;
                    l2.set_lon(s.c_str());
                    return "err-but-set_lon-accepts";
                } catch (const osmium::invalid_location&) {
                }
                return "err";
            }
            // the strict entry points, each on its own
            bool full = true;
            try {
                osmium::Location l2;
                l2.set_lon(s.c_str());
                if (l2.x() != v) return "set_lon-differs";
            } catch (const osmium::invalid_location&) {
                full = false;
            }
            bool full_lat = true;
            try {
                osmium::Location l3;
                l3.set_lat(s.c_str());
                if (l3.y() != v) return "set_lat-differs";
                const char* q = s.c_str();
                osmium::Location l4;
                l4.set_lat_partial(&q);
                if (l4.y() != v || q != p) return "set_lat_partial-differs";
            } catch (const osmium::invalid_location&) {
                full_lat = false;
            }
            if (full != full_lat) {
                return std::string{"set_lon-set_lat-disagree-on-trailing-characters lon="} + (full ? "1" : "0") + " lat=" + (full_lat ? "1" : "0");
            }
            return "ok " + std::to_string(v) + " " + std::to_string(p - s.c_str()) + " " + (full ? "1" : "0");
        }
        if (op == "f" && w.size() == 2) {
            return fmt_coord(static_cast<int32_t>(std::stoll(w[1])));
        }
        if (op == "fsum" && w.size() == 4) {
            const int64_t a = std::stoll(w[1]);
            const uint64_t n = std::stoull(w[2]);
            const int64_t st = std::stoll(w[3]);
            uint64_t h = 14695981039346656037ULL;
            for (uint64_t i = 0; i < n; ++i) {
                h = fnv(h, fmt_coord(static_cast<int32_t>(a + static_cast<int64_t>(i) * st)));
            }
            return std::to_string(h);
        }
        if (op == "t" && w.size() == 2) {
            return osmium::Timestamp{static_cast<uint32_t>(std::stoull(w[1]))}.to_iso_all();
        }
        if (op == "ti" && w.size() == 2) {
            const std::string r = osmium::Timestamp{static_cast<uint32_t>(std::stoull(w[1]))}.to_iso();
            return r.empty() ? "-" : r;
        }
        if (op == "tsum" && w.size() == 4) {
            const int64_t a = std::stoll(w[1]);
            const uint64_t n = std::stoull(w[2]);
            const int64_t st = std::stoll(w[3]);
            uint64_t h = 14695981039346656037ULL;
            for (uint64_t i = 0; i < n; ++i) {
                h = fnv(h, osmium::Timestamp{static_cast<uint32_t>(a + static_cast<int64_t>(i) * st)}.to_iso_all());
            }
            return std::to_string(h);
        }
        if (op == "tp" && w.size() == 2 && vh::unhex(w[1], s)) {
            const char* p = s.c_str();
            try {
                const std::time_t t = osmium::detail::parse_timestamp(&p);
                const osmium::Timestamp ts{s.c_str()};
                const osmium::Timestamp ts2{s};
                if (ts != ts2) return "string-ctor-differs";
                return "ok " + std::to_string(static_cast<long long>(t)) + " " + std::to_string(uint32_t(ts)) + " " + std::to_string(p - s.c_str());
            } catch (const std::invalid_argument&) {
                try {
                    const osmium::Timestamp ts{s.c_str()};
                    return "err-but-ctor-accepts";
                } catch (const std::invalid_argument&) {
                }
                return "err";
            }
        }
        if (op == "topl" && w.size() == 2 && vh::unhex(w[1], s)) {
            const char* p = s.c_str();
            try {
                const osmium::Timestamp ts = osmium::io::detail::opl_parse_timestamp(&p);
                return "ok " + std::to_string(uint32_t(ts)) + " " + std::to_string(p - s.c_str());
            } catch (const osmium::opl_error&) {
                return "err";
            }
        }
        if (op == "oi" && w.size() == 3 && vh::unhex(w[2], s)) {
            if (w[1] == "i64") {
                static_assert(std::is_same<osmium::object_id_type, int64_t>::value, "object_id_type");
                const char* p = s.c_str();
                const char* q = s.c_str();
                const std::string r = opl_int<int64_t>(s);
                // the named wrapper must agree
                try {
                    const auto v = osmium::io::detail::opl_parse_id(&p);
                    if (r != "ok " + std::to_string(v) + " " + std::to_string(p - q)) return "opl_parse_id-differs";
                } catch (const osmium::opl_error&) {
                    if (r != "err") return "opl_parse_id-differs";
                }
                return r;
            }
            if (w[1] == "u32") {
                static_assert(std::is_same<osmium::object_version_type, uint32_t>::value, "object_version_type");
                static_assert(std::is_same<osmium::changeset_id_type, uint32_t>::value, "changeset_id_type");
                static_assert(std::is_same<osmium::user_id_type, uint32_t>::value, "user_id_type");
                static_assert(std::is_same<osmium::num_changes_type, uint32_t>::value, "num_changes_type");
                const std::string r = opl_int<uint32_t>(s);
                const char* p = s.c_str();
                try {
                    const auto v = osmium::io::detail::opl_parse_version(&p);
                    const char* p2 = s.c_str();
                    const auto v2 = osmium::io::detail::opl_parse_uid(&p2);
                    const char* p3 = s.c_str();
                    const auto v3 = osmium::io::detail::opl_parse_changeset_id(&p3);
                    if (v != v2 || v != v3 || r != "ok " + std::to_string(v) + " " + std::to_string(p - s.c_str())) return "opl_parse_version-differs";
                } catch (const osmium::opl_error&) {
                    if (r != "err") return "opl_parse_version-differs";
                }
                return r;
            }
            return "bad-op";
        }
        if (op == "sid" && w.size() == 2 && vh::unhex(w[1], s)) {
            try {
                return "ok " + std::to_string(osmium::string_to_object_id(s.c_str()));
            } catch (const std::range_error&) {
                return "err";
            }
        }
        if (op == "sul" && w.size() == 2 && vh::unhex(w[1], s)) {
            std::string r;
            try {
                r = "ok " + std::to_string(osmium::string_to_object_version(s.c_str()));
            } catch (const std::range_error&) {
                r = "err";
            }
            // all the named wrappers are the same function
            std::string r2;
            try {
                const auto a = osmium::string_to_changeset_id(s.c_str());
                const auto b = osmium::string_to_uid(s.c_str());
                const auto c = osmium::string_to_num_changes(s.c_str());
                const auto d = osmium::string_to_num_comments(s.c_str());
                r2 = (a == b && a == c && a == d) ? "ok " + std::to_string(a) : "wrappers-differ";
            } catch (const std::range_error&) {
                r2 = "err";
            }
            return r == r2 ? r : "wrappers-differ";
        }
        if (op == "s2i" && w.size() == 3 && vh::unhex(w[2], s)) {
            if (w[1] == "i32") return std::to_string(osmium::detail::str_to_int<int>(s.c_str()));
            if (w[1] == "i64") return std::to_string(osmium::detail::str_to_int<int64_t>(s.c_str()));
            if (w[1] == "u64") return std::to_string(osmium::detail::str_to_int<std::size_t>(s.c_str()));
            return "bad-op";
        }
        if (op == "out" && w.size() == 2) {
            const long long v = std::stoll(w[1]);
            if (v == std::numeric_limits<long long>::min()) return "ub"; // -INT64_MIN: not executed
            static Out o;
            return o.run(v);
        }
        if (op == "crt" && w.size() == 5) {
            return sharded(std::stoll(w[1]), std::stoull(w[2]), std::stoll(w[3]), static_cast<unsigned>(std::stoul(w[4])), [](int64_t x64) -> std::string {
                const int32_t x = static_cast<int32_t>(x64);
                char buf[32];
                char* e = osmium::detail::append_location_coordinate_to_string(buf, x);
                *e = '\0';
                try {
                    osmium::Location l;
                    l.set_lon(buf);
                    if (l.x() == x) return std::string{};
                    return std::to_string(x) + " " + buf + " " + std::to_string(l.x());
                } catch (const osmium::invalid_location&) {
                    return std::to_string(x) + " " + buf + " rejected";
                }
            });
        }
        if (op == "trt" && w.size() == 5) {
            return sharded(std::stoll(w[1]), std::stoull(w[2]), std::stoll(w[3]), static_cast<unsigned>(std::stoul(w[4])), [](int64_t x64) -> std::string {
                const uint32_t t = static_cast<uint32_t>(x64);
                const osmium::Timestamp ts{t};
                const std::string a = ts.to_iso_all();
                try {
                    if (uint32_t(osmium::Timestamp{a.c_str()}) != t) return std::to_string(t) + " " + a;
                    if (t != 0) {
                        const std::string b = ts.to_iso();
                        if (b != a) return std::to_string(t) + " to_iso:" + b;
                    } else if (!ts.to_iso().empty()) {
                        return std::string{"0 to_iso-not-empty"};
                    }
                } catch (const std::invalid_argument&) {
                    return std::to_string(t) + " " + a + " rejected";
                }
                return std::string{};
            });
        }
    } catch (const std::exception& e) {
        return std::string{"unexpected-exception"};
    }
    return "bad-op";
}

} // namespace

int main() {
    return vh::line_loop(step);
}
