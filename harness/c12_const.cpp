// C12 constants printer: values the Lean model takes from the CURRENT source that can be
// observed from outside the classes (sizes, empty-value conventions, the mmap increment).
// The private enums of FlexMem and the local constant of dump_as_array are extracted from
// the source text by tools/props/c12.py.
#include <osmium/index/detail/mmap_vector_base.hpp>
#include <osmium/index/index.hpp>
#include <osmium/osm/location.hpp>
#include <osmium/osm/types.hpp>

#include <cstdio>
#include <utility>

int main() {
    using pair_t = std::pair<osmium::unsigned_object_id_type, osmium::Location>;
    const osmium::Location e = osmium::index::empty_value<osmium::Location>();
    const osmium::Location v{};
    const pair_t pe = osmium::index::empty_value<pair_t>();
    std::printf("mmapSizeIncrement %llu\n", static_cast<unsigned long long>(osmium::detail::mmap_vector_size_increment));
    std::printf("sizeofLocation %zu\n", sizeof(osmium::Location));
    std::printf("sizeofPair %zu\n", sizeof(pair_t));
    std::printf("undefinedCoordinate %lld\n", static_cast<long long>(osmium::Location::undefined_coordinate));
    std::printf("locEmpty %d %d\n", e.x(), e.y());
    std::printf("locValueInit %d %d\n", v.x(), v.y());
    std::printf("pairEmpty %llu %d %d\n", static_cast<unsigned long long>(pe.first), pe.second.x(), pe.second.y());
    std::printf("sizetEmpty %llu\n", static_cast<unsigned long long>(osmium::index::empty_value<std::size_t>()));
    std::printf("sizetValueInit %llu\n", static_cast<unsigned long long>(std::size_t{}));
    return 0;
}
