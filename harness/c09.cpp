// C09 harness: the REAL Decompressor / Compressor classes, created through CompressionFactory exactly
// as osmium::io::Reader::make_decompressor / Writer do, driven by the ReadThreadManager loop.
//
//   rd <comp> <fd|buf> <ibs> <path> [model-only oracle fields ...]
//        decompressor = CompressionFactory::create_decompressor(comp, fd) / (comp, buffer, size);
//        set_offset_ptr(&off); then the loop of ReadThreadManager::run_in_thread
//        (read() until the first empty string, then close()), all in this thread.
//        -> "<status> lens=<rle> total=<n> crc=<crc32 hex> | offs=<rle> fsize=<n>"
//           status = ok | err:<class>@<read|close|open>; lens = lengths of the non-empty chunks in order
//           (run-length coded "len" or "lenxcount"), offs = value of the offset after every read() call
//           (including the last, empty one), fsize = size of the file / buffer.
//   rtm <comp> <fd|buf> <ibs> <path> ...
//        same decompressor behind the REAL ReadThreadManager + future_string_queue, drained with the
//        REAL queue_wrapper<std::string> (as the parsers do)
//        -> "<status> lens=<rle> total=<n> crc=<crc32 hex>"     (status: err:<class>@queue)
//   reader <comp> <fd|buf> <ibs> <path>
//        whole osmium::io::Reader on an OPL file (format "opl" + compression), counts objects and watches
//        offset() <= file_size() after every buffer
//        -> "ok objects=<n> ids=<crc32 of "<type char><id>;" for every object in order> off=<n> fsize=<n> offbad=<0|1>" | "err:<class>"
//   wr <comp> <ibs> <outpath> <inpath> <piece>
//        CompressionFactory::create_compressor(comp, fd, fsync::no); the bytes of <inpath> written in pieces of
//        <piece> bytes (0 = one write; an empty input gives one write("") call); close()
//        -> "ok csize=<compressor.file_size()>" | "err:<class>"
// <ibs> must equal Decompressor::input_buffer_size of this binary (compiled-in via
// -DOSMIUM_VERIF_INPUT_BUFFER_SIZE), otherwise "bad-ibs".
#include "common.hpp"

#include <chrono>
#include <osmium/io/any_compression.hpp>
#include <osmium/io/compression.hpp>
#include <osmium/io/detail/queue_util.hpp>
#include <osmium/io/detail/read_thread.hpp>
#include <osmium/io/file.hpp>
#include <osmium/io/opl_input.hpp>
#include <osmium/io/reader.hpp>
#include <osmium/memory/buffer.hpp>
#include <osmium/osm/item_type.hpp>
#include <osmium/osm/object.hpp>

#include <zlib.h>

#include <atomic>
#include <fcntl.h>
#include <fstream>
#include <iterator>
#include <sys/stat.h>
#include <unistd.h>

static std::string err_class(const std::exception& e) {
    if (dynamic_cast<const osmium::gzip_error*>(&e)) return "gzip";
    if (dynamic_cast<const osmium::bzip2_error*>(&e)) return "bzip2";
    if (dynamic_cast<const osmium::io_error*>(&e)) return "io";
    if (dynamic_cast<const std::system_error*>(&e)) return "sys";
    return "other";
}

struct Rle {
    std::string out;
    std::size_t cur = 0;
    std::size_t n = 0;
    void flush() {
        if (n == 0) return;
        if (!out.empty()) out += ',';
        out += std::to_string(cur);
        if (n > 1) {
            out += 'x';
            out += std::to_string(n);
        }
        n = 0;
    }
    void add(std::size_t v) {
        if (n > 0 && v == cur) {
            ++n;
            return;
        }
        flush();
        cur = v;
        n = 1;
    }
    std::string str() {
        flush();
        return out.empty() ? "-" : out;
    }
};

static bool slurp(const std::string& path, std::string& data) {
    std::ifstream in{path, std::ios::binary};
    if (!in) return false;
    data.assign(std::istreambuf_iterator<char>{in}, std::istreambuf_iterator<char>{});
    return true;
}

static bool comp_of(const std::string& s, osmium::io::file_compression& c) {
    if (s == "gzip") { c = osmium::io::file_compression::gzip; return true; }
    if (s == "bzip2") { c = osmium::io::file_compression::bzip2; return true; }
    if (s == "none") { c = osmium::io::file_compression::none; return true; }
    return false;
}

static std::string hex32(unsigned long v) {
    char b[16];
    std::snprintf(b, sizeof(b), "%08lx", v & 0xffffffffUL);
    return b;
}

struct Source {
    std::string data;   // buffer mode: the bytes (must outlive the decompressor)
    int fd = -1;
    std::size_t fsize = 0;
};

static std::unique_ptr<osmium::io::Decompressor> make(const osmium::io::file_compression comp, const std::string& mode, const std::string& path, Source& src, std::string& fail) {
    const auto& factory = osmium::io::CompressionFactory::instance();
    if (mode == "buf") {
        if (!slurp(path, src.data)) {
            fail = "no-file";
            return nullptr;
        }
        src.fsize = src.data.size();
        return factory.create_decompressor(comp, src.data.data(), src.data.size());
    }
    src.fd = ::open(path.c_str(), O_RDONLY | O_CLOEXEC);
    if (src.fd < 0) {
        fail = "no-file";
        return nullptr;
    }
    struct stat st{};
    ::fstat(src.fd, &st);
    src.fsize = static_cast<std::size_t>(st.st_size);
    return factory.create_decompressor(comp, src.fd);   // takes ownership of the fd
}

static int op_timeout_s() {
    const char* e = ::getenv("C09_OP_TIMEOUT");
    return e ? std::atoi(e) : 20;
}

static std::string op_rd(const osmium::io::file_compression comp, const std::string& mode, const std::string& path) {
    Source src;
    std::string status = "ok";
    Rle lens;
    Rle offs;
    std::size_t total = 0;
    unsigned long crc = ::crc32(0L, Z_NULL, 0);
    std::atomic<std::size_t> off{0};
    const char* phase = "open";
    std::unique_ptr<osmium::io::Decompressor> d;
    try {
        std::string fail;
        d = make(comp, mode, path, src, fail);
        if (!d) return fail;
        d->set_offset_ptr(&off);
        phase = "read";
        // ReadThreadManager::run_in_thread
        const auto t0 = std::chrono::steady_clock::now();
        while (true) {
            std::string data{d->read()};
            offs.add(off.load());
            if (osmium::io::detail::at_end_of_data(data)) {
                break;
            }
            // watchdog: "decompressed completely" includes "the read loop ends" — a wrapper that
            // keeps delivering data (e.g. re-reads one stream for ever, seed C09-3) is cut here
            if (std::chrono::steady_clock::now() - t0 > std::chrono::seconds(op_timeout_s()) || total > (std::size_t{1} << 32)) {
                status = "hang:read-loop-does-not-end";
                break;
            }
            lens.add(data.size());
            total += data.size();
            crc = ::crc32(crc, reinterpret_cast<const Bytef*>(data.data()), static_cast<uInt>(data.size()));
        }
        phase = "close";
        d->close();
    } catch (const std::exception& e) {
        status = "err:" + err_class(e) + "@" + phase;
    }
    d.reset();
    return status + " lens=" + lens.str() + " total=" + std::to_string(total) + " crc=" + hex32(crc) +
           " | offs=" + offs.str() + " fsize=" + std::to_string(src.fsize);
}

static std::string op_rtm(const osmium::io::file_compression comp, const std::string& mode, const std::string& path) {
    Source src;
    std::string status = "ok";
    Rle lens;
    std::size_t total = 0;
    unsigned long crc = ::crc32(0L, Z_NULL, 0);
    std::atomic<std::size_t> off{0};
    std::unique_ptr<osmium::io::Decompressor> d;
    try {
        std::string fail;
        d = make(comp, mode, path, src, fail);
        if (!d) return fail;
        d->set_offset_ptr(&off);
    } catch (const std::exception& e) {
        return "err:" + err_class(e) + "@open lens=- total=0 crc=00000000";
    }
    {
        osmium::io::detail::future_string_queue_type queue{20, "raw_input"};
        osmium::io::detail::ReadThreadManager rtm{*d, queue};
        osmium::io::detail::queue_wrapper<std::string> input{queue};
        try {
            const auto t0 = std::chrono::steady_clock::now();
            while (!input.has_reached_end_of_data()) {
                const std::string data{input.pop()};
                if (data.empty()) {
                    continue;
                }
                if (std::chrono::steady_clock::now() - t0 > std::chrono::seconds(op_timeout_s()) || total > (std::size_t{1} << 32)) {
                    status = "hang:read-loop-does-not-end";
                    break;
                }
                lens.add(data.size());
                total += data.size();
                crc = ::crc32(crc, reinterpret_cast<const Bytef*>(data.data()), static_cast<uInt>(data.size()));
            }
        } catch (const std::exception& e) {
            status = "err:" + err_class(e) + "@queue";
        }
        rtm.close();
    }
    d.reset();
    return status + " lens=" + lens.str() + " total=" + std::to_string(total) + " crc=" + hex32(crc);
}

static std::string op_reader(const std::string& comp, const std::string& mode, const std::string& path) {
    std::string fmt = "opl";
    if (comp == "gzip") fmt += ".gz";
    if (comp == "bzip2") fmt += ".bz2";
    std::string data;
    try {
        std::unique_ptr<osmium::io::File> file;
        std::size_t fsize = 0;
        if (mode == "buf") {
            if (!slurp(path, data)) return "no-file";
            file.reset(new osmium::io::File{data.data(), data.size(), fmt});
            fsize = data.size();
        } else {
            file.reset(new osmium::io::File{path, fmt});
        }
        osmium::io::Reader reader{*file};
        if (mode != "buf") fsize = reader.file_size();
        std::size_t n = 0;
        bool offbad = false;
        unsigned long idcrc = ::crc32(0L, Z_NULL, 0);
        while (osmium::memory::Buffer buffer = reader.read()) {
            for (const auto& item : buffer) {
                ++n;
                std::string t(1, osmium::item_type_to_char(item.type()));
                if (item.type() == osmium::item_type::node || item.type() == osmium::item_type::way || item.type() == osmium::item_type::relation) {
                    t += std::to_string(static_cast<const osmium::OSMObject&>(item).id());
                }
                t += ';';
                idcrc = ::crc32(idcrc, reinterpret_cast<const Bytef*>(t.data()), static_cast<uInt>(t.size()));
            }
            if (reader.offset() > fsize) offbad = true;
        }
        const std::size_t off = reader.offset();
        if (off > fsize) offbad = true;
        reader.close();
        return "ok objects=" + std::to_string(n) + " ids=" + hex32(idcrc) + " off=" + std::to_string(off) + " fsize=" + std::to_string(fsize) + " offbad=" + (offbad ? "1" : "0");
    } catch (const std::exception& e) {
        return "err:" + err_class(e);
    }
}

static std::string op_wr(const osmium::io::file_compression comp, const std::string& outpath, const std::string& inpath, std::size_t piece) {
    std::string data;
    if (!slurp(inpath, data)) return "no-file";
    try {
        const int fd = ::open(outpath.c_str(), O_WRONLY | O_CREAT | O_TRUNC | O_CLOEXEC, 0644);
        if (fd < 0) return "no-out";
        auto c = osmium::io::CompressionFactory::instance().create_compressor(comp, fd, osmium::io::fsync::no);
        if (piece == 0 || data.empty()) {
            c->write(data);
        } else {
            for (std::size_t p = 0; p < data.size(); p += piece) {
                c->write(data.substr(p, piece));
            }
        }
        c->close();
        return "ok csize=" + std::to_string(c->file_size());
    } catch (const std::exception& e) {
        return "err:" + err_class(e);
    }
}

int main() {
    return vh::line_loop([&](const std::string& line) -> std::string {
        const auto w = vh::words(line);
        if (w.empty()) return "bad-op";
        osmium::io::file_compression comp{};
        if (w.size() < 5 || !comp_of(w[1], comp)) return "bad-op";
        if (w[0] == "wr") {
            if (w.size() < 6) return "bad-op";
            if (std::stoul(w[2]) != osmium::io::Decompressor::input_buffer_size) return "bad-ibs";
            return op_wr(comp, w[3], w[4], std::stoul(w[5]));
        }
        if (w[2] != "fd" && w[2] != "buf") return "bad-op";
        if (std::stoul(w[3]) != osmium::io::Decompressor::input_buffer_size) return "bad-ibs";
        if (w[0] == "rd") return op_rd(comp, w[2], w[4]);
        if (w[0] == "rtm") return op_rtm(comp, w[2], w[4]);
        if (w[0] == "reader") return op_reader(w[1], w[2], w[4]);
        return "bad-op";
    });
}
