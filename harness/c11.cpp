// C11 harness: the REAL relation managers (RelationsManager<.., N, W, R> for every
// combination of member types, and area::MultipolygonManager with a trivial assembler) are
// fed one history per input line; every observation the property talks about is printed.
//
//   H <variant> <relmask> <memmask> <cb> <maxbuf> <wr> <fixed> | R <id> <content> <k><ref> ... | ...
//       | O <k> <id> <content> | Q <k> <id> <hint> | F | ... | E
//
// (see lean/Driver/C11.lean for the meaning of the fields; <maxbuf>/<fixed> are used by the
// model only; <hint> of a Q op: `d` = dereference a non-null result and compare it with the
// input object, `x` = only report null / non-null (`W`), the check passes `x` where the oracle
// says the object has been released).
//
// Output: same line format as the model driver.
#include "common.hpp"

#include <osmium/area/multipolygon_manager.hpp>
#include <osmium/builder/osm_object_builder.hpp>
#include <osmium/memory/buffer.hpp>
#include <osmium/osm.hpp>
#include <osmium/relations/relations_manager.hpp>
#include <osmium/visitor.hpp>

#include <cstdlib>
#include <cstring>
#include <map>
#include <string>
#include <utility>
#include <vector>

namespace {

struct MemberSpec {
    char kind;
    long long ref;
};

struct RelSpec {
    long long id;
    unsigned long long content;
    std::vector<MemberSpec> members;
};

struct OpSpec {
    char op; // 'O' or 'Q'
    char kind;
    long long id;
    unsigned long long content;
    char hint;
};

struct Ctx {
    unsigned rm = 15;
    unsigned mm = 255;
    std::size_t wr = 0;
    std::vector<std::string> events;
    // raw bytes of every second-pass input object, by (kind, id)
    std::map<std::pair<char, long long>, std::string> input_bytes;
    std::size_t flushes = 0;
    std::size_t flushed_bytes = 0;
};

char kind_char(osmium::item_type t) {
    switch (t) {
        case osmium::item_type::node: return 'n';
        case osmium::item_type::way: return 'w';
        case osmium::item_type::relation: return 'r';
        default: return '?';
    }
}

osmium::item_type kind_type(char k) {
    return k == 'n' ? osmium::item_type::node : k == 'w' ? osmium::item_type::way : osmium::item_type::relation;
}

unsigned long long content_of(const osmium::OSMObject& o) {
    const char* v = o.tags().get_value_by_key("c");
    return v ? std::strtoull(v, nullptr, 10) : 0ULL;
}

// "<id>:<content>:1" if the object returned for (kind, id) is bytewise identical to the input
// object with that id (only then is it parsed); "?:?:0" otherwise — memory that is not known to
// be a valid object is never interpreted (a dangling pointer may point at anything).
std::string describe(Ctx& ctx, char kind, long long id, const osmium::OSMObject* obj) {
    if (!obj) {
        return "-";
    }
    const auto it = ctx.input_bytes.find({kind, id});
    if (it == ctx.input_bytes.end() ||
        std::memcmp(it->second.data(), reinterpret_cast<const char*>(obj), it->second.size()) != 0) {
        return "?:?:0";
    }
    return std::to_string(obj->id()) + ":" + std::to_string(content_of(*obj)) + ":1";
}

void write_output(osmium::memory::Buffer& buffer, std::size_t wr) {
    if (wr > 0) {
        std::memset(buffer.reserve_space(wr), 0, wr);
        buffer.commit();
    }
}

template <bool N, bool W, bool R>
class TestManager : public osmium::relations::RelationsManager<TestManager<N, W, R>, N, W, R> {

public:

    Ctx* ctx = nullptr;

    bool new_relation(const osmium::Relation& relation) const {
        return (ctx->rm >> (content_of(relation) % 4)) & 1U;
    }

    bool new_member(const osmium::Relation& /*relation*/, const osmium::RelationMember& member, std::size_t n) const {
        const unsigned long long a = static_cast<unsigned long long>(std::llabs(member.ref()));
        return (ctx->mm >> ((a + n) % 8)) & 1U;
    }

    void complete_relation(const osmium::Relation& relation) {
        std::string ev = "C " + std::to_string(relation.id()) + " ";
        bool first = true;
        for (const auto& member : relation.members()) {
            if (member.ref() == 0) {
                continue;
            }
            const char k = kind_char(member.type());
            const osmium::OSMObject* obj = this->get_member_object(member);
            // the typed accessors must agree with get_member_object
            const osmium::OSMObject* obj2 =
                k == 'n' ? static_cast<const osmium::OSMObject*>(this->get_member_node(member.ref())) :
                k == 'w' ? static_cast<const osmium::OSMObject*>(this->get_member_way(member.ref())) :
                           static_cast<const osmium::OSMObject*>(this->get_member_relation(member.ref()));
            if (!first) {
                ev += ",";
            }
            first = false;
            ev += k;
            ev += std::to_string(member.ref());
            ev += "=";
            ev += obj == obj2 ? describe(*ctx, k, member.ref(), obj) : std::string{"accessor-mismatch"};
        }
        ctx->events.push_back(ev);
        write_output(this->buffer(), ctx->wr);
    }

    void node_not_in_any_relation(const osmium::Node& node) {
        ctx->events.push_back("N n" + std::to_string(node.id()));
    }

    void way_not_in_any_relation(const osmium::Way& way) {
        ctx->events.push_back("N w" + std::to_string(way.id()));
    }

    void relation_not_in_any_relation(const osmium::Relation& relation) {
        ctx->events.push_back("N r" + std::to_string(relation.id()));
    }

}; // class TestManager

// Assembler for the MultipolygonManager: reports what the manager's own
// complete_relation() collected with get_member_way().
class TrivialAssembler {

    osmium::area::area_stats m_stats;

public:

    struct config_type {
        Ctx* ctx;
    };

    explicit TrivialAssembler(const config_type& config) : m_config(config) {
    }

    bool operator()(const osmium::Relation& relation, const std::vector<const osmium::Way*>& ways, osmium::memory::Buffer& out) {
        std::string ev = "C " + std::to_string(relation.id()) + " ";
        std::size_t i = 0;
        for (const auto& member : relation.members()) {
            if (member.ref() == 0) {
                continue;
            }
            if (i > 0) {
                ev += ",";
            }
            ev += kind_char(member.type());
            ev += std::to_string(member.ref());
            ev += "=";
            ev += i < ways.size() ? describe(*m_config.ctx, 'w', member.ref(), ways[i]) : std::string{"missing-way"};
            ++i;
        }
        if (i != ways.size()) {
            ev += ",extra-ways";
        }
        m_config.ctx->events.push_back(ev);
        write_output(out, m_config.ctx->wr);
        return true;
    }

    bool operator()(const osmium::Way& /*way*/, osmium::memory::Buffer& /*out*/) {
        return true;
    }

    const osmium::area::area_stats& stats() const noexcept {
        return m_stats;
    }

private:

    config_type m_config;

}; // class TrivialAssembler

using MPManager = osmium::area::MultipolygonManager<TrivialAssembler>;

void add_tags_rel(osmium::builder::Builder& parent, unsigned long long content) {
    osmium::builder::TagListBuilder tl{parent};
    switch (content % 4) {
        case 0: tl.add_tag("type", "multipolygon"); break;
        case 1: tl.add_tag("type", "boundary"); break;
        case 2: tl.add_tag("type", "route"); break;
        default: break;
    }
    tl.add_tag("c", std::to_string(content));
}

void build_relation(osmium::memory::Buffer& buffer, long long id, unsigned long long content, const std::vector<MemberSpec>& members) {
    {
        osmium::builder::RelationBuilder b{buffer};
        b.set_id(id).set_version(1 + content % 3).set_uid(static_cast<osmium::user_id_type>(content % 1000)).set_user("u");
        add_tags_rel(b, content);
        {
            osmium::builder::RelationMemberListBuilder ml{b};
            for (const auto& m : members) {
                ml.add_member(kind_type(m.kind), m.ref, (m.ref % 2) ? "outer" : "");
            }
        }
    }
    buffer.commit();
}

void build_object(osmium::memory::Buffer& buffer, char kind, long long id, unsigned long long content) {
    if (kind == 'n') {
        {
            osmium::builder::NodeBuilder b{buffer};
            b.set_id(id).set_version(1 + content % 5).set_uid(static_cast<osmium::user_id_type>(content % 77)).set_user("nu");
            b.set_location(osmium::Location{static_cast<int32_t>(content % 1000000), static_cast<int32_t>(content % 777777)});
            osmium::builder::TagListBuilder tl{b};
            tl.add_tag("c", std::to_string(content));
        }
    } else if (kind == 'w') {
        {
            osmium::builder::WayBuilder b{buffer};
            b.set_id(id).set_version(1 + content % 5).set_user("wu");
            {
                osmium::builder::TagListBuilder tl{b};
                tl.add_tag("c", std::to_string(content));
                if (content % 3 == 0) {
                    tl.add_tag("highway", "x");
                }
            }
            {
                osmium::builder::WayNodeListBuilder nl{b};
                for (unsigned i = 0; i < 1 + content % 3; ++i) {
                    nl.add_node_ref(static_cast<osmium::object_id_type>(content + i));
                }
            }
        }
    } else {
        std::vector<MemberSpec> ms;
        for (unsigned i = 0; i < content % 3; ++i) {
            ms.push_back(MemberSpec{"nwr"[(content + i) % 3], static_cast<long long>(content + i + 1)});
        }
        build_relation(buffer, id, content, ms);
        return;
    }
    buffer.commit();
}

std::string counts_str(const osmium::relations::MembersDatabaseCommon& db) {
    const auto c = db.count();
    return std::to_string(c.tracked) + "/" + std::to_string(c.available) + "/" + std::to_string(c.removed);
}

template <typename TManager>
const osmium::OSMObject* lookup(TManager& manager, char kind, long long id) {
    switch (kind) {
        case 'n': return manager.get_member_node(id);
        case 'w': return manager.get_member_way(id);
        default: return manager.get_member_relation(id);
    }
}

template <typename TManager>
std::string run_history(TManager& manager, Ctx& ctx, bool report_not_in, bool use_callback,
                        const std::vector<RelSpec>& rels, const std::vector<OpSpec>& ops) {
    // ---- first pass
    {
        osmium::memory::Buffer buffer{4096, osmium::memory::Buffer::auto_grow::yes};
        for (const auto& r : rels) {
            build_relation(buffer, r.id, r.content, r.members);
        }
        osmium::apply(buffer, manager);
    }
    manager.prepare_for_lookup();

    // ---- second pass
    const std::function<void(osmium::memory::Buffer&&)> callback = [&ctx](osmium::memory::Buffer&& buffer) {
        ++ctx.flushes;
        ctx.flushed_bytes += buffer.committed();
    };
    auto& handler = use_callback ? manager.handler(callback) : manager.handler();
    bool thrown = false;
    for (const auto& op : ops) {
        if (thrown) {
            break;
        }
        if (op.op == 'O') {
            osmium::memory::Buffer buffer{1024, osmium::memory::Buffer::auto_grow::yes};
            build_object(buffer, op.kind, op.id, op.content);
            const auto& item = *buffer.begin();
            ctx.input_bytes[{op.kind, op.id}] = std::string{reinterpret_cast<const char*>(item.data()), item.byte_size()};
            try {
                osmium::apply_item(item, handler);   // no flush() here: that is the F op
            } catch (const osmium::out_of_order_error&) {
                ctx.events.emplace_back("T");
                thrown = true;
            }
        } else if (op.op == 'F') {
            handler.flush();
        } else {
            const osmium::OSMObject* obj = lookup(manager, op.kind, op.id);
            std::string ev = std::string{"Q "} + op.kind + std::to_string(op.id) + "=";
            if (!obj) {
                ev += "-";
            } else if (op.hint == 'x') {
                ev += "W";
            } else {
                ev += describe(ctx, op.kind, op.id, obj);
            }
            ctx.events.push_back(ev);
        }
    }
    handler.flush();

    std::string out;
    for (const auto& e : ctx.events) {
        if (!report_not_in && e[0] == 'N') {
            continue;
        }
        out += e;
        out += " ; ";
    }
    out += "I ";
    bool first = true;
    manager.for_each_incomplete_relation([&](const osmium::relations::RelationHandle& handle) {
        if (!first) {
            out += ",";
        }
        first = false;
        out += std::to_string(handle->id());
    });
    if (first) {
        out += "-";
    }
    out += " ; S " + std::to_string(manager.relations_database().count_relations()) + "/" +
           std::to_string(manager.relations_database().size()) +
           " n=" + counts_str(manager.member_nodes_database()) +
           " w=" + counts_str(manager.member_ways_database()) +
           " r=" + counts_str(manager.member_relations_database());
    out += " ; F " + std::to_string(ctx.flushes) + " " + std::to_string(ctx.flushed_bytes) + " " +
           std::to_string(manager.buffer().committed());
    out += " ; U0";
    const auto mu = manager.used_memory();
    std::fprintf(stderr, "MEM relations_db=%zu members_db=%zu stash=%zu\n", mu.relations_db, mu.members_db, mu.stash);
    return out;
}

template <bool N, bool W, bool R>
std::string run_test_manager(Ctx& ctx, bool cb, const std::vector<RelSpec>& rels, const std::vector<OpSpec>& ops) {
    TestManager<N, W, R> manager;
    manager.ctx = &ctx;
    return run_history(manager, ctx, true, cb, rels, ops);
}

std::string run_line(const std::string& line) {
    const auto ws = vh::words(line);
    std::vector<std::vector<std::string>> secs(1);
    for (const auto& w : ws) {
        if (w == "|") {
            secs.emplace_back();
        } else {
            secs.back().push_back(w);
        }
    }
    if (secs[0].size() != 8 || secs[0][0] != "H") {
        return "bad-op";
    }
    Ctx ctx;
    const std::string variant = secs[0][1];
    ctx.rm = static_cast<unsigned>(std::stoul(secs[0][2]));
    ctx.mm = static_cast<unsigned>(std::stoul(secs[0][3]));
    const bool cb = secs[0][4] == "1";
    ctx.wr = std::stoull(secs[0][6]);
    std::vector<RelSpec> rels;
    std::vector<OpSpec> ops;
    for (std::size_t i = 1; i < secs.size(); ++i) {
        const auto& s = secs[i];
        if (s.empty() || s[0] == "E") {
            continue;
        }
        if (s[0] == "R" && s.size() >= 3) {
            RelSpec r{std::stoll(s[1]), std::stoull(s[2]), {}};
            for (std::size_t j = 3; j < s.size(); ++j) {
                r.members.push_back(MemberSpec{s[j][0], std::stoll(s[j].substr(1))});
            }
            rels.push_back(std::move(r));
        } else if (s[0] == "O" && s.size() == 4) {
            ops.push_back(OpSpec{'O', s[1][0], std::stoll(s[2]), std::stoull(s[3]), 'd'});
        } else if (s[0] == "Q" && s.size() >= 3) {
            ops.push_back(OpSpec{'Q', s[1][0], std::stoll(s[2]), 0, s.size() > 3 ? s[3][0] : 'd'});
        } else if (s[0] == "F") {
            ops.push_back(OpSpec{'F', 'n', 0, 0, 'd'});
        } else {
            return "bad-op";
        }
    }
    if (variant == "mp") {
        MPManager manager{TrivialAssembler::config_type{&ctx}};
        return run_history(manager, ctx, false, cb, rels, ops);
    }
    const bool n = variant.find('n') != std::string::npos;
    const bool w = variant.find('w') != std::string::npos;
    const bool r = variant.find('r') != std::string::npos;
    if (n && w && r) return run_test_manager<true, true, true>(ctx, cb, rels, ops);
    if (n && w && !r) return run_test_manager<true, true, false>(ctx, cb, rels, ops);
    if (n && !w && r) return run_test_manager<true, false, true>(ctx, cb, rels, ops);
    if (!n && w && r) return run_test_manager<false, true, true>(ctx, cb, rels, ops);
    if (n && !w && !r) return run_test_manager<true, false, false>(ctx, cb, rels, ops);
    if (!n && w && !r) return run_test_manager<false, true, false>(ctx, cb, rels, ops);
    if (!n && !w && r) return run_test_manager<false, false, true>(ctx, cb, rels, ops);
    return "bad-op";
}

} // namespace

int main() {
    return vh::line_loop(run_line);
}
