// C11 harness: the REAL relation managers (RelationsManager<.., N, W, R> for every
// combination of member types, and area::MultipolygonManager with a trivial assembler) are
// fed one history per input line; every observation the property talks about is printed.
//
//   H <variant> <relmask> <memmask> <cb> <maxbuf> <wr> <fixed> | R <id> <content> <k><ref> ... | ...
//       | O <k> <id> <content> | Q <k> <id> <hint> | F | ... | E
//
// (see lean/Driver/C11.lean for the meaning of the fields; <maxbuf>/<fixed> are used by the
// model only; <hint> of a Q op: `d` = dereference a non-null result and compare it with the
// input object, `x` = only report null / non-null (`W`), the check passes `x` where the oracle
// says the object has been released).
//
// or one GENERATED history per line (large structured histories, synthesized from a few parameters
// exactly as lean/Driver/C11.lean `GSpec` and tools/props/c11.py `GSpec` do; output = digests):
//
//   G <variant> <relmask> <memmask> <cb> <maxbuf> <wr> <fixed> | <shape> <n> <k> <ro> <sg> <st> <kd> <miss> <dup> <extra> <ni> <q> <seed> [<ak> <am>] | E
//
// (<ak> <am>: the ID ALPHABET of the members: magnitude of member j = 10 + (j mod am)*st + (j div am)*2^ak, i.e. the
// members j, j+am, j+2am, .. have ids that differ by multiples of 2^ak; absent or ak = 0: 10 + j*st)
//
// Output: same line format as the model driver.
#include "common.hpp"

#include <osmium/area/multipolygon_manager.hpp>
#include <osmium/builder/osm_object_builder.hpp>
#include <osmium/memory/buffer.hpp>
#include <osmium/osm.hpp>
#include <osmium/relations/relations_manager.hpp>
#include <osmium/visitor.hpp>

#include <cstdint>
#include <cstdlib>
#include <cstring>
#include <functional>
#include <map>
#include <string>
#include <utility>
#include <vector>

namespace {

struct MemberSpec {
    char kind;
    long long ref;
};

struct RelSpec {
    long long id;
    unsigned long long content;
    std::vector<MemberSpec> members;
};

struct OpSpec {
    char op; // 'O' or 'Q'
    char kind;
    long long id;
    unsigned long long content;
    char hint;
};

// result of a lookup: 0 nullptr, 1 not the input object (or not inspected), 2 the input object
struct Res {
    int status;
    long long id;
    unsigned long long content;
    const char* note; // text for status 1
};

struct Look {
    char kind;
    long long ref;
    Res res;
};

inline std::uint64_t dg_mix(std::uint64_t x) {
    std::uint64_t z = x + 0x9E3779B97F4A7C15ULL;
    z = (z ^ (z >> 30)) * 0xBF58476D1CE4E5B9ULL;
    z = (z ^ (z >> 27)) * 0x94D049BB133111EBULL;
    return z ^ (z >> 31);
}

inline std::uint64_t dg_hm(std::uint64_t seed, std::uint64_t a, std::uint64_t b) {
    return dg_mix(dg_mix(seed + a) + b);
}

inline std::uint64_t dg_step(std::uint64_t h, std::uint64_t x) {
    const std::uint64_t z = (h ^ x) * 0x9E3779B97F4A7C15ULL;
    return z ^ (z >> 32);
}

inline std::uint64_t dg_kc(char k) {
    return k == 'n' ? 1 : k == 'w' ? 2 : 3;
}

struct Ctx {
    unsigned rm = 15;
    unsigned mm = 255;
    std::size_t wr = 0;
    // text mode: the events as strings; digest mode (G lines): running digest, see lean/Driver/C11.lean `Digest`
    bool digest = false;
    bool report_not_in = true;
    std::uint64_t dh = 0;
    std::uint64_t da = 0;
    std::size_t dobjs = 0;
    std::size_t devs = 0;
    std::vector<std::uint64_t> dcks;
    std::vector<std::string> events;

    static std::string res_str(const Res& r) {
        if (r.status == 0) {
            return "-";
        }
        if (r.status == 2) {
            return std::to_string(r.id) + ":" + std::to_string(r.content) + ":1";
        }
        return r.note;
    }

    void ev_complete(long long rid, const std::vector<Look>& looks, const char* suffix) {
        if (digest) {
            std::uint64_t e = dg_step(1, static_cast<std::uint64_t>(rid));
            for (const auto& l : looks) {
                const bool good = l.res.status == 2 && l.res.id == l.ref;
                e = dg_step(e, dg_kc(l.kind));
                e = dg_step(e, static_cast<std::uint64_t>(l.ref));
                e = dg_step(e, l.res.status == 0 ? 0 : good ? 2 : 1);
                e = dg_step(e, good ? l.res.content : 0);
            }
            if (suffix[0]) {
                e = dg_step(e, 99);
            }
            da += e;
            ++devs;
            return;
        }
        std::string ev = "C " + std::to_string(rid) + " ";
        bool first = true;
        for (const auto& l : looks) {
            if (!first) {
                ev += ",";
            }
            first = false;
            ev += l.kind;
            ev += std::to_string(l.ref);
            ev += "=";
            ev += res_str(l.res);
        }
        ev += suffix;
        events.push_back(ev);
    }

    void ev_not_in(char k, long long id) {
        if (digest) {
            if (report_not_in) {
                da += dg_step(dg_step(2, dg_kc(k)), static_cast<std::uint64_t>(id));
                ++devs;
            }
            return;
        }
        events.push_back(std::string{"N "} + k + std::to_string(id));
    }

    void ev_query(char k, long long id, const Res& r) {
        if (digest) {
            const bool good = r.status == 2 && r.id == id;
            const std::uint64_t st = r.status == 0 ? 0 : good ? 2 : 1;
            dh = dg_step(dg_step(dg_step(dg_step(dg_step(dh, da), 3), dg_kc(k)), static_cast<std::uint64_t>(id)),
                         st * 4294967296ULL + (good ? r.content : 0));
            da = 0;
            if (k == 'n' && id == 0) {
                ++dobjs;
                if (dobjs % 4096 == 0) {
                    dcks.push_back(dh);
                }
            }
            return;
        }
        events.push_back(std::string{"Q "} + k + std::to_string(id) + "=" + res_str(r));
    }

    void ev_thrown() {
        if (digest) {
            dh = dg_step(dg_step(dh, da), 4);
            da = 0;
            return;
        }
        events.emplace_back("T");
    }

    // raw bytes of every second-pass input object, by (kind, id)
    std::map<std::pair<char, long long>, std::string> input_bytes;
    std::size_t flushes = 0;
    std::size_t flushed_bytes = 0;
};

char kind_char(osmium::item_type t) {
    switch (t) {
        case osmium::item_type::node: return 'n';
        case osmium::item_type::way: return 'w';
        case osmium::item_type::relation: return 'r';
        default: return '?';
    }
}

osmium::item_type kind_type(char k) {
    return k == 'n' ? osmium::item_type::node : k == 'w' ? osmium::item_type::way : osmium::item_type::relation;
}

unsigned long long content_of(const osmium::OSMObject& o) {
    const char* v = o.tags().get_value_by_key("c");
    return v ? std::strtoull(v, nullptr, 10) : 0ULL;
}

// status 2 ("<id>:<content>:1") if the object returned for (kind, id) is bytewise identical to the input
// object with that id (only then is it parsed); status 1 ("?:?:0") otherwise — memory that is not known to
// be a valid object is never interpreted (a dangling pointer may point at anything).
Res describe(Ctx& ctx, char kind, long long id, const osmium::OSMObject* obj) {
    if (!obj) {
        return Res{0, 0, 0, ""};
    }
    const auto it = ctx.input_bytes.find({kind, id});
    if (it == ctx.input_bytes.end() ||
        std::memcmp(it->second.data(), reinterpret_cast<const char*>(obj), it->second.size()) != 0) {
        return Res{1, 0, 0, "?:?:0"};
    }
    return Res{2, obj->id(), content_of(*obj), ""};
}

void write_output(osmium::memory::Buffer& buffer, std::size_t wr) {
    if (wr > 0) {
        std::memset(buffer.reserve_space(wr), 0, wr);
        buffer.commit();
    }
}

template <bool N, bool W, bool R>
class TestManager : public osmium::relations::RelationsManager<TestManager<N, W, R>, N, W, R> {

public:

    Ctx* ctx = nullptr;

    bool new_relation(const osmium::Relation& relation) const {
        return (ctx->rm >> (content_of(relation) % 4)) & 1U;
    }

    bool new_member(const osmium::Relation& /*relation*/, const osmium::RelationMember& member, std::size_t n) const {
        const unsigned long long a = static_cast<unsigned long long>(std::llabs(member.ref()));
        return (ctx->mm >> ((a + n) % 8)) & 1U;
    }

    void complete_relation(const osmium::Relation& relation) {
        std::vector<Look> looks;
        for (const auto& member : relation.members()) {
            if (member.ref() == 0) {
                continue;
            }
            const char k = kind_char(member.type());
            const osmium::OSMObject* obj = this->get_member_object(member);
            // the typed accessors must agree with get_member_object
            const osmium::OSMObject* obj2 =
                k == 'n' ? static_cast<const osmium::OSMObject*>(this->get_member_node(member.ref())) :
                k == 'w' ? static_cast<const osmium::OSMObject*>(this->get_member_way(member.ref())) :
                           static_cast<const osmium::OSMObject*>(this->get_member_relation(member.ref()));
            looks.push_back(Look{k, member.ref(), obj == obj2 ? describe(*ctx, k, member.ref(), obj) : Res{1, 0, 0, "accessor-mismatch"}});
        }
        ctx->ev_complete(relation.id(), looks, "");
        write_output(this->buffer(), ctx->wr);
    }

    void node_not_in_any_relation(const osmium::Node& node) {
        ctx->ev_not_in('n', node.id());
    }

    void way_not_in_any_relation(const osmium::Way& way) {
        ctx->ev_not_in('w', way.id());
    }

    void relation_not_in_any_relation(const osmium::Relation& relation) {
        ctx->ev_not_in('r', relation.id());
    }

}; // class TestManager

// Assembler for the MultipolygonManager: reports what the manager's own
// complete_relation() collected with get_member_way().
class TrivialAssembler {

    osmium::area::area_stats m_stats;

public:

    struct config_type {
        Ctx* ctx;
    };

    explicit TrivialAssembler(const config_type& config) : m_config(config) {
    }

    bool operator()(const osmium::Relation& relation, const std::vector<const osmium::Way*>& ways, osmium::memory::Buffer& out) {
        std::vector<Look> looks;
        std::size_t i = 0;
        for (const auto& member : relation.members()) {
            if (member.ref() == 0) {
                continue;
            }
            looks.push_back(Look{kind_char(member.type()), member.ref(),
                                 i < ways.size() ? describe(*m_config.ctx, 'w', member.ref(), ways[i]) : Res{1, 0, 0, "missing-way"}});
            ++i;
        }
        m_config.ctx->ev_complete(relation.id(), looks, i != ways.size() ? ",extra-ways" : "");
        write_output(out, m_config.ctx->wr);
        return true;
    }

    bool operator()(const osmium::Way& /*way*/, osmium::memory::Buffer& /*out*/) {
        return true;
    }

    const osmium::area::area_stats& stats() const noexcept {
        return m_stats;
    }

private:

    config_type m_config;

}; // class TrivialAssembler

using MPManager = osmium::area::MultipolygonManager<TrivialAssembler>;

void add_tags_rel(osmium::builder::Builder& parent, unsigned long long content) {
    osmium::builder::TagListBuilder tl{parent};
    switch (content % 4) {
        case 0: tl.add_tag("type", "multipolygon"); break;
        case 1: tl.add_tag("type", "boundary"); break;
        case 2: tl.add_tag("type", "route"); break;
        default: break;
    }
    tl.add_tag("c", std::to_string(content));
}

void build_relation(osmium::memory::Buffer& buffer, long long id, unsigned long long content, const std::vector<MemberSpec>& members) {
    {
        osmium::builder::RelationBuilder b{buffer};
        b.set_id(id).set_version(1 + content % 3).set_uid(static_cast<osmium::user_id_type>(content % 1000)).set_user("u");
        add_tags_rel(b, content);
        {
            osmium::builder::RelationMemberListBuilder ml{b};
            for (const auto& m : members) {
                ml.add_member(kind_type(m.kind), m.ref, (m.ref % 2) ? "outer" : "");
            }
        }
    }
    buffer.commit();
}

void build_object(osmium::memory::Buffer& buffer, char kind, long long id, unsigned long long content) {
    if (kind == 'n') {
        {
            osmium::builder::NodeBuilder b{buffer};
            b.set_id(id).set_version(1 + content % 5).set_uid(static_cast<osmium::user_id_type>(content % 77)).set_user("nu");
            b.set_location(osmium::Location{static_cast<int32_t>(content % 1000000), static_cast<int32_t>(content % 777777)});
            osmium::builder::TagListBuilder tl{b};
            tl.add_tag("c", std::to_string(content));
        }
    } else if (kind == 'w') {
        {
            osmium::builder::WayBuilder b{buffer};
            b.set_id(id).set_version(1 + content % 5).set_user("wu");
            {
                osmium::builder::TagListBuilder tl{b};
                tl.add_tag("c", std::to_string(content));
                if (content % 3 == 0) {
                    tl.add_tag("highway", "x");
                }
            }
            {
                osmium::builder::WayNodeListBuilder nl{b};
                for (unsigned i = 0; i < 1 + content % 3; ++i) {
                    nl.add_node_ref(static_cast<osmium::object_id_type>(content + i));
                }
            }
        }
    } else {
        std::vector<MemberSpec> ms;
        for (unsigned i = 0; i < content % 3; ++i) {
            ms.push_back(MemberSpec{"nwr"[(content + i) % 3], static_cast<long long>(content + i + 1)});
        }
        build_relation(buffer, id, content, ms);
        return;
    }
    buffer.commit();
}

std::string counts_str(const osmium::relations::MembersDatabaseCommon& db) {
    const auto c = db.count();
    return std::to_string(c.tracked) + "/" + std::to_string(c.available) + "/" + std::to_string(c.removed);
}

template <typename TManager>
const osmium::OSMObject* lookup(TManager& manager, char kind, long long id) {
    switch (kind) {
        case 'n': return manager.get_member_node(id);
        case 'w': return manager.get_member_way(id);
        default: return manager.get_member_relation(id);
    }
}

template <typename TManager>
std::string run_history(TManager& manager, Ctx& ctx, bool report_not_in, bool use_callback,
                        const std::vector<RelSpec>& rels, const std::vector<OpSpec>& ops, std::uint64_t hist_digest = 0) {
    ctx.report_not_in = report_not_in;
    // ---- first pass
    {
        osmium::memory::Buffer buffer{4096, osmium::memory::Buffer::auto_grow::yes};
        for (const auto& r : rels) {
            build_relation(buffer, r.id, r.content, r.members);
        }
        osmium::apply(buffer, manager);
    }
    manager.prepare_for_lookup();

    // ---- second pass
    const std::function<void(osmium::memory::Buffer&&)> callback = [&ctx](osmium::memory::Buffer&& buffer) {
        ++ctx.flushes;
        ctx.flushed_bytes += buffer.committed();
    };
    auto& handler = use_callback ? manager.handler(callback) : manager.handler();
    bool thrown = false;
    for (const auto& op : ops) {
        if (thrown) {
            break;
        }
        if (op.op == 'O') {
            osmium::memory::Buffer buffer{1024, osmium::memory::Buffer::auto_grow::yes};
            build_object(buffer, op.kind, op.id, op.content);
            const auto& item = *buffer.begin();
            ctx.input_bytes[{op.kind, op.id}] = std::string{reinterpret_cast<const char*>(item.data()), item.byte_size()};
            try {
                osmium::apply_item(item, handler);   // no flush() here: that is the F op
            } catch (const osmium::out_of_order_error&) {
                ctx.ev_thrown();
                thrown = true;
            }
        } else if (op.op == 'F') {
            handler.flush();
        } else {
            const osmium::OSMObject* obj = lookup(manager, op.kind, op.id);
            if (!obj) {
                ctx.ev_query(op.kind, op.id, Res{0, 0, 0, ""});
            } else if (op.hint == 'x') {
                ctx.ev_query(op.kind, op.id, Res{1, 0, 0, "W"});
            } else {
                ctx.ev_query(op.kind, op.id, describe(ctx, op.kind, op.id, obj));
            }
        }
    }
    handler.flush();

    std::string out;
    if (ctx.digest) {
        const std::uint64_t hfin = dg_step(ctx.dh, ctx.da);
        out += "G ops=" + std::to_string(ctx.dobjs) + " ev=" + std::to_string(ctx.devs) + " ck=";
        for (const auto c : ctx.dcks) {
            out += std::to_string(c) + ",";
        }
        out += std::to_string(hfin) + " hist=" + std::to_string(hist_digest) + " ; I ";
        std::size_t cnt = 0;
        std::uint64_t idig = 0;
        manager.for_each_incomplete_relation([&](const osmium::relations::RelationHandle& handle) {
            ++cnt;
            idig = dg_step(idig, static_cast<std::uint64_t>(handle->id()));
        });
        out += std::to_string(cnt) + " " + std::to_string(idig);
    } else {
        for (const auto& e : ctx.events) {
            if (!report_not_in && e[0] == 'N') {
                continue;
            }
            out += e;
            out += " ; ";
        }
        out += "I ";
        bool first = true;
        manager.for_each_incomplete_relation([&](const osmium::relations::RelationHandle& handle) {
            if (!first) {
                out += ",";
            }
            first = false;
            out += std::to_string(handle->id());
        });
        if (first) {
            out += "-";
        }
    }
    out += " ; S " + std::to_string(manager.relations_database().count_relations()) + "/" +
           std::to_string(manager.relations_database().size()) +
           " n=" + counts_str(manager.member_nodes_database()) +
           " w=" + counts_str(manager.member_ways_database()) +
           " r=" + counts_str(manager.member_relations_database());
    out += " ; F " + std::to_string(ctx.flushes) + " " + std::to_string(ctx.flushed_bytes) + " " +
           std::to_string(manager.buffer().committed());
    out += " ; U0";
    const auto mu = manager.used_memory();
    std::fprintf(stderr, "MEM relations_db=%zu members_db=%zu stash=%zu\n", mu.relations_db, mu.members_db, mu.stash);
    return out;
}

template <bool N, bool W, bool R>
std::string run_test_manager(Ctx& ctx, bool cb, const std::vector<RelSpec>& rels, const std::vector<OpSpec>& ops, std::uint64_t hd) {
    TestManager<N, W, R> manager;
    manager.ctx = &ctx;
    return run_history(manager, ctx, true, cb, rels, ops, hd);
}

// ---- generated histories: the same arithmetic as `GSpec` in lean/Driver/C11.lean ------------------

struct GSpec {
    std::uint64_t shape, n, k, ro, sg, st, kd, miss, dup, extra, ni, q, seed;
    std::uint64_t ak = 0;   // id alphabet: 0 = dense ids, else members j and j + am differ by 2^ak
    std::uint64_t am = 1;

    char kind_of(std::uint64_t j) const {
        switch (kd) {
            case 0: return 'w';
            case 1: return "nwr"[j % 3];
            case 2: return 'n';
            default: return 'r';
        }
    }

    std::uint64_t mag(std::uint64_t j) const {
        return ak == 0 ? 10 + j * st : 10 + (j % am) * st + (j / am) * (1ULL << ak);
    }

    bool neg(std::uint64_t j) const {
        return sg == 1 || (sg == 2 && j % 3 == 0) || (sg == 3 && j < 2);
    }

    long long id_of(std::uint64_t j) const {
        return neg(j) ? -static_cast<long long>(mag(j)) : static_cast<long long>(mag(j));
    }

    std::uint64_t n_rels() const {
        switch (shape) {
            case 0: case 1: return n * k;
            case 3: return 1 + n / k;
            default: return n;
        }
    }

    std::vector<std::uint64_t> member_idx(std::uint64_t i) const {
        std::vector<std::uint64_t> js;
        switch (shape) {
            case 0: js.push_back(i % n); break;
            case 1: js.push_back(i / k); break;
            case 2: for (std::uint64_t t = 0; t < k; ++t) { js.push_back((i + t) % n); } break;
            case 3:
                if (i == 0) {
                    for (std::uint64_t j = 0; j < n; ++j) { js.push_back(j); }
                } else {
                    js.push_back((i - 1) * k);
                }
                break;
            case 4: js.push_back(i); js.push_back(n - 1 - i); break;
            case 5: {
                const std::uint64_t w = 1 + dg_hm(seed, i, 3) % k;
                for (std::uint64_t t = 0; t < w; ++t) { js.push_back(dg_hm(seed, i, 10 + t) % n); }
                break;
            }
            default:
                js.push_back(i);
                if (i % k == 0) { js.push_back(0); }
                break;
        }
        if (dup > 0 && i % dup == 0) {
            js.push_back(js.empty() ? 0 : js[0]);
        }
        return js;
    }

    RelSpec rel(std::uint64_t i) const {
        const std::uint64_t cc = (ni > 0 && i % ni == ni - 1) ? 2 : dg_hm(seed, i, 2) % 2;
        RelSpec r{static_cast<long long>(i) + 1, 4 * (dg_hm(seed, i, 1) % 250) + cc, {}};
        for (const auto j : member_idx(i)) {
            r.members.push_back(MemberSpec{kind_of(j), id_of(j)});
        }
        return r;
    }

    std::uint64_t perm(std::uint64_t p) const {
        const std::uint64_t r = n_rels();
        switch (ro) {
            case 0: return p;
            case 1: return r - 1 - p;
            default: return p % 2 == 0 ? p / 2 : r - 1 - p / 2;
        }
    }

    unsigned long long content(char k, long long id) const {
        const std::uint64_t a = static_cast<std::uint64_t>(id < 0 ? -id : id);
        return dg_hm(seed ^ 0x55, a, dg_kc(k) * 2 + (id < 0 ? 1 : 0)) % 100000;
    }

    std::vector<OpSpec> ops() const {
        std::vector<OpSpec> objs;
        for (const char kd_ : {'n', 'w', 'r'}) {
            for (const bool neg_pass : {true, false}) {
                for (std::uint64_t j = 0; j < n; ++j) {
                    if (kind_of(j) == kd_ && neg(j) == neg_pass) {
                        if (!(miss > 0 && j % miss == miss - 1)) {
                            objs.push_back(OpSpec{'O', kd_, id_of(j), content(kd_, id_of(j)), 'd'});
                        }
                        if (extra > 0 && st >= 2 && j % extra == 0) {
                            const long long id = neg_pass ? -(static_cast<long long>(mag(j)) + 1) : static_cast<long long>(mag(j)) + 1;
                            objs.push_back(OpSpec{'O', kd_, id, content(kd_, id), 'd'});
                        }
                    }
                    if (kd == 0 && kd_ == 'n' && !neg_pass && extra > 0 && j % (extra * 7) == 0) {
                        const long long id = static_cast<long long>(mag(j));
                        objs.push_back(OpSpec{'O', 'n', id, content('n', id), 'd'});
                    }
                }
            }
        }
        std::vector<OpSpec> out;
        std::uint64_t p = 0;
        for (const auto& o : objs) {
            out.push_back(o);
            out.push_back(OpSpec{'Q', 'n', 0, 0, 'd'});
            if (q > 0 && p % q == q - 1) {
                const std::uint64_t j = dg_hm(seed, p, 7) % n;
                out.push_back(OpSpec{'Q', kind_of(j), id_of(j), 0, 'd'});
            }
            if (p % 1000 == 999) {
                out.push_back(OpSpec{'F', 'n', 0, 0, 'd'});
            }
            ++p;
        }
        if (q > 0) {
            for (std::uint64_t j = 0; j < n; ++j) {
                out.push_back(OpSpec{'Q', kind_of(j), id_of(j), 0, 'd'});
            }
        }
        return out;
    }
};

std::uint64_t hist_digest_of(const std::vector<RelSpec>& rels, const std::vector<OpSpec>& ops) {
    std::uint64_t i = 1;
    std::uint64_t s = 0;
    const auto add = [&](std::uint64_t x) { s += i * x; ++i; };
    for (const auto& r : rels) {
        add(static_cast<std::uint64_t>(r.id));
        add(r.content);
        add(r.members.size());
        for (const auto& m : r.members) {
            add(dg_kc(m.kind));
            add(static_cast<std::uint64_t>(m.ref));
        }
    }
    for (const auto& o : ops) {
        if (o.op == 'O') {
            add(5); add(dg_kc(o.kind)); add(static_cast<std::uint64_t>(o.id)); add(o.content);
        } else if (o.op == 'Q') {
            add(6); add(dg_kc(o.kind)); add(static_cast<std::uint64_t>(o.id));
        } else {
            add(7);
        }
    }
    return s;
}

std::string run_line(const std::string& line) {
    const auto ws = vh::words(line);
    std::vector<std::vector<std::string>> secs(1);
    for (const auto& w : ws) {
        if (w == "|") {
            secs.emplace_back();
        } else {
            secs.back().push_back(w);
        }
    }
    if (secs[0].size() != 8 || (secs[0][0] != "H" && secs[0][0] != "G")) {
        return "bad-op";
    }
    const bool gen = secs[0][0] == "G";
    Ctx ctx;
    const std::string variant = secs[0][1];
    ctx.rm = static_cast<unsigned>(std::stoul(secs[0][2]));
    ctx.mm = static_cast<unsigned>(std::stoul(secs[0][3]));
    const bool cb = secs[0][4] == "1";
    ctx.wr = std::stoull(secs[0][6]);
    std::vector<RelSpec> rels;
    std::vector<OpSpec> ops;
    std::uint64_t hd = 0;
    if (gen) {
        if (secs.size() < 2 || (secs[1].size() != 13 && secs[1].size() != 15)) {
            return "bad-op";
        }
        std::uint64_t v[15] = {0, 0, 0, 0, 0, 0, 0, 0, 0, 0, 0, 0, 0, 0, 1};
        for (std::size_t i = 0; i < secs[1].size(); ++i) {
            v[i] = std::stoull(secs[1][i]);
        }
        const GSpec g{v[0], v[1], v[2], v[3], v[4], v[5], v[6], v[7], v[8], v[9], v[10], v[11], v[12], v[13], v[14]};
        // ids must stay inside int64_t: (n-1)/am layers of 2^ak plus the low part
        if (g.n == 0 || g.k == 0 || g.am == 0 || g.ak > 62 ||
            (g.ak > 0 && ((g.n - 1) / g.am >= (1ULL << (63 - g.ak)) || 10 + g.am * g.st + 1 >= (1ULL << g.ak)))) {
            return "bad-op";
        }
        const std::uint64_t nr = g.n_rels();
        rels.reserve(nr);
        for (std::uint64_t p = 0; p < nr; ++p) {
            rels.push_back(g.rel(g.perm(p)));
        }
        ops = g.ops();
        hd = hist_digest_of(rels, ops);
        ctx.digest = true;
    }
    for (std::size_t i = 1; !gen && i < secs.size(); ++i) {
        const auto& s = secs[i];
        if (s.empty() || s[0] == "E") {
            continue;
        }
        if (s[0] == "R" && s.size() >= 3) {
            RelSpec r{std::stoll(s[1]), std::stoull(s[2]), {}};
            for (std::size_t j = 3; j < s.size(); ++j) {
                r.members.push_back(MemberSpec{s[j][0], std::stoll(s[j].substr(1))});
            }
            rels.push_back(std::move(r));
        } else if (s[0] == "O" && s.size() == 4) {
            ops.push_back(OpSpec{'O', s[1][0], std::stoll(s[2]), std::stoull(s[3]), 'd'});
        } else if (s[0] == "Q" && s.size() >= 3) {
            ops.push_back(OpSpec{'Q', s[1][0], std::stoll(s[2]), 0, s.size() > 3 ? s[3][0] : 'd'});
        } else if (s[0] == "F") {
            ops.push_back(OpSpec{'F', 'n', 0, 0, 'd'});
        } else {
            return "bad-op";
        }
    }
    if (variant == "mp") {
        MPManager manager{TrivialAssembler::config_type{&ctx}};
        return run_history(manager, ctx, false, cb, rels, ops, hd);
    }
    const bool n = variant.find('n') != std::string::npos;
    const bool w = variant.find('w') != std::string::npos;
    const bool r = variant.find('r') != std::string::npos;
    if (n && w && r) return run_test_manager<true, true, true>(ctx, cb, rels, ops, hd);
    if (n && w && !r) return run_test_manager<true, true, false>(ctx, cb, rels, ops, hd);
    if (n && !w && r) return run_test_manager<true, false, true>(ctx, cb, rels, ops, hd);
    if (!n && w && r) return run_test_manager<false, true, true>(ctx, cb, rels, ops, hd);
    if (n && !w && !r) return run_test_manager<true, false, false>(ctx, cb, rels, ops, hd);
    if (!n && w && !r) return run_test_manager<false, true, false>(ctx, cb, rels, ops, hd);
    if (!n && !w && r) return run_test_manager<false, false, true>(ctx, cb, rels, ops, hd);
    return "bad-op";
}

} // namespace

int main() {
    return vh::line_loop(run_line);
}
