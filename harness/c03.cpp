// C03 hostile tier (parts pbf + text): the REAL osmium::io::Reader on a memory buffer holding
// arbitrary bytes presented as PBF, XML or OPL (optionally wrapped in gzip / bzip2 by the harness).
//
//   rd <assert 0|1> <fmt pbf|xml|opl|o5m> <comp none|gz|bz2> <types 0..15> <hex>      (rdbig: same, 300 s watchdog)
//       -> "ok <n objects> <header dump> | <object dump> | ..."      (harness/osm_dump.hpp)
//       -> "err:<class of the std::exception>"
//       -> "OOB:<where>"         the GUARDED walk found a traversal that leaves the item / buffer
//       -> "NONSTD"              something not derived from std::exception escaped
//       small-buffer builds (-DC03_GROWTH_TRACE) append " #g:<builder calls during which the buffer grew>"
//   gen <fmt> <n> <seed> [<format options>]   small valid file written by the REAL Writer -> hex
//   lay <script>             build ONE object with the real builders from a script (see build_script)
//                            -> "<hex of the committed bytes> <guarded-walk verdict ok|OOB:..>"
//
// Every delivered buffer is traversed twice:
//   1. GUARDED walk (walk_buffer): re-implements exactly what ItemIterator / CollectionIterator<Tag> /
//      RelationMember::next / ChangesetComment::next / OSMObject::user / subitems_position compute,
//      but checks every derived pointer against the end of the enclosing item BEFORE using it.  This
//      is the property monitor for "traversal never leaves the buffer that holds the object"
//      (ASan cannot see an over-read that stays inside the 64 KiB+ buffer allocation).
//   2. the library's own iterators and accessors (vh::dump_object + explicit iterator loops), only
//      when the guarded walk found nothing; any sanitizer report there is a violation as well.
// The first argument describes the build; it is checked against the harness' own NDEBUG state.
// alarm(10) is the per-input watchdog.  Output is flushed per line, so after an abort the number
// of output lines identifies the input.
//
// Compile with -fno-access-control (reads of m_role_size / m_user_size / m_text_size in the guarded walk).
#include "osm_dump.hpp"

#include <osmium/builder/osm_object_builder.hpp>
#include <osmium/io/any_input.hpp>
#include <osmium/io/any_output.hpp>
#include <osmium/io/reader.hpp>
#include <osmium/io/writer.hpp>
#include <osmium/memory/buffer.hpp>
#include <osmium/osm.hpp>

#include <bzlib.h>
#include <cstring>
#include <cxxabi.h>
#include <fstream>
#include <iterator>
#include <stdexcept>
#include <typeinfo>
#include <unistd.h>
#include <zlib.h>

static std::string class_of(const std::exception& e) {
    int status = 0;
    char* n = abi::__cxa_demangle(typeid(e).name(), nullptr, nullptr, &status);
    std::string s = (status == 0 && n) ? n : typeid(e).name();
    std::free(n);
    const auto p = s.rfind("::");
    if (p != std::string::npos) s = s.substr(p + 2);
    return s;
}

// ---- growth trace (small-buffer builds only: -DC03_GROWTH_TRACE -fno-inline -rdynamic) -------------
// The small-buffer builds (-DOSMIUM_VERIF_PARSER_INITIAL_BUFFER_SIZE=<n> -DOSMIUM_VERIF_PBF_INITIAL_BUFFER_SIZE=<n>)
// exist to make the parser buffers grow WHILE a builder call is running.  To know (and report as coverage)
// at which builder call the growth happened, the global operator new[] is replaced: Buffer::grow() and
// Buffer::grow_internal() are the only callers of `new unsigned char[]` below Buffer::reserve_space().
// The replaced operator walks the stack (backtrace + dladdr; all inline library functions are exported
// by -rdynamic and kept as frames by -fno-inline) and records
//      <builder call>+<return address, relative to the executable>/<generic helper of class Builder|direct>/<grow|grow_internal>
// `rd` appends the sorted distinct sites of the input as " #g:site,site,...".  Memory still comes from
// malloc/free, i.e. from ASan's allocator: a stale pointer into a freed buffer is reported as before.
#ifdef C03_GROWTH_TRACE
#include <dlfcn.h>
#include <execinfo.h>
#include <map>
#include <mutex>
#include <new>
#include <set>

namespace gtrace {

    static std::mutex g_mutex;
    static std::set<std::string>* g_sites = nullptr;        // heap objects: usable during static destruction
    static std::map<void*, std::string>* g_names = nullptr;
    static thread_local bool t_inside = false;

    // "osmium::builder::X::f(args)" -> "X::f"; other names unchanged up to '('
    static std::string short_name(void* pc, std::size_t* offset) {
        Dl_info info{};
        *offset = 0;
        if (!dladdr(pc, &info) || !info.dli_sname) {
            return "?";
        }
        // offset of the return address inside the executable (python resolves it to file:line with addr2line)
        *offset = static_cast<std::size_t>(static_cast<char*>(pc) - static_cast<char*>(info.dli_fbase));
        auto it = g_names->find(info.dli_saddr);
        if (it != g_names->end()) {
            return it->second;
        }
        int status = 0;
        char* d = abi::__cxa_demangle(info.dli_sname, nullptr, nullptr, &status);
        std::string s = (status == 0 && d) ? d : info.dli_sname;
        std::free(d);
        // cut the parameter list: the '(' at template depth 0
        int depth = 0;
        std::size_t cut = s.size();
        for (std::size_t i = 0; i < s.size(); ++i) {
            if (s[i] == '<') ++depth;
            else if (s[i] == '>') --depth;
            else if (s[i] == '(' && depth == 0) { cut = i; break; }
        }
        s.resize(cut);
        // drop a leading return type ("T* f<T>" of function templates)
        depth = 0;
        for (std::size_t i = s.size(); i-- > 0;) {
            if (s[i] == '>') ++depth;
            else if (s[i] == '<') --depth;
            else if (s[i] == ' ' && depth == 0) { s = s.substr(i + 1); break; }
        }
        for (const char* ns : {"osmium::builder::", "osmium::memory::", "osmium::"}) {
            for (std::size_t p; (p = s.find(ns)) != std::string::npos;) s.erase(p, std::strlen(ns));
        }
        for (char& c : s) if (c == ' ' || c == ',') c = '_';
        (*g_names)[info.dli_saddr] = s;
        return s;
    }

    static bool is_builder_frame(void* pc) {
        Dl_info info{};
        return dladdr(pc, &info) && info.dli_sname && std::strstr(info.dli_sname, "6osmium7builder") != nullptr;
    }

    static void note_allocation() {
        if (t_inside) return;
        t_inside = true;
        void* pcs[24];
        const int n = backtrace(pcs, 24);
        std::lock_guard<std::mutex> lock{g_mutex};
        if (!g_sites) { g_sites = new std::set<std::string>; g_names = new std::map<void*, std::string>; }
        // frames: .. operator new[] (k) / Buffer::grow|grow_internal / Buffer::reserve_space / Builder::reserve_space /
        //         [generic helpers of class Builder: Builder(), reserve_space_for<T>, append, append_with_zero] / the builder call
        int k = 0;
        while (k < n && k < 4) {
            Dl_info info{};
            if (dladdr(pcs[k], &info) && info.dli_sname && std::strcmp(info.dli_sname, "_Znam") == 0) break;
            ++k;
        }
        std::size_t off = 0;
        if (k < 4 && k + 3 < n) {
            const std::string how = short_name(pcs[k + 1], &off);
            const std::string rs = short_name(pcs[k + 2], &off);
            if ((how == "Buffer::grow" || how == "Buffer::grow_internal") && rs == "Buffer::reserve_space") {
                int i = k + 3;
                std::string helper;
                std::string name;
                while (i < n && is_builder_frame(pcs[i])) {
                    name = short_name(pcs[i], &off);
                    if (name.rfind("Builder::", 0) != 0) break;
                    if (name != "Builder::reserve_space") helper = name;
                    ++i;
                }
                std::string site;
                if (i < n && is_builder_frame(pcs[i])) {
                    char buf[32];
                    std::snprintf(buf, sizeof(buf), "+%zx", off);
                    site = name + buf + "/" + (helper.empty() ? "direct" : helper.substr(9));
                } else {
                    site = "(no-builder-call)/" + (i < n ? short_name(pcs[i], &off) : std::string{"?"});
                }
                g_sites->insert(site + "/" + how.substr(8));
            }
        }
        t_inside = false;
    }

    static std::string take_sites() {
        std::lock_guard<std::mutex> lock{g_mutex};
        std::string out;
        if (g_sites) {
            for (const auto& s : *g_sites) {
                out += out.empty() ? "" : ",";
                out += s;
            }
            g_sites->clear();
        }
        return out;
    }

} // namespace gtrace

void* operator new[](std::size_t size) {
    void* p = std::malloc(size ? size : 1);
    if (!p) throw std::bad_alloc{};
    gtrace::note_allocation();
    return p;
}
void operator delete[](void* p) noexcept { std::free(p); }
void operator delete[](void* p, std::size_t) noexcept { std::free(p); }
#endif // C03_GROWTH_TRACE

// ---- guarded walk ------------------------------------------------------------------------------
struct Oob {
    std::string where;
};

static void need(bool c, const char* where) {
    if (!c) throw Oob{where};
}

using uc = const unsigned char;

static uint32_t rd32(uc* p) { uint32_t v; std::memcpy(&v, p, 4); return v; }
static uint16_t rd16(uc* p) { uint16_t v; std::memcpy(&v, p, 2); return v; }

static std::size_t padded(std::size_t n) { return (n + 7) & ~static_cast<std::size_t>(7); }

// C string starting at p that must end (NUL) strictly before lim
static uc* cstr_end(uc* p, uc* lim, const char* where) {
    need(p < lim, where);
    const void* z = std::memchr(p, 0, static_cast<std::size_t>(lim - p));
    need(z != nullptr, where);
    return static_cast<uc*>(z);
}

static void walk_item(uc* p, uc* lim, int depth);

// items from p until == lim (ItemIterator / subitems)
static void walk_items(uc* p, uc* lim, int depth) {
    while (p != lim) {
        need(p < lim && lim - p >= 8, "item-header-crosses-end");
        const std::size_t size = rd32(p);
        need(size >= 8, "item-size-below-header");
        need(padded(size) <= static_cast<std::size_t>(lim - p), "item-crosses-end");
        walk_item(p, lim, depth);
        p += padded(size);
    }
}

static void walk_tags(uc* p, uc* end) {
    // CollectionIterator<Tag>: Tag::next() = after_null(after_null(data()))
    while (p != end) {
        need(p < end, "tags-iterator-passed-end");
        uc* k = cstr_end(p, end, "tag-key-unterminated");
        need(k + 1 < end, "tag-value-missing");
        uc* v = cstr_end(k + 1, end, "tag-value-unterminated");
        p = v + 1;
    }
}

static void walk_members(uc* p, uc* end, int depth) {
    while (p != end) {
        need(p < end && end - p >= 16, "member-header-crosses-end");
        const std::size_t role_size = rd16(p + 12);
        const uint16_t flags = rd16(p + 10);
        need(padded(16 + role_size) <= static_cast<std::size_t>(end - p), "member-role-crosses-end");
        uc* ep = p + padded(16 + role_size);
        cstr_end(p + 16, ep, "member-role-unterminated");
        if (flags == 1) {
            need(end - ep >= 8, "full-member-header-crosses-end");
            const std::size_t fsize = rd32(ep);
            need(fsize >= 8 && padded(fsize) <= static_cast<std::size_t>(end - ep), "full-member-crosses-end");
            walk_item(ep, end, depth + 1);
            p = ep + fsize;     // RelationMember::next(): endpos() + byte_size()
        } else {
            p = ep;
        }
    }
}

static void walk_comments(uc* p, uc* end) {
    while (p != end) {
        need(p < end && end - p >= 16, "comment-header-crosses-end");
        const std::size_t text_size = rd32(p + 8);
        const std::size_t user_size = rd16(p + 12);
        need(padded(16 + user_size + text_size) <= static_cast<std::size_t>(end - p), "comment-crosses-end");
        uc* nxt = p + padded(16 + user_size + text_size);
        cstr_end(p + 16, nxt, "comment-user-unterminated");
        cstr_end(p + 16 + user_size, nxt, "comment-text-unterminated");
        p = nxt;
    }
}

static void walk_item(uc* p, uc* /*lim*/, int depth) {
    need(depth < 8, "nesting-too-deep");
    const std::size_t size = rd32(p);
    const unsigned type = rd16(p + 4);
    uc* end = p + size;
    uc* nxt = p + padded(size);
    switch (type) {
        case 0x01: case 0x02: case 0x03: case 0x04: {
            const std::size_t szT = type == 0x01 ? sizeof(osmium::Node) : sizeof(osmium::Way);
            need(size >= szT + 2, "object-smaller-than-fixed-part");
            const std::size_t user_size = rd16(p + szT);
            cstr_end(p + szT + 2, nxt, "user-unterminated");
            need(padded(szT + 2 + user_size) <= padded(size), "subitems-start-after-end");
            need(user_size >= 1 && p[szT + 2 + user_size - 1] == 0, "user-size-not-at-nul");
            walk_items(p + padded(szT + 2 + user_size), nxt, depth + 1);
            break;
        }
        case 0x05: {
            const std::size_t szT = sizeof(osmium::Changeset);
            need(size >= szT + 1, "changeset-smaller-than-fixed-part");
            const std::size_t user_size = rd16(p + 48);
            cstr_end(p + szT, nxt, "user-unterminated");
            need(padded(szT + user_size) <= padded(size), "subitems-start-after-end");
            need(user_size >= 1 && p[szT + user_size - 1] == 0, "user-size-not-at-nul");
            walk_items(p + padded(szT + user_size), nxt, depth + 1);
            break;
        }
        case 0x11:
            walk_tags(p + 8, end);
            break;
        case 0x12: case 0x40: case 0x41:
            need((size - 8) % 16 == 0, "node-ref-list-size");
            break;
        case 0x13: case 0x23:
            walk_members(p + 8, end, depth);
            break;
        case 0x80:
            walk_comments(p + 8, end);
            break;
        default:
            break;
    }
}

static void walk_buffer(const osmium::memory::Buffer& buffer) {
    need(buffer.committed() % 8 == 0, "committed-not-aligned");
    walk_items(buffer.data(), buffer.data() + buffer.committed(), 0);
}

// ---- traversal with the library's own iterators and accessors ------------------------------------
static std::size_t g_sink = 0;

static void touch(const char* s) {
    g_sink += std::strlen(s);
}

static void lib_walk(const osmium::memory::Item& item) {
    using osmium::item_type;
    switch (item.type()) {
        case item_type::node: case item_type::way: case item_type::relation: case item_type::area: {
            const auto& o = static_cast<const osmium::OSMObject&>(item);
            touch(o.user());
            for (auto it = o.cbegin(); it != o.cend(); ++it) {
                lib_walk(*it);
            }
            g_sink += o.tags().size();
            for (const auto& t : o.tags()) {
                touch(t.key());
                touch(t.value());
            }
            if (item.type() == item_type::way) {
                for (const auto& nr : static_cast<const osmium::Way&>(o).nodes()) {
                    g_sink += static_cast<std::size_t>(nr.ref()) + static_cast<std::size_t>(nr.location().x());
                }
            }
            if (item.type() == item_type::relation) {
                for (const auto& m : static_cast<const osmium::Relation&>(o).members()) {
                    touch(m.role());
                    g_sink += static_cast<std::size_t>(m.ref());
                    if (m.full_member()) {
                        lib_walk(m.get_object());
                    }
                }
            }
            break;
        }
        case item_type::changeset: {
            const auto& c = static_cast<const osmium::Changeset&>(item);
            touch(c.user());
            for (auto it = c.cbegin(); it != c.cend(); ++it) {
                lib_walk(*it);
            }
            for (const auto& t : c.tags()) {
                touch(t.key());
                touch(t.value());
            }
            for (const auto& cm : c.discussion()) {
                touch(cm.user());
                touch(cm.text());
                g_sink += cm.uid();
            }
            break;
        }
        case item_type::tag_list:
            for (const auto& t : static_cast<const osmium::TagList&>(item)) {
                touch(t.key());
                touch(t.value());
            }
            break;
        case item_type::way_node_list:
            for (const auto& nr : static_cast<const osmium::WayNodeList&>(item)) {
                g_sink += static_cast<std::size_t>(nr.ref());
            }
            break;
        case item_type::relation_member_list:
        case item_type::relation_member_list_with_full_members:
            for (const auto& m : static_cast<const osmium::RelationMemberList&>(item)) {
                touch(m.role());
            }
            break;
        case item_type::changeset_discussion:
            for (const auto& cm : static_cast<const osmium::ChangesetDiscussion&>(item)) {
                touch(cm.user());
                touch(cm.text());
            }
            break;
        default:
            break;
    }
}

// ---- compression wrappers ------------------------------------------------------------------------
static std::string gz_wrap(const std::string& in) {
    z_stream zs{};
    if (deflateInit2(&zs, 6, Z_DEFLATED, 15 + 16, 8, Z_DEFAULT_STRATEGY) != Z_OK) throw std::runtime_error{"deflateInit2"};
    std::string out(deflateBound(&zs, in.size()) + 64, '\0');
    zs.next_in = reinterpret_cast<Bytef*>(const_cast<char*>(in.data()));
    zs.avail_in = static_cast<uInt>(in.size());
    zs.next_out = reinterpret_cast<Bytef*>(&out[0]);
    zs.avail_out = static_cast<uInt>(out.size());
    if (deflate(&zs, Z_FINISH) != Z_STREAM_END) throw std::runtime_error{"deflate"};
    out.resize(zs.total_out);
    deflateEnd(&zs);
    return out;
}

static std::string bz_wrap(const std::string& in) {
    unsigned int len = static_cast<unsigned int>(in.size() + in.size() / 50 + 1000);
    std::string out(len, '\0');
    if (BZ2_bzBuffToBuffCompress(&out[0], &len, const_cast<char*>(in.data()), static_cast<unsigned int>(in.size()), 9, 0, 0) != BZ_OK) {
        throw std::runtime_error{"bz2"};
    }
    out.resize(len);
    return out;
}

// ---- rd ------------------------------------------------------------------------------------------
static std::string run_rd(const std::string& fmt, const std::string& comp, unsigned types, const std::string& raw) {
    std::string data = raw;
    std::string format = fmt;
    if (comp == "gz") {
        data = gz_wrap(raw);
        format += ".gz";
    } else if (comp == "bz2") {
        data = bz_wrap(raw);
        format += ".bz2";
    }
    std::string objs;
    std::size_t n = 0;
    try {
        const osmium::io::File file{data.data(), data.size(), format};
        osmium::io::Reader reader{file, static_cast<osmium::osm_entity_bits::type>(types)};
        const osmium::io::Header header = reader.header();
        while (osmium::memory::Buffer buffer = reader.read()) {
            try {
                walk_buffer(buffer);
            } catch (const Oob& o) {
                return "OOB:" + o.where;
            }
            for (const auto& item : buffer) {
                lib_walk(item);
            }
            for (const auto& e : buffer.select<osmium::OSMEntity>()) {
                ++n;
                if (objs.size() < 200000) {
                    objs += " | ";
                    objs += vh::dump_object(e);
                }
            }
        }
        reader.close();
        return "ok " + std::to_string(n) + " " + vh::dump_header(header) + objs;
    } catch (const std::exception& e) {
        return "err:" + class_of(e);
    } catch (...) {
        return "NONSTD";
    }
}

// ---- gen -----------------------------------------------------------------------------------------
static std::string slurp(const std::string& path) {
    std::ifstream in{path, std::ios::binary};
    return std::string{std::istreambuf_iterator<char>{in}, std::istreambuf_iterator<char>{}};
}

static std::string rstr(vh::SplitMix64& r, std::size_t maxlen) {
    static const char* pool[] = {"a", "highway", "name", "", "x y", "\xc3\xa4\xc3\xb6", "k=v,%@ ", "<&>\"'", "\xf0\x9f\x98\x80", "role", "yes"};
    if (r.below(3) == 0) {
        std::string s;
        const std::size_t n = r.below(maxlen + 1);
        for (std::size_t i = 0; i < n; ++i) s += static_cast<char>('a' + r.below(26));
        return s;
    }
    return pool[r.below(sizeof(pool) / sizeof(pool[0]))];
}

static void gen_common(osmium::builder::Builder& parent, vh::SplitMix64& r) {
    const std::size_t nt = r.below(4);
    if (nt) {
        osmium::builder::TagListBuilder tl{parent};
        for (std::size_t i = 0; i < nt; ++i) {
            tl.add_tag(rstr(r, 12) + std::to_string(i), rstr(r, 20));
        }
    }
}

template <typename B>
static void gen_meta(B& b, vh::SplitMix64& r, int64_t id) {
    b.object().set_id(id);
    b.object().set_version(static_cast<osmium::object_version_type>(1 + r.below(5)));
    b.object().set_visible(true);
    b.object().set_timestamp(osmium::Timestamp{static_cast<uint32_t>(1000000000 + r.below(500000000))});
    b.object().set_changeset(static_cast<osmium::changeset_id_type>(r.below(100000)));
    b.object().set_uid(static_cast<osmium::user_id_type>(r.below(5000)));
    b.set_user(rstr(r, 10));
}

static std::string run_gen(const std::string& fmt, std::size_t n, uint64_t seed, const std::string& opts) {
    vh::SplitMix64 r{seed};
    osmium::memory::Buffer buf{1024, osmium::memory::Buffer::auto_grow::yes};
    const bool with_cs = fmt == "xml" || fmt == "opl";
    int64_t id = 1 + static_cast<int64_t>(r.below(1000));
    const std::size_t nn = 1 + n / 2;
    for (std::size_t i = 0; i < nn; ++i, id += 1 + static_cast<int64_t>(r.below(3))) {
        osmium::builder::NodeBuilder b{buf};
        gen_meta(b, r, id);
        b.object().set_location(osmium::Location{static_cast<int32_t>(r.below(3600000000ULL)) - 1800000000, static_cast<int32_t>(r.below(1800000000ULL)) - 900000000});
        gen_common(b, r);
    }
    buf.commit();
    for (std::size_t i = 0; i < 1 + n / 4; ++i, ++id) {
        osmium::builder::WayBuilder b{buf};
        gen_meta(b, r, id);
        gen_common(b, r);
        {
            osmium::builder::WayNodeListBuilder wnl{b};
            const std::size_t k = 1 + r.below(5);
            for (std::size_t j = 0; j < k; ++j) wnl.add_node_ref(osmium::NodeRef{static_cast<int64_t>(1 + r.below(2000))});
        }
    }
    buf.commit();
    for (std::size_t i = 0; i < 1 + n / 4; ++i, ++id) {
        osmium::builder::RelationBuilder b{buf};
        gen_meta(b, r, id);
        gen_common(b, r);
        {
            osmium::builder::RelationMemberListBuilder rml{b};
            const std::size_t k = 1 + r.below(4);
            for (std::size_t j = 0; j < k; ++j) {
                rml.add_member(static_cast<osmium::item_type>(1 + r.below(3)), static_cast<int64_t>(1 + r.below(2000)), rstr(r, 8).c_str());
            }
        }
    }
    buf.commit();
    if (with_cs) {
        for (std::size_t i = 0; i < 1 + n / 6; ++i, ++id) {
            osmium::builder::ChangesetBuilder b{buf};
            b.object().set_id(static_cast<osmium::changeset_id_type>(id));
            b.object().set_uid(static_cast<osmium::user_id_type>(r.below(5000)));
            b.object().set_created_at(osmium::Timestamp{static_cast<uint32_t>(1000000000 + r.below(1000))});
            b.object().set_closed_at(osmium::Timestamp{static_cast<uint32_t>(1000001000 + r.below(1000))});
            b.object().set_num_changes(static_cast<osmium::num_changes_type>(r.below(100)));
            b.set_user(rstr(r, 10));
            gen_common(b, r);
            const std::size_t nc = r.below(3);
            if (nc && fmt == "xml") {
                b.object().set_num_comments(static_cast<osmium::num_comments_type>(nc));
                osmium::builder::ChangesetDiscussionBuilder d{b};
                for (std::size_t j = 0; j < nc; ++j) {
                    d.add_comment(osmium::Timestamp{static_cast<uint32_t>(1000002000 + j)}, static_cast<osmium::user_id_type>(r.below(5000)), rstr(r, 8).c_str());
                    d.add_comment_text(rstr(r, 30));
                }
            }
        }
        buf.commit();
    }
    char tmpl[] = "/verif/.build/c03gen.XXXXXX";
    const int fd = mkstemp(tmpl);
    if (fd < 0) return "err:mkstemp";
    ::close(fd);
    const std::string path = tmpl;
    try {
        osmium::io::Header header;
        header.set("generator", "c03");
        if (r.below(2)) {
            header.add_box(osmium::Box{osmium::Location{-10.0, -10.0}, osmium::Location{10.0, 10.0}});
        }
        osmium::io::File file{path, fmt + (opts.empty() ? "" : "," + opts)};
        osmium::io::Writer writer{file, header, osmium::io::overwrite::allow};
        writer(std::move(buf));
        writer.close();
    } catch (const std::exception& e) {
        ::unlink(path.c_str());
        return "err:" + class_of(e);
    }
    const std::string bytes = slurp(path);
    ::unlink(path.c_str());
    return vh::hex(bytes);
}

// ---- lay: builder scripts (ties Props/C03Layout's `build` to the real builders) ------------------
//   script = tokens:
//     N|W|R|A|C            open object of that kind (must be first)
//     u:<hex>              set_user
//     T k:<hex>=<hex> ... t   tag list (T opens, t closes)
//     L n:<ref>:<x>:<y> ... l  way node list
//     M m:<type>:<ref>:<hex role> ... e   member list
//     D c:<date>:<uid>:<hex user> x:<hex text> ... d    discussion; x may be omitted (F13b) — that is the point
//   -> hex of the committed bytes, then the guarded-walk verdict
static std::string unhexs(const std::string& h) {
    std::string o;
    if (!vh::unhex(h, o)) throw std::runtime_error{"bad hex"};
    return o;
}

static std::vector<std::string> splitc(const std::string& s, char c) {
    std::vector<std::string> out;
    std::size_t p = 0;
    while (true) {
        const auto q = s.find(c, p);
        if (q == std::string::npos) {
            out.push_back(s.substr(p));
            return out;
        }
        out.push_back(s.substr(p, q - p));
        p = q + 1;
    }
}

template <typename B>
static void lay_body(B& b, const std::vector<std::string>& w, std::size_t i) {
    while (i < w.size()) {
        const std::string& t = w[i];
        if (t.rfind("u:", 0) == 0) {
            const std::string u = unhexs(t.substr(2));
            b.set_user(u.data(), static_cast<osmium::string_size_type>(u.size()));
            ++i;
        } else if (t == "T") {
            osmium::builder::TagListBuilder tl{b};
            for (++i; i < w.size() && w[i] != "t"; ++i) {
                const auto kv = splitc(w[i].substr(2), '=');
                const std::string k = unhexs(kv.at(0));
                const std::string v = unhexs(kv.at(1));
                tl.add_tag(k.data(), k.size(), v.data(), v.size());
            }
            ++i;
        } else if (t == "L") {
            osmium::builder::WayNodeListBuilder wnl{b};
            for (++i; i < w.size() && w[i] != "l"; ++i) {
                const auto p = splitc(w[i], ':');
                wnl.add_node_ref(osmium::NodeRef{std::stoll(p.at(1)), osmium::Location{static_cast<int32_t>(std::stoll(p.at(2))), static_cast<int32_t>(std::stoll(p.at(3)))}});
            }
            ++i;
        } else if (t == "M") {
            osmium::builder::RelationMemberListBuilder rml{b};
            for (++i; i < w.size() && w[i] != "e"; ++i) {
                const auto p = splitc(w[i], ':');
                const std::string role = unhexs(p.at(3));
                rml.add_member(static_cast<osmium::item_type>(std::stoi(p.at(1))), std::stoll(p.at(2)), role.data(), role.size());
            }
            ++i;
        } else if (t == "D") {
            osmium::builder::ChangesetDiscussionBuilder d{b};
            for (++i; i < w.size() && w[i] != "d"; ++i) {
                const auto p = splitc(w[i], ':');
                if (p.at(0) == "c") {
                    const std::string user = unhexs(p.at(3));
                    d.add_comment(osmium::Timestamp{static_cast<uint32_t>(std::stoul(p.at(1)))}, static_cast<osmium::user_id_type>(std::stoul(p.at(2))), user.c_str());
                } else if (p.at(0) == "x") {
                    d.add_comment_text(unhexs(p.at(1)));
                } else {
                    throw std::runtime_error{"bad discussion token"};
                }
            }
            ++i;
        } else {
            throw std::runtime_error{"bad token"};
        }
    }
}

static std::string run_lay(const std::vector<std::string>& w) {
    osmium::memory::Buffer buf{1024, osmium::memory::Buffer::auto_grow::yes};
    if (w.size() < 2) return "bad-op";
    try {
        if (w[1] == "N") { osmium::builder::NodeBuilder b{buf}; lay_body(b, w, 2); }
        else if (w[1] == "W") { osmium::builder::WayBuilder b{buf}; lay_body(b, w, 2); }
        else if (w[1] == "R") { osmium::builder::RelationBuilder b{buf}; lay_body(b, w, 2); }
        else if (w[1] == "A") { osmium::builder::AreaBuilder b{buf}; lay_body(b, w, 2); }
        else if (w[1] == "C") { osmium::builder::ChangesetBuilder b{buf}; lay_body(b, w, 2); }
        else return "bad-op";
        buf.commit();
    } catch (const std::length_error&) {
        return "err:length_error";
    } catch (const std::exception& e) {
        return std::string{"bad-op:"} + e.what();
    }
    std::string verdict = "ok";
    try {
        walk_buffer(buf);
    } catch (const Oob& o) {
        verdict = "OOB:" + o.where;
    }
    return vh::hex(std::string{reinterpret_cast<const char*>(buf.data()), buf.committed()}) + " " + verdict;
}

int main() {
    std::ios::sync_with_stdio(false);
#ifdef NDEBUG
    const bool assertions = false;
#else
    const bool assertions = true;
#endif
    std::string line;
    while (std::getline(std::cin, line)) {
        const auto w = vh::words(line);
        std::string out;
        // `rdbig` = `rd` for the few inputs that legitimately need more than the 10 s watchdog
        // (an object of more than 4 GiB built from a 4 KiB file: pages of an 8 GiB buffer)
        const bool big = !w.empty() && w[0] == "rdbig";
        alarm(big ? 300 : 10);
        try {
            if (w.size() == 6 && (w[0] == "rd" || big)) {
                std::string data;
                if (!vh::unhex(w[5], data)) {
                    out = "bad-op";
                } else if ((w[1] == "1") != assertions) {
                    out = "wrong-build";
                } else {
                    out = run_rd(w[2], w[3], static_cast<unsigned>(std::stoul(w[4])), data);
#ifdef C03_GROWTH_TRACE
                    out += " #g:" + gtrace::take_sites();
#endif
                }
            } else if ((w.size() == 4 || w.size() == 5) && w[0] == "gen") {
                out = run_gen(w[1], std::stoul(w[2]), std::stoull(w[3]), w.size() == 5 ? w[4] : "");
            } else if (!w.empty() && w[0] == "lay") {
                out = run_lay(w);
            } else {
                out = "bad-op";
            }
        } catch (const std::exception& e) {
            out = std::string{"bad-op:"} + e.what();
        }
        alarm(0);
        out += '\n';
        std::fwrite(out.data(), 1, out.size(), stdout);
        std::fflush(stdout);
    }
    return g_sink == 0x7fffffffffffffffULL ? 1 : 0;
}
