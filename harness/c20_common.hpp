// Shared by harness/c20.cpp, c20_diff.cpp and c20_dump.cpp: building buffers that contain
// items of EVERY item_type, the position registry (item address -> index in the op's item
// sequence), the event log and the logging handlers of every kind.
#pragma once
#include "common.hpp"

#include <osmium/builder/osm_object_builder.hpp>
#include <osmium/dynamic_handler.hpp>
#include <osmium/handler.hpp>
#include <osmium/handler/chain.hpp>
#include <osmium/io/input_iterator.hpp>
#include <osmium/memory/buffer.hpp>
#include <osmium/memory/item.hpp>
#include <osmium/osm.hpp>
#include <osmium/visitor.hpp>

#include <map>
#include <memory>
#include <string>
#include <type_traits>
#include <vector>

namespace c20 {

using osmium::item_type;
using osmium::memory::Buffer;
using osmium::memory::Item;

// one character per item type (the library's own item_type_to_char letters)
static const char ALL_TYPES[] = "XnwracTNMFOID";

inline bool type_of_char(char c, item_type& t) {
    switch (c) {
        case 'X': t = item_type::undefined; return true;
        case 'n': t = item_type::node; return true;
        case 'w': t = item_type::way; return true;
        case 'r': t = item_type::relation; return true;
        case 'a': t = item_type::area; return true;
        case 'c': t = item_type::changeset; return true;
        case 'T': t = item_type::tag_list; return true;
        case 'N': t = item_type::way_node_list; return true;
        case 'M': t = item_type::relation_member_list; return true;
        case 'F': t = item_type::relation_member_list_with_full_members; return true;
        case 'O': t = item_type::outer_ring; return true;
        case 'I': t = item_type::inner_ring; return true;
        case 'D': t = item_type::changeset_discussion; return true;
        default: return false;
    }
}

// A bare 8-byte item header of any type (an empty sub-item list / an undefined item).
struct RawItem : public Item {
    explicit RawItem(item_type t) : Item(sizeof(Item), t) {}
};

// Append one item.  Entities are made with the real builders.
inline void add_item(Buffer& buf, char t, int64_t id, uint32_t version, bool removed) {
    switch (t) {
        case 'n': { osmium::builder::NodeBuilder b{buf}; b.set_id(id).set_version(version); break; }
        case 'w': { osmium::builder::WayBuilder b{buf}; b.set_id(id).set_version(version); break; }
        case 'r': { osmium::builder::RelationBuilder b{buf}; b.set_id(id).set_version(version); break; }
        case 'a': { osmium::builder::AreaBuilder b{buf}; b.set_id(id).set_version(version); break; }
        case 'c': { osmium::builder::ChangesetBuilder b{buf}; b.set_id(static_cast<osmium::changeset_id_type>(id)); break; }
        default: {
            item_type ty{};
            type_of_char(t, ty);
            buf.add_item(RawItem{ty});
            break;
        }
    }
    const std::size_t off = buf.commit();
    if (removed) {
        buf.get<Item>(off).set_removed(true);
    }
}

// ---- position registry + event log (one op at a time, single-threaded) -------------------
struct Env {
    std::map<const void*, int> pos;
    std::string log;
    int next_pos = 0;
    bool by_id = false;   // real Reader: buffers are made by the library, position = id - 1

    void reset() { pos.clear(); log.clear(); next_pos = 0; }

    void register_buffer(const Buffer& buf) {
        for (auto it = buf.cbegin<Item>(); it != buf.cend<Item>(); it.advance_once()) {
            pos[static_cast<const void*>(&*it)] = next_pos++;
        }
    }
    int position(const void* p) const {
        if (by_id) {
            const Item* item = static_cast<const Item*>(p);
            if (item->type() == item_type::changeset) {
                return static_cast<int>(static_cast<const osmium::Changeset*>(item)->id()) - 1;
            }
            if (osmium::OSMObject::is_compatible_to(item->type())) {
                return static_cast<int>(static_cast<const osmium::OSMObject*>(item)->id()) - 1;
            }
            return -1;
        }
        const auto it = pos.find(p);
        return it == pos.end() ? -1 : it->second;
    }
    void event(const std::string& e) {
        if (!log.empty()) log += ' ';
        log += e;
    }
    std::string result() const { return log.empty() ? std::string{"-"} : log; }
};

inline Env& env() {
    static Env e;
    return e;
}

inline void ev_cb(int h, int sub, const char* cb, bool mut, const void* item) {
    env().event(std::to_string(h) + "." + std::to_string(sub) + ":" + cb + (mut ? "!" : "") + ":" + std::to_string(env().position(item)));
}
inline void ev_flush(int h, int sub) {
    env().event(std::to_string(h) + "." + std::to_string(sub) + ":flush");
}

inline const char* cb_of_runtime_type(item_type t) {
    switch (t) {
        case item_type::node: return "node";
        case item_type::way: return "way";
        case item_type::relation: return "relation";
        case item_type::area: return "area";
        case item_type::changeset: return "changeset";
        case item_type::tag_list: return "tag_list";
        case item_type::way_node_list: return "way_node_list";
        case item_type::relation_member_list: return "relation_member_list";
        case item_type::relation_member_list_with_full_members: return "relation_member_list";
        case item_type::outer_ring: return "outer_ring";
        case item_type::inner_ring: return "inner_ring";
        case item_type::changeset_discussion: return "changeset_discussion";
        default: return "undefined";
    }
}

// ---- static handler: a Handler subclass with a const and a non-const overload of every
// callback; logs which overload was selected ("!" = non-const reference) -------------------
#define C20_CB(name, Type)                                                                   \
    void name(const osmium::Type& x) { ev_cb(h, sub, #name, false, &x); }                 \
    void name(osmium::Type& x) { ev_cb(h, sub, #name, true, &x); }

struct SLog : public osmium::handler::Handler {
    int h = 0;
    int sub = 0;
    explicit SLog(int h_, int sub_ = 0) : h(h_), sub(sub_) {}
    C20_CB(osm_object, OSMObject)
    C20_CB(node, Node)
    C20_CB(way, Way)
    C20_CB(relation, Relation)
    C20_CB(area, Area)
    C20_CB(changeset, Changeset)
    C20_CB(tag_list, TagList)
    C20_CB(way_node_list, WayNodeList)
    C20_CB(relation_member_list, RelationMemberList)
    C20_CB(outer_ring, OuterRing)
    C20_CB(inner_ring, InnerRing)
    C20_CB(changeset_discussion, ChangesetDiscussion)
    void flush() { ev_flush(h, sub); }
};

// ---- inner handlers for DynamicHandler::set<> ------------------------------------------------
// handler style: member functions + flush
struct DynInner {
    int h; int sub;
    DynInner(int h_, int sub_) : h(h_), sub(sub_) {}
    C20_CB(osm_object, OSMObject)   // never forwarded by DynamicHandler: must stay silent
    C20_CB(node, Node)
    C20_CB(way, Way)
    C20_CB(relation, Relation)
    C20_CB(area, Area)
    C20_CB(changeset, Changeset)
    void flush() { ev_flush(h, sub); }
};
// visitor style: operator() overloads, no flush
struct DynFn {
    int h; int sub;
    DynFn(int h_, int sub_) : h(h_), sub(sub_) {}
    void operator()(const osmium::Node& x) { ev_cb(h, sub, "node", false, &x); }
    void operator()(const osmium::Way& x) { ev_cb(h, sub, "way", false, &x); }
    void operator()(const osmium::Relation& x) { ev_cb(h, sub, "relation", false, &x); }
    void operator()(const osmium::Area& x) { ev_cb(h, sub, "area", false, &x); }
    void operator()(const osmium::Changeset& x) { ev_cb(h, sub, "changeset", false, &x); }
};

// mode: 'D' handler style, 'f' functor style, '0' unset
inline void setup_dynamic(osmium::handler::DynamicHandler& d, char mode, int h, int sub) {
    if (mode == 'D') {
        d.set<DynInner>(h, sub);
    } else if (mode == 'f') {
        d.set<DynFn>(h, sub);
    }
}

// ---- lambdas: one closure type per parameter signature -------------------------------------
// The event names the callback by the RUNTIME type of the object the lambda received and
// marks "!" when the lambda's parameter is a non-const reference.
#define C20_LAMBDA(fname, PARAM, MUT)                                                        \
    inline auto fname(int h) {                                                               \
        return [h](PARAM x) { ev_cb(h, 0, cb_of_runtime_type(x.type()), MUT, &x); };          \
    }
C20_LAMBDA(lam_n, const osmium::Node&, false)
C20_LAMBDA(lam_N, osmium::Node&, true)
C20_LAMBDA(lam_w, const osmium::Way&, false)
C20_LAMBDA(lam_W, osmium::Way&, true)
C20_LAMBDA(lam_r, const osmium::Relation&, false)
C20_LAMBDA(lam_R, osmium::Relation&, true)
C20_LAMBDA(lam_a, const osmium::Area&, false)
C20_LAMBDA(lam_A, osmium::Area&, true)
C20_LAMBDA(lam_c, const osmium::Changeset&, false)
C20_LAMBDA(lam_C, osmium::Changeset&, true)
C20_LAMBDA(lam_o, const osmium::OSMObject&, false)
C20_LAMBDA(lam_O, osmium::OSMObject&, true)
C20_LAMBDA(lam_e, const osmium::OSMEntity&, false)
C20_LAMBDA(lam_E, osmium::OSMEntity&, true)
C20_LAMBDA(lam_i, const osmium::memory::Item&, false)
C20_LAMBDA(lam_I, osmium::memory::Item&, true)
C20_LAMBDA(lam_g, const auto&, false)
C20_LAMBDA(lam_G, auto&, (!std::is_const<std::remove_reference_t<decltype(x)>>::value))

static const char LAMBDA_SIGS[] = "nNwWrRaAcCoOeEiIgG";

// Calls f(handler) with a fresh lambda of signature `sig` (f is a generic callable).
template <typename F>
inline bool with_lambda(char sig, int h, F&& f) {
    switch (sig) {
        case 'n': { auto l = lam_n(h); f(l); return true; }
        case 'N': { auto l = lam_N(h); f(l); return true; }
        case 'w': { auto l = lam_w(h); f(l); return true; }
        case 'W': { auto l = lam_W(h); f(l); return true; }
        case 'r': { auto l = lam_r(h); f(l); return true; }
        case 'R': { auto l = lam_R(h); f(l); return true; }
        case 'a': { auto l = lam_a(h); f(l); return true; }
        case 'A': { auto l = lam_A(h); f(l); return true; }
        case 'c': { auto l = lam_c(h); f(l); return true; }
        case 'C': { auto l = lam_C(h); f(l); return true; }
        case 'o': { auto l = lam_o(h); f(l); return true; }
        case 'O': { auto l = lam_O(h); f(l); return true; }
        case 'e': { auto l = lam_e(h); f(l); return true; }
        case 'E': { auto l = lam_E(h); f(l); return true; }
        case 'i': { auto l = lam_i(h); f(l); return true; }
        case 'I': { auto l = lam_I(h); f(l); return true; }
        case 'g': { auto l = lam_g(h); f(l); return true; }
        case 'G': { auto l = lam_G(h); f(l); return true; }
        default: return false;
    }
}

// ---- a reader-like source for osmium::io::InputIterator: hands out the prepared buffers,
// then invalid buffers (= end of input) --------------------------------------------------------
struct FakeSource {
    std::vector<Buffer> buffers;
    std::size_t next = 0;
    Buffer read() {
        if (next < buffers.size()) {
            return std::move(buffers[next++]);
        }
        return Buffer{};
    }
};
// `osmium::apply(source, handlers...)` finds these by ADL, as it does for osmium::io::Reader
inline osmium::io::InputIterator<FakeSource> begin(FakeSource& s) { return osmium::io::InputIterator<FakeSource>{s}; }
inline osmium::io::InputIterator<FakeSource> end(FakeSource&) { return osmium::io::InputIterator<FakeSource>{}; }

// An UNFILTERED iterator over all items of a buffer typed as T (OSMEntity / OSMObject,
// const or not): reaches the `default: throw unknown_type` branches of apply_item_impl.
template <typename T>
class RawIter {
    using data_type = std::conditional_t<std::is_const<T>::value, const unsigned char*, unsigned char*>;
    data_type m_data;
public:
    using iterator_category = std::forward_iterator_tag;
    using value_type = T;
    using difference_type = std::ptrdiff_t;
    using pointer = T*;
    using reference = T&;
    explicit RawIter(data_type d) : m_data(d) {}
    RawIter& operator++() { m_data = reinterpret_cast<T*>(m_data)->next(); return *this; }
    bool operator==(const RawIter& o) const { return m_data == o.m_data; }
    bool operator!=(const RawIter& o) const { return m_data != o.m_data; }
    T& operator*() const { return *reinterpret_cast<T*>(m_data); }
    T* operator->() const { return reinterpret_cast<T*>(m_data); }
};

// item token: <type char>[-]   ('-' = removed flag set)
struct ItemTok { char t; bool removed; };

inline bool parse_item_tok(const std::string& w, ItemTok& out) {
    if (w.empty() || w.size() > 2) return false;
    item_type ty{};
    if (!type_of_char(w[0], ty)) return false;
    out.t = w[0];
    out.removed = false;
    if (w.size() == 2) {
        if (w[1] != '-') return false;
        out.removed = true;
    }
    return true;
}

} // namespace c20
