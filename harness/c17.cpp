// C17 harness: the REAL geometry factories (WKB/EWKB/hex, WKT/EWKT, GeoJSON) on objects built
// with the real builders.  Same op lines as lean/Driver/C17.lean.
//
//   emit <v> <fmt> <kind> <u|a> <f|b> <srid> <prec> <items...>
//        -> "ok <hex of returned string>" | "err geometry" | "err location" | "err other"
//        fmt = wkb|ewkb|wkbhex|ewkbhex|wkt|ewkt|geojson ; srid 4326 = IdentityProjection,
//        3857 = MercatorProjection ; kind = point|line|poly|area ; items = location tokens
//        x:y[:ignored...] (raw int32 fixed point), for `area` the tokens O / I open an
//        outer / inner ring.  <v> (model variant) is ignored.
//        Factories are long-lived (one per fmt/srid/prec), reused across ops.
//   conv <srid> <items...>  -> per location "xb:yb" = the projected doubles (memory order, hex),
//        from the harness's OWN fixed-point conversion; "-:-" for an invalid location
//   d2s <v> <bits> <prec> <fullhex> -> "ok <hex of double2string result>" |
//        "libc-mismatch <hex>" when libc's snprintf("%.*f") prints something else than <fullhex>
//
// With C17_FLUSH set, stdout is flushed after every line (ASan runs).
#include "common.hpp"

#include <osmium/builder/osm_object_builder.hpp>
#include <osmium/geom/factory.hpp>
#include <osmium/geom/geojson.hpp>
#include <osmium/geom/mercator_projection.hpp>
#include <osmium/geom/wkb.hpp>
#include <osmium/geom/wkt.hpp>
#include <osmium/memory/buffer.hpp>
#include <osmium/osm/area.hpp>
#include <osmium/osm/location.hpp>
#include <osmium/osm/node.hpp>
#include <osmium/osm/way.hpp>
#include <osmium/util/double.hpp>

#include <cstdlib>
#include <cstring>
#include <functional>
#include <map>
#include <memory>

using osmium::memory::Buffer;
namespace geom = osmium::geom;

struct Item {
    char ring = 0;       // 'O' / 'I' marker, 0 = location
    int32_t x = 0;
    int32_t y = 0;
};

static bool parse_item(const std::string& w, Item& it) {
    if (w == "O" || w == "I") {
        it.ring = w[0];
        return true;
    }
    const auto c1 = w.find(':');
    if (c1 == std::string::npos) return false;
    auto c2 = w.find(':', c1 + 1);
    if (c2 == std::string::npos) c2 = w.size();
    try {
        std::size_t p = 0;
        const std::string xs = w.substr(0, c1);
        const std::string ys = w.substr(c1 + 1, c2 - c1 - 1);
        const long long x = std::stoll(xs, &p);
        if (p != xs.size()) return false;
        const long long y = std::stoll(ys, &p);
        if (p != ys.size()) return false;
        if (x < INT32_MIN || x > INT32_MAX || y < INT32_MIN || y > INT32_MAX) return false;
        it.ring = 0;
        it.x = static_cast<int32_t>(x);
        it.y = static_cast<int32_t>(y);
    } catch (const std::exception&) {
        return false;
    }
    return true;
}

static osmium::Location loc_of(const Item& it) {
    return osmium::Location{it.x, it.y};
}

struct Op {
    std::string kind;
    geom::use_nodes un = geom::use_nodes::unique;
    geom::direction dir = geom::direction::forward;
    std::vector<Item> items;
};

// Builds the object with the real builders and calls the factory.
template <typename TFactory>
static std::string run_factory(TFactory& factory, const Op& op) {
    Buffer buffer{1024, Buffer::auto_grow::yes};
    if (op.kind == "point") {
        {
            osmium::builder::NodeBuilder b{buffer};
            b.set_id(1).set_location(loc_of(op.items.at(0)));
        }
        const auto off = buffer.commit();
        return factory.create_point(buffer.get<osmium::Node>(off));
    }
    if (op.kind == "line" || op.kind == "poly") {
        {
            osmium::builder::WayBuilder b{buffer};
            b.set_id(17);
            {
                osmium::builder::TagListBuilder tl{b};
                tl.add_tag("highway", "x");
            }
            osmium::builder::WayNodeListBuilder wnl{b};
            osmium::object_id_type id = 0;
            for (const auto& it : op.items) {
                wnl.add_node_ref(osmium::NodeRef{++id, loc_of(it)});
            }
        }
        const auto off = buffer.commit();
        const auto& way = buffer.get<osmium::Way>(off);
        if (op.kind == "line") {
            return factory.create_linestring(way, op.un, op.dir);
        }
        return factory.create_polygon(way, op.un, op.dir);
    }
    // area
    {
        osmium::builder::AreaBuilder b{buffer};
        b.set_id(35);
        {
            osmium::builder::TagListBuilder tl{b};
            tl.add_tag("landuse", "x");
        }
        osmium::object_id_type id = 0;
        std::size_t i = 0;
        while (i < op.items.size()) {
            const char ring = op.items[i].ring;
            ++i;
            if (ring == 'O') {
                osmium::builder::OuterRingBuilder rb{b};
                for (; i < op.items.size() && op.items[i].ring == 0; ++i) {
                    rb.add_node_ref(osmium::NodeRef{++id, loc_of(op.items[i])});
                }
            } else {
                osmium::builder::InnerRingBuilder rb{b};
                for (; i < op.items.size() && op.items[i].ring == 0; ++i) {
                    rb.add_node_ref(osmium::NodeRef{++id, loc_of(op.items[i])});
                }
            }
        }
    }
    const auto off = buffer.commit();
    return factory.create_multipolygon(buffer.get<osmium::Area>(off));
}

using Runner = std::function<std::string(const Op&)>;

template <typename TFactory, typename... TArgs>
static Runner make_runner(TArgs... args) {
    auto f = std::make_shared<TFactory>(args...);
    return [f](const Op& op) { return run_factory(*f, op); };
}

template <typename TProj>
static Runner make_for(const std::string& fmt, int prec) {
    using geom::out_type;
    using geom::wkb_type;
    if (fmt == "wkb") return make_runner<geom::WKBFactory<TProj>>(wkb_type::wkb, out_type::binary);
    if (fmt == "ewkb") return make_runner<geom::WKBFactory<TProj>>(wkb_type::ewkb, out_type::binary);
    if (fmt == "wkbhex") return make_runner<geom::WKBFactory<TProj>>(wkb_type::wkb, out_type::hex);
    if (fmt == "ewkbhex") return make_runner<geom::WKBFactory<TProj>>(wkb_type::ewkb, out_type::hex);
    if (fmt == "wkt") return make_runner<geom::WKTFactory<TProj>>(prec);
    if (fmt == "ewkt") return make_runner<geom::WKTFactory<TProj>>(prec, geom::wkt_type::ewkt);
    if (fmt == "geojson") return make_runner<geom::GeoJSONFactory<TProj>>(prec);
    return Runner{};
}

static std::map<std::string, Runner>& cache() {
    static std::map<std::string, Runner> c;
    return c;
}

static std::string dbl_hex(double d) {
    char b[8];
    std::memcpy(b, &d, 8);
    return vh::hex(std::string{b, 8});
}

static std::string do_emit(const std::vector<std::string>& w) {
    if (w.size() < 8) return "bad-op";
    const std::string& fmt = w[2];
    Op op;
    op.kind = w[3];
    if (w[4] != "u" && w[4] != "a") return "bad-op";
    if (w[5] != "f" && w[5] != "b") return "bad-op";
    op.un = w[4] == "u" ? geom::use_nodes::unique : geom::use_nodes::all;
    op.dir = w[5] == "b" ? geom::direction::backward : geom::direction::forward;
    const std::string& srid = w[6];
    int prec = 0;
    try {
        prec = std::stoi(w[7]);
    } catch (const std::exception&) {
        return "bad-op";
    }
    if (prec < 0 || prec > 17) return "bad-op";
    for (std::size_t i = 8; i < w.size(); ++i) {
        Item it;
        if (!parse_item(w[i], it)) return "bad-op";
        op.items.push_back(it);
    }
    if (op.kind == "point") {
        if (op.items.size() != 1 || op.items[0].ring) return "bad-op";
    } else if (op.kind == "line" || op.kind == "poly") {
        for (const auto& it : op.items) {
            if (it.ring) return "bad-op";
        }
    } else if (op.kind == "area") {
        if (!op.items.empty() && !op.items[0].ring) return "bad-op";
    } else {
        return "bad-op";
    }
    const bool text = fmt == "wkt" || fmt == "ewkt" || fmt == "geojson";
    const std::string key = fmt + "/" + srid + "/" + (text ? std::to_string(prec) : std::string{"-"});
    auto it = cache().find(key);
    if (it == cache().end()) {
        Runner r;
        if (srid == "4326") {
            r = make_for<geom::IdentityProjection>(fmt, prec);
        } else if (srid == "3857") {
            r = make_for<geom::MercatorProjection>(fmt, prec);
        }
        if (!r) return "bad-op";
        it = cache().emplace(key, std::move(r)).first;
    }
    try {
        return "ok " + vh::hex(it->second(op));
    } catch (const osmium::geometry_error&) {
        return "err geometry";
    } catch (const osmium::invalid_location&) {
        return "err location";
    } catch (const std::exception&) {
        return "err other";
    }
}

static std::string do_conv(const std::vector<std::string>& w) {
    if (w.size() < 2) return "bad-op";
    const bool merc = w[1] == "3857";
    if (!merc && w[1] != "4326") return "bad-op";
    std::string out;
    for (std::size_t i = 2; i < w.size(); ++i) {
        Item it;
        if (!parse_item(w[i], it) || it.ring) return "bad-op";
        if (!out.empty()) out += ' ';
        const bool valid = it.x >= -1800000000 && it.x <= 1800000000 && it.y >= -900000000 && it.y <= 900000000;
        if (!valid) {
            out += "-:-";
            continue;
        }
        // own conversion of the fixed-point coordinate
        const double lon = static_cast<double>(it.x) / 10000000.0;
        const double lat = static_cast<double>(it.y) / 10000000.0;
        double x = lon;
        double y = lat;
        if (merc) {
            x = geom::detail::lon_to_x(lon);
            y = geom::detail::lat_to_y(lat);
        }
        out += dbl_hex(x);
        out += ':';
        out += dbl_hex(y);
    }
    return out.empty() ? "-" : out;
}

static std::string do_d2s(const std::vector<std::string>& w) {
    if (w.size() != 5) return "bad-op";
    std::string bits;
    std::string full;
    if (!vh::unhex(w[2], bits) || bits.size() != 8 || !vh::unhex(w[4], full)) return "bad-op";
    int prec = 0;
    try {
        prec = std::stoi(w[3]);
    } catch (const std::exception&) {
        return "bad-op";
    }
    if (prec < 0 || prec > 17) return "bad-op";
    double v = 0;
    std::memcpy(&v, bits.data(), 8);
    char big[512];
    const int n = std::snprintf(big, sizeof(big), "%.*f", prec, v);
    if (n < 0 || n >= static_cast<int>(sizeof(big))) return "bad-op";
    if (std::string{big, static_cast<std::size_t>(n)} != full) {
        return "libc-mismatch " + vh::hex(std::string{big, static_cast<std::size_t>(n)});
    }
    std::string out;
    osmium::double2string(out, v, prec);
    return "ok " + vh::hex(out);
}

int main() {
    const bool flush = std::getenv("C17_FLUSH") != nullptr;
    std::ios::sync_with_stdio(false);
    std::string line;
    while (std::getline(std::cin, line)) {
        const auto w = vh::words(line);
        std::string out = "bad-op";
        if (!w.empty()) {
            if (w[0] == "emit") {
                out = do_emit(w);
            } else if (w[0] == "conv") {
                out = do_conv(w);
            } else if (w[0] == "d2s") {
                out = do_d2s(w);
            }
        }
        out += '\n';
        std::fwrite(out.data(), 1, out.size(), stdout);
        if (flush) {
            std::fflush(stdout);
        }
    }
    std::fflush(stdout);
    return 0;
}
